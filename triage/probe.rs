// SCRATCH ONLY (design-time triage): confirm suspected defects against the real code.
use std::time::Duration;
use tokio::io::{AsyncReadExt, AsyncWriteExt};
use xs::store::{FollowOption, Frame, ReadOptions, Store, TTL, ZERO_CONTEXT};

fn tmp_store() -> (Store, tempfile::TempDir) {
    let d = tempfile::tempdir().unwrap();
    (Store::new(d.path().to_path_buf()), d)
}

// D4 (C11): history == limit delivers an (n+1)-th frame
#[tokio::test(flavor = "multi_thread", worker_threads = 4)]
async fn d4_limit_equals_history() {
    let (store, _d) = tmp_store();
    for i in 0..3 {
        store
            .append(Frame::builder(format!("t{i}"), ZERO_CONTEXT).build())
            .unwrap();
    }
    let mut rx = store
        .read(
            ReadOptions::builder()
                .follow(FollowOption::On)
                .limit(3)
                .build(),
        )
        .await;
    let mut got = vec![];
    for _ in 0..3 {
        got.push(rx.recv().await.unwrap().topic);
    }
    tokio::time::sleep(Duration::from_millis(200)).await;
    store
        .append(Frame::builder("extra", ZERO_CONTEXT).build())
        .unwrap();
    let extra = tokio::time::timeout(Duration::from_millis(500), rx.recv()).await;
    println!("D4 got={got:?} after-limit={extra:?}");
    // heartbeat + limit: does the stream end?
    let mut rx = store
        .read(
            ReadOptions::builder()
                .follow(FollowOption::WithHeartbeat(Duration::from_millis(20)))
                .limit(2)
                .build(),
        )
        .await;
    let mut topics = vec![];
    let deadline = tokio::time::Instant::now() + Duration::from_millis(400);
    loop {
        match tokio::time::timeout_at(deadline, rx.recv()).await {
            Ok(Some(f)) => topics.push(f.topic),
            Ok(None) => {
                topics.push("<END>".into());
                break;
            }
            Err(_) => {
                topics.push("<STILL-OPEN>".into());
                break;
            }
        }
    }
    println!("D5 heartbeat+limit=2 stream: {topics:?}");
}

// D3 (C07/C20): imported xs.context frame does not register the context
#[tokio::test]
async fn d3_import_context() {
    let (store, d) = tmp_store();
    let ctx_frame = Frame::builder("xs.context", ZERO_CONTEXT)
        .id(scru128::new())
        .ttl(TTL::Forever)
        .build();
    store.insert_frame(&ctx_frame).unwrap();
    let r = store.append(Frame::builder("t", ctx_frame.id).build());
    println!("D3 append into imported context before reopen: {:?}", r.as_ref().map(|f| f.id).map_err(|e| e.to_string()));
    // D11 (C09): imported ephemeral frame is stored
    let eph = Frame::builder("eph", ZERO_CONTEXT)
        .id(scru128::new())
        .ttl(TTL::Ephemeral)
        .build();
    store.insert_frame(&eph).unwrap();
    println!("D11 ephemeral import readable by get: {}", store.get(&eph.id).is_some());
    drop(store);
    let _ = d;
}

// D1 (C02): concurrent appenders vs. a follower and a last-id poller
#[tokio::test(flavor = "multi_thread", worker_threads = 8)]
async fn d1_concurrent_append_order() {
    let (store, _d) = tmp_store();
    let mut rx = store
        .read(
            ReadOptions::builder()
                .follow(FollowOption::On)
                .tail(true)
                .build(),
        )
        .await;
    let writers = 8;
    let per = 150;
    let mut hs = vec![];
    for w in 0..writers {
        let s = store.clone();
        hs.push(std::thread::spawn(move || {
            for i in 0..per {
                s.append(Frame::builder(format!("w{w}.{i}"), ZERO_CONTEXT).build())
                    .unwrap();
            }
        }));
    }
    // poller
    let s2 = store.clone();
    let poll = std::thread::spawn(move || {
        let mut last = None;
        let mut seen = 0usize;
        let start = std::time::Instant::now();
        while seen < writers * per && start.elapsed() < Duration::from_secs(20) {
            let batch: Vec<_> = s2.read_sync(last.as_ref(), None, None).collect();
            for f in batch {
                last = Some(f.id);
                seen += 1;
            }
        }
        // one final sweep after writers are done is performed by caller
        (seen, last)
    });
    let mut prev = None;
    let mut ooo = 0;
    for _ in 0..writers * per {
        let f = tokio::time::timeout(Duration::from_secs(20), rx.recv())
            .await
            .unwrap()
            .unwrap();
        if let Some(p) = prev {
            if f.id < p {
                ooo += 1;
            }
        }
        prev = Some(f.id);
    }
    for h in hs {
        h.join().unwrap();
    }
    let (seen, last) = poll.join().unwrap();
    let tail: Vec<_> = store.read_sync(last.as_ref(), None, None).collect();
    println!(
        "D1 out-of-order broadcasts={ooo} of {}; poller saw {} (+{} in final sweep) of {}",
        writers * per,
        seen,
        tail.len(),
        writers * per
    );
}

async fn http_raw(sock: &std::path::Path, req: &[u8], wait_ms: u64) -> Vec<u8> {
    let mut s = tokio::net::UnixStream::connect(sock).await.unwrap();
    s.write_all(req).await.unwrap();
    let mut out = vec![];
    let mut buf = [0u8; 4096];
    loop {
        match tokio::time::timeout(Duration::from_millis(wait_ms), s.read(&mut buf)).await {
            Ok(Ok(0)) => {
                out.extend_from_slice(b"<EOF>");
                break;
            }
            Ok(Ok(n)) => out.extend_from_slice(&buf[..n]),
            Ok(Err(e)) => {
                out.extend_from_slice(format!("<ERR {e}>").as_bytes());
                break;
            }
            Err(_) => {
                out.extend_from_slice(b"<TIMEOUT>");
                break;
            }
        }
    }
    out
}

// D2 (C06), D6/D7 (C13) over the real HTTP front end
#[tokio::test(flavor = "multi_thread", worker_threads = 4)]
async fn d2_d6_d7_http() {
    let (store, d) = tmp_store();
    let engine = xs::nu::Engine::new().unwrap();
    {
        let store = store.clone();
        tokio::spawn(async move {
            let _ = xs::api::serve(store, engine, None).await;
        });
    }
    let sock = d.path().join("sock");
    for _ in 0..50 {
        if sock.exists() {
            break;
        }
        tokio::time::sleep(Duration::from_millis(20)).await;
    }
    let a = store
        .append(Frame::builder("xs.context", ZERO_CONTEXT).build())
        .unwrap()
        .id;
    let b = store
        .append(Frame::builder("xs.context", ZERO_CONTEXT).build())
        .unwrap()
        .id;
    // follower of head/t in context B
    let sock2 = sock.clone();
    let req = format!("GET /head/t?follow=true&context={b} HTTP/1.1\r\nHost: x\r\n\r\n");
    let follower = tokio::spawn(async move { http_raw(&sock2, req.as_bytes(), 700).await });
    tokio::time::sleep(Duration::from_millis(200)).await;
    store
        .append(Frame::builder("t", a).meta(serde_json::json!({"ctx":"A"})).build())
        .unwrap();
    let out = follower.await.unwrap();
    println!(
        "D2 head-follow in ctx B received: {}",
        String::from_utf8_lossy(&out).replace("\r\n", "|")
    );

    // D6: non-ASCII xs-meta
    let mut req = b"POST /t HTTP/1.1\r\nHost: x\r\nxs-meta: ".to_vec();
    req.extend_from_slice(&[0xff, 0xfe]);
    req.extend_from_slice(b"\r\nContent-Length: 0\r\n\r\n");
    let out = http_raw(&sock, &req, 700).await;
    println!("D6 non-ascii xs-meta -> {:?}", String::from_utf8_lossy(&out));

    // D7: valid-looking but absent CAS hash
    let req = b"GET /cas/sha256-47DEQpj8HBSa+/TImW+5JCeuQeRkm5NMpJWZG3hSuFU= HTTP/1.1\r\nHost: x\r\n\r\n";
    let out = http_raw(&sock, req, 700).await;
    println!("D7 missing cas -> {:?}", String::from_utf8_lossy(&out));

    // server still alive?
    let out = http_raw(&sock, b"GET /version HTTP/1.1\r\nHost: x\r\n\r\n", 300).await;
    println!("after: /version -> {:?}", String::from_utf8_lossy(&out).lines().next());
}

// D10 (C17): same handler name in two contexts collapses to one after restart
#[tokio::test(flavor = "multi_thread", worker_threads = 4)]
async fn d10_restart_same_name_two_contexts() {
    let (store, _d) = tmp_store();
    let a = store
        .append(Frame::builder("xs.context", ZERO_CONTEXT).build())
        .unwrap()
        .id;
    let b = store
        .append(Frame::builder("xs.context", ZERO_CONTEXT).build())
        .unwrap()
        .id;
    let script = r#"{run: {|frame| if $frame.topic == "ping" { "pong" }}}"#;
    let h = store.cas_insert(script).await.unwrap();
    store
        .append(Frame::builder("h.register", a).hash(h.clone()).build())
        .unwrap();
    store
        .append(Frame::builder("h.register", b).hash(h.clone()).build())
        .unwrap();
    // "restart": a serve loop starting on a store that already holds both registrations
    {
        let store = store.clone();
        let engine = xs::nu::Engine::new().unwrap();
        tokio::spawn(async move {
            let _ = xs::handlers::serve(store, engine).await;
        });
    }
    tokio::time::sleep(Duration::from_millis(1500)).await;
    let reg: Vec<_> = store
        .read_sync(None, None, None)
        .filter(|f| f.topic == "h.registered")
        .map(|f| f.context_id == a)
        .collect();
    println!("D10 h.registered frames after restart (true = ctx A): {reg:?} (expected one per context)");
}

// D8 (C16): `.registered` announced before the handler has subscribed
#[tokio::test(flavor = "multi_thread", worker_threads = 8)]
async fn d8_announce_before_subscribe() {
    let (store, _d) = tmp_store();
    {
        let store = store.clone();
        let engine = xs::nu::Engine::new().unwrap();
        tokio::spawn(async move {
            let _ = xs::handlers::serve(store, engine).await;
        });
    }
    tokio::time::sleep(Duration::from_millis(300)).await;
    let mut rx = store
        .read(ReadOptions::builder().follow(FollowOption::On).tail(true).build())
        .await;
    let script = r#"{run: {|frame| if $frame.topic == "ping" { "pong" }}}"#;
    let h = store.cas_insert(script).await.unwrap();
    let rounds = 150;
    let mut missed = 0;
    for i in 0..rounds {
        let name = format!("h{i}");
        store
            .append(Frame::builder(format!("{name}.register"), ZERO_CONTEXT).hash(h.clone()).build())
            .unwrap();
        // wait for .registered then fire immediately
        loop {
            let f = rx.recv().await.unwrap();
            if f.topic == format!("{name}.registered") {
                break;
            }
        }
        store.append(Frame::builder("ping", ZERO_CONTEXT).build()).unwrap();
        // expect <name>.out within 300ms
        let mut ok = false;
        let deadline = tokio::time::Instant::now() + Duration::from_millis(300);
        while let Ok(Some(f)) = tokio::time::timeout_at(deadline, rx.recv()).await {
            if f.topic == format!("{name}.out") {
                ok = true;
                break;
            }
        }
        if !ok {
            missed += 1;
        }
        store.append(Frame::builder(format!("{name}.unregister"), ZERO_CONTEXT).build()).unwrap();
    }
    println!("D8 handlers that missed the first frame after .registered: {missed} of {rounds}");
}

// D9 (C16/C11): a lagging handler dies without `.unregistered`
#[tokio::test(flavor = "multi_thread", worker_threads = 4)]
async fn d9_lagging_handler_silent_death() {
    let (store, _d) = tmp_store();
    {
        let store = store.clone();
        let engine = xs::nu::Engine::new().unwrap();
        tokio::spawn(async move {
            let _ = xs::handlers::serve(store, engine).await;
        });
    }
    tokio::time::sleep(Duration::from_millis(300)).await;
    let script = r#"{run: {|frame| if $frame.topic == "ping" { sleep 5ms; "pong" }}}"#;
    let h = store.cas_insert(script).await.unwrap();
    store
        .append(Frame::builder("slow.register", ZERO_CONTEXT).hash(h).build())
        .unwrap();
    tokio::time::sleep(Duration::from_millis(500)).await;
    for _ in 0..1400 {
        store
            .append(Frame::builder("ping", ZERO_CONTEXT).ttl(TTL::Ephemeral).build())
            .unwrap();
    }
    tokio::time::sleep(Duration::from_secs(9)).await;
    let before: Vec<_> = store.read_sync(None, None, None).map(|f| f.topic).collect();
    let outs = before.iter().filter(|t| *t == "slow.out").count();
    let unreg = before.iter().filter(|t| *t == "slow.unregistered").count();
    // is it still alive?
    store.append(Frame::builder("ping", ZERO_CONTEXT).build()).unwrap();
    tokio::time::sleep(Duration::from_millis(500)).await;
    let outs2 = store.read_sync(None, None, None).filter(|f| f.topic == "slow.out").count();
    let mut uniq: std::collections::BTreeMap<String,usize> = Default::default(); for t in &before { *uniq.entry(t.clone()).or_default() += 1; } println!("D9 topics {uniq:?}"); for f in store.read_sync(None,None,None).filter(|f| f.topic=="slow.unregistered") { println!("D9 unreg meta {:?}", f.meta); }
    println!("D9 outs after burst={outs} unregistered frames={unreg}; outs after one more ping={outs2} (alive iff greater)");
}
