"""C11 - follow options: limit is exact, tail skips history, never a silent gap."""
from xsvlib.facts import fmt, strip, place_path, walk
from xsvlib import q
from . import common as C
from .store_shared import read_bodies, denotes_field
from . import C03 as c03
from . import C01 as c01

EXPLANATION = ("Dominance analysis of the live and history bodies of Store::read: no delivery with count >= limit, a limit hit in history "
               "ends the stream without hand-off, the scan is launched only on the not-tail edge, synthetic frames flow only into the "
               "subscriber's own channel, and only the history and live bodies hold strong senders (the heartbeat holds a WeakSender).")
NOT_DECIDED = ["consumer-speed behaviour of tokio channels (Lagged)", "which frames are 'the first n matching' under concurrent appends"]

STRONG = "tokio::sync::mpsc::bounded::Sender<xs::store::Frame>"
WEAK = "tokio::sync::mpsc::bounded::WeakSender<xs::store::Frame>"


_RUN = [None]


def limit_none_edges(body):
    out = []
    for bb, si in body.switches():
        if si["kind"] == "variant" and "option::Option" in (si.get("adt") or "") and denotes_field(_RUN[0], body, si["cond"], "limit"):
            for (t, lab, m) in si["edges"]:
                ms = m if isinstance(m, tuple) else (m,)
                if ms == ("None",):
                    out.append((bb, t, lab))
    return out


def limit_cmp_edges(body):
    """[(bb, rel(count ? limit), below_edges, reached_edges)] for every comparison of a counter with the limit payload."""
    out = []
    for bb, si in body.switches():
        if si["kind"] != "bool":
            continue
        cmp_ = q.comparison(si["cond"])
        if not cmp_:
            continue
        rel, l, r = cmp_
        def is_limit(x):
            return denotes_field(_RUN[0], body, x, "limit")
        if is_limit(r) and not is_limit(l):
            pass
        elif is_limit(l) and not is_limit(r):
            rel, l, r = q.SWAP[rel], r, l
        else:
            continue
        below = q.edge_triples(body, bb, lambda m, rel=rel: q.rel_on_edge(rel, m) == "lt")
        reached = q.edge_triples(body, bb, lambda m, rel=rel: q.rel_on_edge(rel, m) == "ge")
        out.append((bb, rel, below, reached, l))
    return out


def r1(run):
    _RUN[0] = run
    ls = c03.live_shape(run)
    if ls is None:
        run.missing("%s|live-body" % C.READ, "live task not found")
        return
    live, recvs, sends = ls
    cmps = limit_cmp_edges(live)
    run.floor("count/limit comparisons in the live task", len(cmps), 2, live.sp)
    below = [e for c in cmps for e in c[2]]
    none = limit_none_edges(live)
    for s in sends:
        run.ob("%s|live|limit-checked-before-delivery" % C.READ, bool(below) and q.dominated(live, s.bb, via_edges=below + none), s.sp,
               "every path from the start of the live task to a delivery passes a `count < limit` edge (or limit is None): the hand-off count is checked before the first live frame",
               reason="delivery-beyond-limit")
    # from every increment of the counter, a delivery is reachable only through a `count < limit` edge
    counters = set()
    for c in cmps:
        l = c[4]
        if l[0] in ("phi", "local"):
            counters.add(l[1])
    incs = []
    for cl in counters:
        incs += c01.increments_of(live, cl)
    run.floor("counter increments in the live task", len(incs), 1, live.sp)
    for (bi, st) in incs:
        reach = live.reachable_blocks([bi], removed_edges=below) - {bi}
        bad = [s.sp for s in sends if s.bb in reach]
        run.ob("%s|live|limit-rechecked-after-increment" % C.READ, not bad, st["sp"], "after counting a delivered frame the next delivery is reachable only through `count < limit` (%s)" % bad,
               reason="delivery-beyond-limit")
        ok_edges = [e for s in sends for e in q.call_result_edges(live, s, ok=True)]
        run.ob("%s|live|count-after-delivery" % C.READ, bool(ok_edges) and q.dominated(live, bi, via_edges=ok_edges), st["sp"], "only delivered frames are counted", reason="limit-accounting")
    # every delivered frame is counted when a limit is set: from the Ok edge of send, with increments removed, recv is reachable only via limit-None edges
    for s in sends:
        ok_edges = q.call_result_edges(live, s, ok=True)
        reach = live.reachable_blocks([t for (_, t, _) in ok_edges], removed_blocks=[bi for (bi, st) in incs], removed_edges=none)
        bad = [r.sp for r in recvs if r.bb in reach]
        run.ob("%s|live|every-delivery-counted" % C.READ, not bad, s.sp, "with a limit set, the next recv is reached only after the delivered frame was counted", reason="limit-accounting")
    # the counter is seeded from the hand-off
    seeded = False
    for c in cmps:
        if any(x[0] == "env" for x in walk(c[4])) or c03.is_done_value(c[4]):
            seeded = True
    run.ob("%s|live|count-seeded-from-history" % C.READ, seeded, live.sp, "the live counter starts from the count handed over by the history scan", reason="limit-accounting")


def loop_exit_edges(body, head_bb, start_targets):
    """Edges on which a path that started at `start_targets` (inside the loop whose head is `head_bb`) leaves the loop for good:
    the edge's target can reach a return without passing the head again, cannot reach the head, and a sibling edge can."""
    inside = body.reachable_blocks(start_targets, removed_blocks=[head_bb])
    rets = set(body.return_blocks())
    out = []
    for bb, si in body.switches():
        if bb not in inside:
            continue
        info = []
        for (t, lab, m) in si["edges"]:
            cont = t == head_bb or q.reaches(body, t, head_bb)
            ex = t in rets or any(r in body.reachable_blocks([t], removed_blocks=[head_bb]) for r in rets)
            info.append((t, lab, m, cont, ex))
        if any(i[3] for i in info):
            for (t, lab, m, cont, ex) in info:
                if ex and not cont:
                    out.append((bb, t, lab, m, si))
    return out


def r8(run):
    """The live loop skips frames it filters out; it ends only when the subscription ends, the subscriber is gone, or the limit is reached."""
    _RUN[0] = run
    ls = c03.live_shape(run)
    if ls is None:
        run.missing("%s|live-body" % C.READ, "live task not found")
        return
    live, recvs, sends = ls
    if len(recvs) != 1:
        run.unrecognised("%s|live|loop-head" % C.READ, "expected one broadcast recv in the live task", live.sp)
        return
    r = recvs[0]
    ok_edges = q.call_result_edges(live, r, ok=True)
    if not ok_edges:
        run.unrecognised("%s|live|recv-result" % C.READ, "cannot find the Ok edge of the broadcast recv", r.sp)
        return
    reached = [e for c in limit_cmp_edges(live) for e in c[3]]
    exits = loop_exit_edges(live, r.bb, [t for (_, t, _) in ok_edges])
    run.floor("exits of the live loop after a frame was received", len(exits), 1, live.sp)
    for (bb, t, lab, m, si) in exits:
        cond = si["cond"]
        why = None
        if any(cc.fn == C.MPSC_SEND for cc in q.calls_in(cond)):
            why = "subscriber gone (delivery failed)"
        elif (bb, t, lab) in reached:
            why = "limit reached"
        cm = q.comparison(cond)
        tag = "ok" if why else ("%s(%s)" % (cm[0], q.last_field(cm[1]) or q.last_field(cm[2]) or "?") if cm else "other")
        run.ob("%s|live|loop-exit|%s" % (C.READ, tag), why is not None, live.blocks[bb]["term"]["sp"],
               "the live loop is left only because the subscriber is gone or the limit is reached (this exit: %s on `%s`)" % (why or "a frame that is merely filtered out ends the stream", fmt(strip(cond))[:100]),
               reason="filtered-frame-ends-stream")


def r2(run):
    _RUN[0] = run
    rb = read_bodies(run)
    h = rb["history"]
    if h is None:
        run.missing("%s|history-body" % C.READ, "history closure not found")
        return
    cmps = limit_cmp_edges(h)
    run.floor("count/limit comparisons in the history body", len(cmps), 1, h.sp)
    done = q.live_calls(h, C.ONESHOT_SEND)
    sends = q.live_calls(h, C.MPSC_BLOCKING_SEND)
    for (bb, rel, below, reached, l) in cmps:
        reach = h.reachable_blocks([t for (_, t, _) in reached])
        bad = [c.sp for c in done + sends if c.bb in reach]
        run.ob("%s|history|limit-hit-ends-stream" % C.READ, bool(reached) and not bad, h.blocks[bb]["term"]["sp"],
               "from the `count >= limit` edge the history thread returns without delivering anything more and without the hand-off (%s)" % bad, reason="stream-continues-after-limit")


def r3(run):
    _RUN[0] = run
    rb = read_bodies(run)
    main, hist = rb["main"], rb["history"]
    if main is None or hist is None:
        run.missing("%s|bodies" % C.READ, "read body / history body not found")
        return
    hs, hagg = c03.spawn_of(main, hist, C.THREAD_SPAWN, C.TOKIO_SPAWN, C.TOKIO_SPAWN_BLOCKING)
    if hs is None:
        run.missing("%s|history-launch" % C.READ, "history launch not found", main.sp)
        return
    edges = []
    for bb, si in main.switches():
        if si["kind"] != "bool":
            continue
        c = si["cond"]
        pp = q.place_path(strip(c))
        if pp and pp[-1] == "tail":
            edges += q.edge_triples(main, bb, lambda m: m is False)
    run.ob("%s|tail-skips-history" % C.READ, bool(edges) and q.dominated(main, hs.bb, via_edges=edges), hs.sp, "the historical scan is launched only on the `tail == false` edge",
           reason="tail-delivers-history")


def r4(run):
    _RUN[0] = run
    facts = run.facts
    bodies = facts.bodies_under(C.READ)
    bad = []
    for b in bodies:
        for c in b.calls():
            if c.bb in b.live_blocks() and (c.fn in (C.APPEND, C.INSERT_FRAME) or (c.fn == C.BROADCAST_SEND and C.frame_typed(c))):
                bad.append(c.sp)
    run.ob("%s|no-store-or-broadcast-below-read" % C.READ, not bad, "<Store::read>", "nothing below Store::read appends, inserts or broadcasts (%s)" % bad, reason="synthetic-frame-published")
    n = 0
    for b in bodies:
        for c in b.calls():
            if c.bb not in b.live_blocks():
                continue
            if c.fn in (C.MPSC_SEND, C.MPSC_BLOCKING_SEND) and C.frame_typed(c):
                topics = [t for t in q.const_strs(c.arg(1)) if t in ("xs.threshold", "xs.pulse")]
                if not topics:
                    continue
                n += 1
                # sender is the subscriber's own channel: a capture of strong/weak sender type
                cnt = c01.count_local(b)[0]
                incs = c01.increments_of(b, cnt) if cnt is not None else []
                after_inc = [st["sp"] for (bi, st) in incs if q.reaches(b, c.bb, bi)]
                run.ob("%s|synthetic(%s)|not-counted" % (C.READ, topics[0]), not after_inc, c.sp, "%s is sent where the limit counter cannot be incremented afterwards (%s)" % (topics[0], after_inc),
                       reason="synthetic-frame-counted")
    run.floor("synthetic frame send sites", n, 2)
    # all other uses of the synthetic topics in the crate are readers (comparisons), never constructions handed to append
    under_read = {x.def_ for x in facts.bodies_under(C.READ)}     # includes tasks Store::read spawns from private async fns
    for b in facts.all_bodies():
        if b.def_.startswith(C.READ) or b.def_ in under_read:
            continue
        for c in b.calls():
            if c.bb in b.live_blocks() and c.fn == "xs::store::Frame::builder" and any(t in ("xs.threshold", "xs.pulse") for t in q.const_strs(c.arg(0))):
                run.ob("%s|synthetic-built-elsewhere" % facts.enclosing_fn(b), False, c.sp, "a synthetic topic frame is constructed outside Store::read", reason="synthetic-frame-published")


def r6(run):
    _RUN[0] = run
    rb = read_bodies(run)
    main, hist, live, hb = rb["main"], rb["history"], rb["live"], rb["heartbeat"]
    holders = []
    for b in run.facts.bodies_under(C.READ):
        for cap in b.captures:
            tys = b.types.s(cap["ty"])
            if tys == STRONG or tys == "&" + STRONG:
                holders.append((b, cap["name"]))
    allowed = {x.def_ for x in (hist, live) if x is not None}
    run.floor("bodies capturing a strong delivery sender", len(holders), 2)
    for (b, name) in holders:
        who = "history" if b is hist else "live" if b is live else "heartbeat" if b is hb else "other"
        run.ob("%s|strong-sender-holder|%s" % (C.READ, who if who != "other" else b.def_), b.def_ in allowed, b.sp,
               "capture `%s` of %s holds a strong Sender<Frame>: only the history scan and the live task may keep the stream open" % (name, who),
               reason="stream-outlives-live-task")
    if hb is not None:
        weak = [cap for cap in hb.captures if hb.types.s(cap["ty"]) == WEAK]
        run.ob("%s|heartbeat|weak-sender" % C.READ, len(weak) == 1, hb.sp, "the heartbeat task captures a WeakSender<Frame> (%s)" % [hb.types.s(c["ty"]) for c in hb.captures],
               reason="stream-outlives-live-task")
        ups = q.live_calls(hb, "tokio::sync::mpsc::bounded::WeakSender::<T>::upgrade")
        run.floor("WeakSender::upgrade sites in the heartbeat task", len(ups), 1, hb.sp)
        sends = [c for c in q.live_calls(hb, C.MPSC_SEND) if C.frame_typed(c)]
        for u in ups:
            some = q.call_result_edges(hb, u, ok=True)
            none = q.call_result_edges(hb, u, ok=False)
            for s in sends:
                run.ob("%s|heartbeat|pulse-needs-live-stream" % C.READ, bool(some) and q.dominated(hb, s.bb, via_edges=some), s.sp,
                       "a pulse is sent only while a strong sender still exists (upgrade() is Some)", reason="pulse-after-stream-end")
            reach = hb.reachable_blocks([t for (_, t, _) in none]) if none else set()
            run.ob("%s|heartbeat|ends-with-stream" % C.READ, bool(none) and not any(c.bb in reach for c in hb.calls() if c.fn == "tokio::time::sleep::sleep"), u.sp,
                   "when upgrade() is None the heartbeat loop ends (no further sleep/pulse)", reason="pulse-after-stream-end")
            # the upgraded strong sender is a loop-local temporary: re-acquired for every pulse and dropped before the next sleep
            for s in sends:
                again = s.bb in hb.reach_after(s.bb, removed_blocks=[x.bb for x in ups])
                run.ob("%s|heartbeat|upgrade-per-pulse" % C.READ, not again, s.sp, "between two pulses the weak sender is upgraded again (the strong sender is not kept across iterations)",
                       reason="stream-outlives-live-task")
            strong_locals = [l for l in range(len(hb.locals)) if hb.types.s(hb.local_ty(l)) == STRONG and l > hb.argc]
            drops = [bi for l in strong_locals for (bi, kind) in q.release_blocks(hb, l) if hb.blocks[bi]["term"]["k"] == "drop"]
            sleeps = [c.bb for c in hb.calls() if c.fn == "tokio::time::sleep::sleep" and c.bb in hb.live_blocks()]
            reach2 = hb.reachable_blocks([t for (_, t, _) in some], removed_blocks=drops) if some else set()
            run.ob("%s|heartbeat|strong-sender-dropped-before-sleep" % C.READ, bool(drops) and not any(b in reach2 for b in sleeps), u.sp,
                   "the upgraded sender is dropped before the task sleeps again", reason="stream-outlives-live-task")
        # the upgraded sender must not be stored across iterations: its type is Sender in a local only
    # the read body itself drops its own sender when it returns: `tx` is a plain local, never moved into a long-lived structure
    if main is not None:
        tx_moves = []
        for c in main.calls():
            if c.bb not in main.live_blocks():
                continue
            for i, a in enumerate(c.args):
                if "move" in a and not a["move"]["p"]:
                    l = a["move"]["l"]
                    if main.types.s(main.local_ty(l)) == STRONG and c.fn not in (C.TOKIO_SPAWN, "core::mem::drop") + C.THREAD_SPAWNS:
                        tx_moves.append((c.fn, c.sp))
        run.ob("%s|read-body|sender-not-leaked" % C.READ, not tx_moves, main.sp, "the read body hands strong senders only to the history / live launches (%s)" % tx_moves,
               reason="stream-outlives-live-task")


def r7(run):
    _RUN[0] = run
    ls = c03.live_shape(run)
    if ls is None:
        run.missing("%s|live-body" % C.READ, "live task not found")
        return
    live, recvs, sends = ls
    n = 0
    for r in recvs:
        for bb, si in live.switches():
            if si["kind"] != "variant":
                continue
            cond = si["cond"]
            if cond[0] == "call" and cond[1].fn.endswith("Future::poll"):
                continue
            u = q.unawait(cond)
            if not (u[0] == "call" and q.same_call(u[1], r)):
                continue
            err_targets = []
            for (t, lab, m) in si["edges"]:
                ms = m if isinstance(m, tuple) else (m,)
                if any(x in ("Err",) for x in ms):
                    err_targets.append(t)
            if not err_targets:
                continue
            n += 1
            reach = live.reachable_blocks(err_targets)
            again = [c.sp for c in recvs if c.bb in reach] + [c.sp for c in sends if c.bb in reach]
            run.ob("%s|live|receive-error-ends-stream" % C.READ, not again, live.blocks[bb]["term"]["sp"],
                   "when the broadcast receiver reports an error (Lagged: frames were dropped, or Closed) the live task ends: no further recv or delivery is reachable (%s)" % again,
                   reason="stream-continues-past-a-gap")
    run.ob("%s|live|receive-error-tested" % C.READ, n >= 1, live.sp, "the result of broadcast recv() is branched on (Ok vs error)", reason="mechanism-not-found")


RULES = [
    ("R-C11-1", "live phase: no frame is delivered with count >= limit; every delivered frame is counted; the count is seeded from history", r1),
    ("R-C11-2", "a limit hit during the historical scan ends the stream (no further delivery, no hand-off)", r2),
    ("R-C11-3", "tail: the historical scan is launched only when tail is false", r3),
    ("R-C11-4", "synthetic frames flow only into the subscriber's channel, are never stored/broadcast, never counted", r4),
    ("R-C11-5", "threshold only when following without limit, after the scan, before done (shared with R-C03-4)", c03.r4),
    ("R-C11-7", "a follower that cannot keep up: any receive error (Lagged) ends the live task - the stream never continues past a gap", r7),
    ("R-C11-8", "the live loop skips filtered frames (other context, already scanned) and ends only when the subscriber is gone or the limit is reached", r8),
    ("R-C11-6", "only the history scan and the live task hold strong senders; the heartbeat holds a WeakSender and stops when upgrade fails", r6),
]
