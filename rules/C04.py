"""C04 - acknowledged writes survive a crash; each write is all-or-nothing."""
from xsvlib.facts import fmt, strip, place_path, agg_is, walk
from xsvlib import q
from . import common as C
from .store_shared import batch_bodies, partition_field, rule_no_direct_mutators

EXPLANATION = ("Must-pass-through analysis of every function that commits a fjall batch: commit -> persist(SyncAll) -> return on all "
               "paths with errors propagated, one batch touching the three partitions exactly once, no write outside a batch; "
               "content precedes its frame by data dependence (hash provenance, shared with C10).")
NOT_DECIDED = ["journal format, torn-tail discard and recovery (fjall)", "power-loss durability of CAS content (excluded by the property)",
               "that a reopened store reflects every acknowledged write (only sync-before-ack and batch atomicity preconditions are decided)"]

EXPECTED_PARTS = ["frame_partition", "idx_context", "idx_topic"]


def err_only_returns(body, edges):
    """From the given edges, every reachable definition of the return place is Err-producing."""
    bad = []
    n = 0
    starts = [t for (_, t, _) in edges]
    reach = body.reachable_blocks(starts) if starts else set()
    for (bb, e, raw) in body.return_defs():
        if bb not in reach:
            continue
        n += 1
        x = strip(e)
        ok = (x[0] == "call" and x[1].fn == "core::ops::try_trait::FromResidual::from_residual") or \
             (x[0] == "agg" and x[1].get("variant") == "Err")
        if not ok:
            bad.append((bb, fmt(x)))
    return n, bad


def r1(run):
    bbs = batch_bodies(run)
    run.floor("functions committing a batch", len([x for x in bbs if x["commits"]]), 2)
    for info in bbs:
        b = info["body"]
        for commit in info["commits"]:
            ok_edges = q.call_result_edges(b, commit, ok=True)
            err_edges = q.call_result_edges(b, commit, ok=False)
            cons = "%s|commit" % b.def_
            if not ok_edges or not err_edges:
                run.unrecognised(cons + "|result", "the result of Batch::commit is not branched on (error dropped?)", commit.sp)
                continue
            # durability carried by the batch itself: `keyspace.batch().durability(Some(PersistMode::SyncAll))` makes `commit`
            # write, flush and fsync the journal before it returns Ok (fjall: Batch::durability) - the commit IS the sync point
            dur = [y for y in walk(commit.arg(0)) if y[0] == "call" and y[1].fn == "fjall::batch::Batch::durability"]
            if dur:
                mode = strip(dur[0][2][1]) if len(dur[0][2]) > 1 else ("none",)
                is_sync = mode[0] == "agg" and mode[1].get("variant") == "Some" and mode[2] and agg_is(strip(mode[2][0]), "PersistMode", "SyncAll")
                run.ob(cons + "|persist-mode", is_sync, commit.sp,
                       "the batch is committed with durability Some(PersistMode::SyncAll): %s" % fmt(mode), reason="weak-or-missing-persist")
                n, bad = err_only_returns(b, err_edges)
                run.ob(cons + "|sync-before-ack", is_sync and n >= 1 and not bad, commit.sp,
                       "the commit fsyncs before it returns Ok, and its Err edge never reaches an Ok return", reason="ack-before-sync")
                run.ob(cons + "|err-propagated", n >= 1 and not bad, commit.sp,
                       "commit's Err edge reaches only Err returns (%d return defs; offending: %s)" % (n, bad), reason="commit-error-dropped")
                continue
            persists = [p for p in q.live_calls(b, C.KEYSPACE_PERSIST)]
            sync = [p for p in persists if agg_is(strip(p.arg(1)), "PersistMode", "SyncAll")]
            run.ob(cons + "|persist-mode", bool(sync) and len(sync) == len(persists), commit.sp,
                   "every Keyspace::persist in %s uses PersistMode::SyncAll (%s)" % (b.def_, [fmt(strip(p.arg(1))) for p in persists]),
                   reason="weak-or-missing-persist")
            # every path from the Ok edge of commit to a Return passes a persist(SyncAll) call
            starts = [t for (_, t, _) in ok_edges]
            reach = b.reachable_blocks(starts, removed_blocks=[p.bb for p in sync])
            rets = [r for r in b.return_blocks() if r in reach]
            run.ob(cons + "|sync-before-ack", not rets and bool(sync), commit.sp,
                   "every path from commit's Ok edge to a return passes Keyspace::persist(SyncAll)%s" % (
                       "" if not rets else " - return at %s reachable without it" % b.blocks[rets[0]]["term"]["sp"]),
                   reason="ack-before-sync")
            n, bad = err_only_returns(b, err_edges)
            run.ob(cons + "|err-propagated", n >= 1 and not bad, commit.sp,
                   "commit's Err edge reaches only Err returns (%d return defs; offending: %s)" % (n, bad), reason="commit-error-dropped")
            for p in sync:
                pe = q.call_result_edges(b, p, ok=False)
                po = q.call_result_edges(b, p, ok=True)
                if not pe or not po:
                    # `self.keyspace.persist(SyncAll).map_err(..)` as the function's tail expression: the caller receives persist's
                    # own outcome (Ok and Err alike)
                    def _is_p(x, depth=0):
                        x = strip(x)
                        if x[0] == "call" and q.same_call(x[1], p):
                            return True
                        if depth < 4 and x[0] == "call" and x[1].fn in ("core::result::Result::<T, E>::map_err", "core::result::Result::<T, E>::map") and x[2]:
                            return _is_p(x[2][0], depth + 1)
                        return False
                    after = b.reachable_blocks([p.bb]) | {p.bb}
                    tails = [(bb, e) for (bb, e, raw) in b.return_defs() if bb in after]
                    if tails and all(_is_p(e) for (bb, e) in tails):
                        run.ob(cons + "|persist-err-propagated", True, p.sp, "the function returns persist(SyncAll)'s own result (through map_err)")
                        continue
                    run.ob(cons + "|persist-err-propagated", False, p.sp, "the result of persist(SyncAll) is not branched on: a failed fsync would be acknowledged",
                           reason="persist-error-dropped")
                    continue
                n, bad = err_only_returns(b, pe)
                run.ob(cons + "|persist-err-propagated", n >= 1 and not bad, p.sp,
                       "persist's Err edge reaches only Err returns (offending: %s)" % bad, reason="persist-error-dropped")
                # an Ok return is only reachable through persist's Ok edge
                okdefs = [(bb, e) for (bb, e, raw) in b.return_defs() if strip(e)[0] == "agg" and strip(e)[1].get("variant") == "Ok"]
                starts = [t for (_, t, _) in ok_edges]
                reach2 = b.reachable_blocks(starts, removed_edges=po)
                leak = [bb for (bb, e) in okdefs if bb in reach2]
                run.ob(cons + "|ok-after-sync", not leak, p.sp, "after a commit, Ok is returned only through persist's Ok edge", reason="ack-before-sync")


def r2(run):
    rule_no_direct_mutators(run)
    bbs = batch_bodies(run)
    all_ops = [c for c in run.facts.all_calls() if c.fn in (C.BATCH_INSERT, C.BATCH_REMOVE, C.BATCH_COMMIT) and c.bb in c.body.live_blocks()]
    inside = sum(len(x["ops"]) + len(x["commits"]) for x in bbs)
    run.ob("crate|batch-ops-in-batch-functions", inside == len(all_ops), "<crate>",
           "every Batch::insert/remove/commit call site (%d) is in a function that created the batch (%d)" % (len(all_ops), inside),
           reason="batch-passed-around")
    for info in bbs:
        b = info["body"]
        cons = "%s|batch" % b.def_
        run.ob(cons + "|one-batch", len(info["make"]) == 1, b.sp, "exactly one Keyspace::batch() (%d)" % len(info["make"]), reason="split-batch")
        run.ob(cons + "|one-commit", len(info["commits"]) == 1, b.sp, "exactly one Batch::commit (%d)" % len(info["commits"]), reason="split-batch")
        if len(info["make"]) != 1:
            continue
        mk = info["make"][0]
        bl = mk.dest["l"] if not mk.dest["p"] else None
        same = q.move_aliases(b, bl) if bl is not None else set()
        for _ in range(3):
            # builder-style options consume the batch and hand it back: `keyspace.batch().durability(..)` is still that batch
            for dc in q.live_calls(b, "fjall::batch::Batch::durability"):
                if q.root_local(b, dc.args[0]) in same and not dc.dest["p"]:
                    same |= q.move_aliases(b, dc.dest["l"])
        for c in info["ops"] + info["commits"]:
            rl = q.root_local(b, c.args[0])
            if rl in same:
                rl = bl
            run.ob(cons + "|same-batch|%s@%s" % (c.fn.split("::")[-1], partition_field(c) if c.fn != C.BATCH_COMMIT else "commit"),
                   rl == bl, c.sp, "%s operates on the one batch of this function" % c.fn.split("::")[-1], reason="split-batch")
        parts = sorted(partition_field(c) or "?" for c in info["ops"])
        run.ob(cons + "|partitions", parts == EXPECTED_PARTS, b.sp,
               "the batch touches frame_partition, idx_topic and idx_context exactly once each (got %s)" % parts, reason="partial-batch")
        kinds = {c.fn for c in info["ops"]}
        run.ob(cons + "|homogeneous", len(kinds) == 1, b.sp, "all operations of the batch are of one kind (%s)" % sorted(k.split("::")[-1] for k in kinds),
               reason="mixed-batch")
        # the operation is ONE journal batch: it does not also call another batch-committing store function
        nested = [c for c in b.calls() if c.bb in b.live_blocks() and c.fn in (C.INSERT_FRAME,) + C.removers(run.facts) and c.fn != b.def_
                  and any(q.reaches(b, cm2.bb, c.bb) or q.reaches(b, c.bb, cm2.bb) for cm2 in info["commits"])]   # on one path with this batch
        run.ob(cons + "|single-journal-batch", not nested, nested[0].sp if nested else b.sp,
               "%s changes the partitions in one atomic batch only (no nested %s: a crash between two batches would leave the operation half applied)" % (
                   b.def_.split("::")[-1], [c.fn.split("::")[-1] for c in nested] or "store operation"), reason="operation-spans-two-batches")
        # all operations precede the commit
        if len(info["commits"]) == 1:
            cm = info["commits"][0]
            late = [c for c in info["ops"] if q.reaches(b, cm.bb, c.bb)]
            run.ob(cons + "|ops-before-commit", not late, cm.sp, "no batch operation is reachable after the commit", reason="op-after-commit")
            early = [c for c in info["ops"] if not q.dominated(b, cm.bb, via_blocks=[c.bb])]
            run.ob(cons + "|ops-dominate-commit", not early, cm.sp, "every batch operation dominates the commit (none is conditional)",
                   reason="conditional-batch-op")


def r3(run):
    from .C10 import rule_hash_provenance
    rule_hash_provenance(run)


def r4(run):
    new = C.body_or_fail(run, C.NEW)
    opens = q.live_calls(new, "fjall::config::Config::open")
    parts = q.live_calls(new, "fjall::keyspace::Keyspace::open_partition")
    run.exact("Config::open in Store::new", len(opens), 1, new.sp)
    run.floor("open_partition calls in Store::new", len(parts), 3, new.sp)
    names = sorted(x for c in parts for x in q.const_strs(c.arg(1)))
    run.ob("%s|partition-names" % new.def_, len(set(names)) == len(parts), new.sp, "each partition is opened under a distinct constant name %s" % names)
    if opens:
        for c in parts:
            run.ob("%s|open-before-partition|%s" % (new.def_, "/".join(q.const_strs(c.arg(1)))), q.dominated(new, c.bb, via_blocks=[opens[0].bb]), c.sp,
                   "the keyspace is opened (journal recovered) before partition %s" % q.const_strs(c.arg(1)))


RULES = [
    ("R-C04-1", "every path from a batch commit to a return passes Keyspace::persist(SyncAll); commit / persist errors are propagated", r1),
    ("R-C04-2", "one batch per operation touching the three partitions exactly once; no partition write outside a batch", r2),
    ("R-C04-3", "a frame's hash can only be the return value of a finished CAS commit (content precedes frame by data dependence)", r3),
    ("R-C04-4", "Store::new opens (recovers) the keyspace before anything else", r4),
]
