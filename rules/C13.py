"""C13 - the HTTP API is a faithful and total front end to the store."""
from xsvlib.facts import fmt, strip, place_path, walk
from xsvlib import q
from . import common as C

EXPLANATION = ("Total-response analysis of api::handle (every return value comes from the response mapping, no early error return), "
               "enumeration and classification of every panic-capable site in the request-decoding layer, forwarding of every Routes payload "
               "field, route specificity by dominance over the lowered match, connection isolation in listener_loop, and 'decode before effect'.")
NOT_DECIDED = ["equality of each route's effect with the store operation over request sequences (reference-model comparison)",
               "SSE vs NDJSON rendering", "hyper's own handling of malformed HTTP framing"]

API = "xs::api::"
HANDLE = "xs::api::handle"
MATCH_ROUTE = "xs::api::match_route"
RESPONDERS = ("xs::api::response_400", "xs::api::response_404", "xs::api::response_500")
DECODE_LAYER_EXCLUDE = ("xs::api::serve", "xs::api::listener_loop")   # start-up / accept loop, not request decoding

PANIC_SUFFIX = ("::unwrap", "::expect", "::unwrap_unchecked")

# one-line reasons for accepted panic-capable sites that are not (a) serialisation or (b) prefix-guarded
PANIC_EXEMPT = {
    "xs::api::handle|cas-stream-map": "mid-body I/O error of the CAS download stream after the response head was sent: no response can be produced any more",
}


def handle_body(run):
    for b in run.facts.bodies_under(HANDLE):
        if b.is_coroutine and q.live_calls(b, MATCH_ROUTE):
            run.touch(b)
            return b
    return None


def r1(run):
    b = handle_body(run)
    if b is None:
        run.missing("%s|body" % HANDLE, "api::handle (coroutine calling match_route) not found")
        return
    rets = b.return_defs()
    run.floor("return definitions in api::handle", len(rets), 1, b.sp)
    n_map = 0
    for (bb, e, raw) in rets:
        x = strip(e)
        kind = "other"
        if x[0] == "call" and x[1].fn in RESPONDERS:
            kind = "responder"
        elif x[0] == "call" and x[1].fn in ("core::result::Result::<T, E>::or_else", "core::result::Result::<T, E>::unwrap_or_else"):
            clo = strip(x[2][1])
            cb = run.facts.body(clo[1]["def"]) if clo[0] == "agg" and clo[1].get("def") else None
            if cb is not None and any(c.fn in RESPONDERS for c in cb.calls()):
                kind = "mapping"
                n_map += 1
        elif x[0] == "agg" and x[1].get("variant") == "Ok" and x[2] and strip(x[2][0])[0] == "field" and isinstance(strip(x[2][0])[1], tuple) \
                and strip(x[2][0])[1][0] == "downcast" and strip(x[2][0])[1][2] == "Ok":
            # `match res { Ok(v) => Ok(v), Err(e) => response_500(..) }` (also what `res.or_else(|e| response_500(..))` denotes):
            # the Ok arm forwards the route handler's response; the Err arm must be a responder
            base = fmt(strip(strip(x[2][0])[1][1]))
            mapped = False
            for bb2, si2 in b.switches():
                if si2["kind"] == "variant" and fmt(strip(si2["cond"])) == base:
                    for (t2, lab2, m2) in si2["edges"]:
                        if (set(m2) if isinstance(m2, tuple) else {m2}) == {"Err"}:
                            reach2 = b.reachable_blocks([t2])
                            mapped = any(rb3 in reach2 and strip(e3)[0] == "call" and strip(e3)[1].fn in RESPONDERS for (rb3, e3, raw3) in rets)
            if mapped:
                kind = "mapping"
                n_map += 1
        elif x[0] == "call" and x[1].fn == "core::ops::try_trait::FromResidual::from_residual":
            kind = "early-error-return"
        site = x[1].sp if x[0] == "call" else b.blocks[bb]["term"]["sp"]
        what = fmt(x)[:140]
        run.ob("%s|return|%s@%s" % (HANDLE, kind, _arm_of(b, bb)), kind in ("responder", "mapping"), site,
               "handle returns %s: %s" % (kind, what), reason="error-bypasses-response-mapping")
    run.ob("%s|has-error-mapping" % HANDLE, n_map >= 1, b.sp, "the final `res.or_else(|e| response_500(..))` mapping exists", reason="error-bypasses-response-mapping")
    # no `?` in the body at all (each would be an early Err return from the hyper service fn)
    tries = [c for c in q.live_calls(b, "core::ops::try_trait::FromResidual::from_residual")]
    run.ob("%s|no-question-mark" % HANDLE, not tries, tries[0].sp if tries else b.sp, "no `?` in api::handle (%d)" % len(tries), reason="error-bypasses-response-mapping")


def _arm_of(b, bb):
    """Name the Routes variant arm a block belongs to (for stable keys)."""
    for sbb, si in b.switches():
        if si["kind"] == "variant" and si.get("adt") == "xs::api::Routes":
            best = None
            for (t, lab, m) in si["edges"]:
                if isinstance(m, str) and q.dominated(b, bb, via_edges=[(sbb, t, lab)]):
                    best = m
            if best:
                return best
    return "common"


def r2(run):
    facts = run.facts
    n = 0
    for b in facts.all_bodies():
        if not b.def_.startswith(API):
            continue
        fn = facts.enclosing_fn(b)
        if fn in DECODE_LAYER_EXCLUDE or not (b.file() == "src/api.rs" or b.file().startswith("src/api/")):
            continue
        if "::tests::" in b.def_:
            continue
        run.touch(b)
        for c in b.calls():
            if c.bb not in b.live_blocks() or c.from_macro():
                continue
            is_panic = c.fn.endswith(PANIC_SUFFIX) or c.fn.startswith("core::panicking") or "begin_panic" in c.fn or c.fn.endswith("Index::index") \
                or c.fn.endswith("IndexMut::index_mut")
            if not is_panic:
                continue
            n += 1
            recv = q.peel(c.arg(0)) if c.args else ("none",)
            cls, why = None, ""
            if recv[0] == "call" and recv[1].fn in ("serde_json::ser::to_vec", "serde_json::ser::to_string", "serde_json::value::to_value"):
                cls, why = "serialisation", "serialising a Frame / Value cannot fail (string keys, no non-finite floats)"
            elif recv[0] == "call" and recv[1].fn == "serde_json::ser::to_writer" and recv[1].args and \
                    (lambda l: l is not None and "alloc::vec::Vec<u8" in b.local_tystr(l))(q.root_local(b, recv[1].args[0])):
                cls, why = "serialisation", "serialising a Frame / Value into an in-memory Vec<u8> cannot fail (no I/O, string keys, no non-finite floats)"
            elif recv[0] == "call" and recv[1].fn == "core::str::<impl str>::strip_prefix":
                lit = q.const_strs(recv[2][1])
                guards = []
                for bb, si in b.switches():
                    cond = si["cond"]
                    if si["kind"] == "bool" and cond[0] == "call" and cond[1].fn == "core::str::<impl str>::starts_with" and q.const_strs(cond[2][1]) == lit \
                            and fmt(strip(cond[2][0])) == fmt(strip(recv[2][0])):
                        guards += q.edge_triples(b, bb, lambda m: m is True)
                if guards and q.dominated(b, c.bb, via_edges=guards):
                    cls, why = "prefix-guarded", "strip_prefix(%s).unwrap() dominated by starts_with(%s)" % (lit, lit)
            if cls is None and recv[0] == "call" and recv[1].fn in ("std::sync::poison::mutex::Mutex::<T>::lock", "std::sync::poison::rwlock::RwLock::<T>::read",
                                                                     "std::sync::poison::rwlock::RwLock::<T>::write"):
                cls, why = "lock-poison", "unwrap of a LockResult fails only after another thread panicked while holding the lock: not a function of the request"
            if cls is None and recv[0] == "call" and not recv[1].local and recv[2] and all(q.peel(a)[0] == "const" for a in recv[2]):
                # `StatusCode::from_u16(404).unwrap()`: a library function applied to literals only - whatever it does, it does not
                # depend on the request
                cls, why = "constant", "%s is applied to literals only: its outcome is not a function of the request" % recv[1].fn.split("::")[-1]
            if cls is None and c.fn.endswith("Index::index") and len(c.args) > 1:
                # `buf = &buf[n..]` with n = the count an I/O call on that same buffer returned (n <= buf.len() by the Read / Write contract)
                rng = strip(c.arg(1))
                if rng[0] == "agg" and "Range" in rng[1].get("adt", "") and rng[2]:
                    io = [y[1] for op in rng[2] for o in list(q.origins(op)) + [op] for y in walk(o)
                          if y[0] == "call" and y[1].fn.endswith(("AsyncWriteExt::write", "io::Write::write", "AsyncReadExt::read", "io::Read::read"))]
                    if io and all(len(x.args) > 1 for x in io):
                        cls, why = "io-count", "the slice bound is the byte count returned by %s on this buffer" % io[0].fn.split("::")[-1]
            if cls is None and (fn == HANDLE or fn.startswith("xs::api::handle_cas")) and b.kind == "Closure" and not b.is_coroutine and recv[0] == "arg":
                # the map closure of the CAS ReaderStream
                key = "xs::api::handle|cas-stream-map"
                if key in PANIC_EXEMPT:
                    cls, why = "exempt", PANIC_EXEMPT[key]
            what = "%s on %s" % (c.fn.split("::")[-1], fmt(recv)[:90])
            run.ob("%s|panic-site|%s" % (fn, fmt(recv)[:70]), cls is not None, c.sp,
                   "%s in %s: %s" % (what, b.def_, "[%s] %s" % (cls, why) if cls else "may panic on request-derived data -> dropped connection"),
                   reason="panic-on-request-data")
        for bi in b.live_blocks():
            t = b.term(bi)
            if t["k"] == "assert" and "BoundsCheck" in t["msg"] and not t.get("exp"):
                n += 1
                run.ob("%s|bounds-check" % fn, False, t["sp"], "indexing with a bounds check in the decoding layer may panic", reason="panic-on-request-data")
    run.floor("panic-capable sites enumerated in the decoding layer", n, 3)


def routes_adt(run):
    return run.facts.adt("xs::api::Routes")


def r3(run):
    b = handle_body(run)
    if b is None:
        run.missing("%s|body" % HANDLE, "api::handle not found")
        return
    adt = routes_adt(run)
    n = 0
    for v in adt["variants"]:
        for i, f in enumerate(v["fields"]):
            n += 1
            used = []
            for c in b.calls():
                if c.bb not in b.live_blocks() or c.fn.startswith(("core::fmt", "tracing")):
                    continue
                for a in c.arg_exprs():
                    for x in walk(a):
                        if x[0] == "field" and str(x[2]) == f["name"] and x[1][0] == "downcast" and x[1][2] == v["name"]:
                            used.append(c)
            callee = sorted({c.fn for c in used})
            run.ob("%s|forwards|%s.%s" % (HANDLE, v["name"], f["name"]), bool(used), used[0].sp if used else b.sp,
                   "Routes::%s.%s is passed on to %s" % (v["name"], f["name"], callee or "NOTHING (dropped parameter)"), reason="route-parameter-dropped")
    run.floor("Routes payload fields", n, 9)
    # inside each handler every parameter reaches a store operation, a Frame builder or a branch condition
    for hb in run.facts.all_bodies():
        fn = run.facts.enclosing_fn(hb)
        if not (fn.startswith("xs::api::handle_") and hb.is_coroutine and hb.def_ == fn + "::{closure#0}"):
            continue
        run.touch(hb)
        for cap in hb.captures:
            name = cap["name"]
            if name in ("store", "req", "body", "_engine"):
                continue
            hit = False
            for c in hb.calls():
                if c.bb not in hb.live_blocks():
                    continue
                if c.fn.startswith("xs::store::") and any(y[0] == "field" and y[1][0] == "env" and str(y[2]) == name for a in c.arg_exprs() for y in walk(a)):
                    hit = True
            for bb, si in hb.switches():
                if any(y[0] == "field" and y[1][0] == "env" and str(y[2]) == name for y in walk(si["cond"])):
                    hit = True
            # closures of the handler that capture it (e.g. the topic filter of head-follow)
            for sub in run.facts.closures_under(hb.def_):
                if any(name in cc["name"] for cc in sub.captures):
                    hit = True
            run.ob("%s|uses|%s" % (fn, name), hit, hb.sp, "parameter `%s` of %s reaches a store operation / frame builder / branch" % (name, fn), reason="route-parameter-dropped")


CATCH_ALL = {"StreamItemGet": "Get", "StreamItemRemove": "Delete", "StreamAppend": "Post"}


def rejection_variants(run):
    """Routes variants whose arm in api::handle goes straight to a `response_4xx / 5xx` responder (no store operation, no handler):
    answers like NotFound / BadRequest, not routes to a resource."""
    hb = handle_body(run)
    out = set()
    if hb is None:
        return out
    for bb, si in hb.switches():
        if si["kind"] != "variant" or si.get("adt") != "xs::api::Routes":
            continue
        for (t, lab, m) in si["edges"]:
            if not isinstance(m, str):
                continue
            first, seen, todo = [], set(), [t]
            while todo:
                x = todo.pop()
                if x in seen:
                    continue
                seen.add(x)
                term = hb.blocks[x]["term"]
                cs = [c for c in hb.calls() if c.bb == x]
                if cs and (cs[0].local or cs[0].fn.startswith("xs::")):
                    first.append(cs[0].fn)
                    continue
                todo += [t2 for (t2, _) in hb.succ(x)]
            if first and all(f.startswith("xs::api::response_") and f[len("xs::api::response_"):][:1] in "45" for f in first):
                out.add(m)
    return out


def r6(run):
    b = C.body_or_fail(run, MATCH_ROUTE)
    # method regions
    method_edges = {}
    for bb, si in b.switches():
        if si["kind"] == "variant" and si.get("adt", "").startswith("http::method::"):
            for (t, lab, m) in si["edges"]:
                if isinstance(m, str):
                    method_edges.setdefault(m, []).append((bb, t, lab))
    run.floor("method tests in match_route", len(method_edges), 3, b.sp)
    # literal path tests
    tests = []
    for bb, si in b.switches():
        if si["kind"] != "bool":
            continue
        cond = si["cond"]
        lit = None
        kind = None
        if cond[0] == "call" and cond[1].fn == "core::str::<impl str>::starts_with":
            ls = q.const_strs(cond[2][1])
            if ls:
                lit, kind = ls[0], "prefix"
        else:
            cmp_ = q.comparison(cond)
            if cmp_ and cmp_[0] == "eq" or (cond[0] == "call" and cond[1].fn.endswith("PartialEq for str>::eq")):
                ls = q.const_strs(cond)
                if ls and ls[0].startswith("/"):
                    lit, kind = ls[0], "exact"
        if lit is None:
            continue
        meth = [m for m, es in method_edges.items() if q.dominated(b, bb, via_edges=es)]
        tests.append({"bb": bb, "lit": lit, "kind": kind, "method": meth[0] if len(meth) == 1 else None,
                      "true": q.edge_triples(b, bb, lambda m: m is True), "false": q.edge_triples(b, bb, lambda m: m is False)})
    run.floor("literal path tests in match_route", len(tests), 6, b.sp)
    # route constructions
    arms = {}
    for bi, si, st in b.stmt_points():
        if st["k"] == "assign" and "agg" in st["rv"] and st["rv"].get("adt") == "xs::api::Routes" and bi in b.live_blocks():
            arms.setdefault(st["rv"]["variant"], []).append((bi, st["sp"]))
    for variant, meth in CATCH_ALL.items():
        sites = arms.get(variant, [])
        run.floor("construction sites of Routes::%s" % variant, len(sites), 1, b.sp)
        for (bi, sp) in sites:
            run.ob("%s|%s|method" % (MATCH_ROUTE, variant), meth in method_edges and q.dominated(b, bi, via_edges=method_edges[meth]), sp,
                   "Routes::%s is built only for %s requests" % (variant, meth.upper()), reason="route-specificity")
            for t in tests:
                if t["method"] != meth:
                    continue
                run.ob("%s|%s|after|%s:%s" % (MATCH_ROUTE, variant, t["kind"], t["lit"]), q.dominated(b, bi, via_edges=t["false"]), sp,
                       "the catch-all %s arm is reached only when the more specific test %s %r failed" % (variant, t["kind"], t["lit"]), reason="route-specificity")
    # every specific route is dominated by the true edge of one literal test of its own method
    rejects = rejection_variants(run)
    run.ob(MATCH_ROUTE + "|rejection-answers", {"NotFound", "BadRequest"} <= rejects, b.sp,
           "the arms of api::handle that only answer 4xx / 5xx are recognised (%s)" % sorted(rejects), reason="mechanism-not-found")
    for variant, sites in arms.items():
        if variant in CATCH_ALL or variant in rejects:
            continue
        for (bi, sp) in sites:
            doms = [t for t in tests if q.dominated(b, bi, via_edges=t["true"])]
            run.ob("%s|%s|literal" % (MATCH_ROUTE, variant), len(doms) >= 1, sp,
                   "Routes::%s is selected by %s" % (variant, [(t["method"], t["kind"], t["lit"]) for t in doms]), reason="route-specificity")


def r4(run):
    lb = None
    for b in run.facts.bodies_under("xs::api::listener_loop"):
        if b.is_coroutine and [c for c in b.calls() if c.fn.endswith("Listener::accept")]:
            lb = b
    if lb is None:
        run.missing("xs::api::listener_loop|body", "listener_loop (coroutine calling Listener::accept) not found")
        return
    run.touch(lb)
    acc = [c for c in lb.calls() if c.fn.endswith("Listener::accept") and c.bb in lb.live_blocks()]
    rets = lb.return_defs()
    ok = bool(rets)
    for (bb, e, raw) in rets:
        x = strip(e)
        if not (x[0] == "call" and x[1].fn == "core::ops::try_trait::FromResidual::from_residual" and any(y[0] == "call" and y[1].fn.endswith("Listener::accept") for y in walk(x))):
            ok = False
    run.ob("xs::api::listener_loop|exit-only-on-accept-error", ok, lb.sp, "the accept loop ends only when accept() itself fails (%d return defs)" % len(rets), reason="listener-stops")
    direct = [c for c in lb.calls() if "serve_connection" in c.fn and c.bb in lb.live_blocks()]
    run.ob("xs::api::listener_loop|connection-not-served-inline", not direct, lb.sp, "connections are not served on the accept loop's own task", reason="connection-blocks-listener")
    spawned = False
    for c in q.live_calls(lb, C.TOKIO_SPAWN):
        for x in walk(c.arg(0)):
            if x[0] == "agg" and x[1].get("def"):
                sb = run.facts.body(x[1]["def"])
                if sb is not None and any("serve_connection" in cc.fn for cc in sb.calls()):
                    spawned = True
                    run.touch(sb)
                    # inside the per-connection task the handler is called through service_fn -> handle
    run.ob("xs::api::listener_loop|one-task-per-connection", spawned, lb.sp, "each accepted connection is served in its own spawned task", reason="connection-blocks-listener")
    for c in q.live_calls(lb, C.TOKIO_SPAWN):
        run.ob("xs::api::listener_loop|spawn-inside-loop", any(q.reaches(lb, c.bb, a.bb) for a in acc), c.sp, "after spawning the connection task the loop accepts again")


def r5(run):
    facts = run.facts
    cases = (("xs::api::handle_stream_append", C.APPEND), ("xs::api::handle_import", C.INSERT_FRAME))
    for fn, eff in cases:
        hb = None
        for b in facts.bodies_under(fn):
            if b.is_coroutine and q.live_calls(b, eff):
                hb = b
        if hb is None:
            run.missing("%s|effect" % fn, "%s does not call %s" % (fn, eff))
            continue
        run.touch(hb)
        for c in q.live_calls(hb, eff):
            # every fallible decode result that feeds the effect's argument is tested on its Ok/Some edge first
            feeds = []

            def value_walk(e):
                """walk(), but not into the error values of `?` (from_residual(..) alternatives of a spliced helper's result never reach the effect)"""
                if isinstance(e, tuple):
                    if e and e[0] == "call" and e[1].fn.endswith("from_residual"):
                        return
                    yield e
                    for y in e[1:]:
                        for z in value_walk(y):
                            yield z
                elif isinstance(e, list):
                    for y in e:
                        for z in value_walk(y):
                            yield z
            for a in c.arg_exprs():
                for x in value_walk(a):
                    if x[0] == "downcast" and x[2] in ("Ok", "Continue"):
                        feeds.append(x[1])
            okc = 0
            leaks = []
            seen = set()
            for base in feeds:
                key = fmt(strip(base))
                if key in seen:
                    continue
                seen.add(key)
                for bb, si in hb.switches():
                    if si["kind"] == "variant" and fmt(strip(si["cond"])) == key:
                        errs = [t for (t, lab, m) in si["edges"] if m in ("Err", "Break") or (isinstance(m, tuple) and set(m) & {"Err", "Break"})]
                        if not errs:
                            continue
                        if c.bb in hb.reachable_blocks(errs):
                            leaks.append(key[:80])
                        else:
                            okc += 1
            run.ob("%s|decode-before-effect" % fn, okc >= 1 and not leaks, c.sp,
                   "from the Err edge of every fallible decode that feeds %s the effect is unreachable (%d decodes guarded; leaking: %s)" % (
                       eff.split("::")[-1], okc, leaks), reason="effect-before-validation")
            # no responder for a client error (400) can be followed by the effect
            bad = [r.sp for r in q.live_calls(hb, "xs::api::response_400") if q.reaches(hb, r.bb, c.bb)]
            run.ob("%s|no-effect-after-400" % fn, not bad, c.sp, "the store is not touched after a 400 response was chosen (%s)" % bad, reason="effect-after-error")
            n400 = len(q.live_calls(hb, "xs::api::response_400"))
            run.floor("400 responses in %s" % fn, n400, 1, hb.sp)


BODY_ITEM_FNS = ("http_body_util::BodyExt::frame", "futures_util::stream::stream::StreamExt::next", "tokio_stream::stream_ext::StreamExt::next",
                 "http_body_util::BodyExt::collect")
EFFECT_FNS = ("cacache::put::Writer::commit", "cacache::put::SyncWriter::commit", C.APPEND, C.INSERT_FRAME)


def r8(run):
    """A request body that fails part-way must not be treated as a body that ended: from the error case of every body
    item, no CAS commit / append / insert is reachable (the request fails, the store is untouched)."""
    facts = run.facts
    n = 0
    for b in facts.all_bodies():
        if not (b.def_.startswith(API) and b.is_coroutine) or not (b.file() == "src/api.rs" or b.file().startswith("src/api/")):
            continue
        items = [c for c in b.calls() if c.bb in b.live_blocks() and c.fn in BODY_ITEM_FNS and
                 ("hyper::body::incoming::Incoming" in c.fnx or "BodyDataStream" in c.fnx or "Incoming" in c.fnx)]
        if not items:
            continue
        run.touch(b)
        fn = facts.enclosing_fn(b)
        # effects in this body: direct, or through a crate-local callee that reaches one
        effects = [c for c in b.calls() if c.bb in b.live_blocks() and (c.fn in EFFECT_FNS)]
        for it in items:
            n += 1
            err_targets, tested = [], False
            for bb, si in b.switches():
                if si["kind"] != "variant":
                    continue
                cond = si["cond"]
                if cond[0] == "call" and cond[1].fn.endswith("Future::poll"):
                    continue
                # the switch must be on the body item's own Result: item, `item?`, or the payload of `Some(item)`
                x = strip(cond)
                if x[0] == "call" and x[1].fn == "core::ops::try_trait::Try::branch":
                    x = strip(x[2][0])
                if x[0] == "field" and x[1][0] == "downcast" and x[1][2] == "Some":
                    x = strip(x[1][1])
                x = q.unawait(x)
                if not (x[0] == "call" and q.same_call(x[1], it)):
                    continue
                if si.get("adt") and "option::Option" in si["adt"]:
                    continue   # the Some/None test of the item, not its Result
                for (t, lab, m) in si["edges"]:
                    ms = m if isinstance(m, tuple) else (m,)
                    if any(x in ("Err", "Break") for x in ms):
                        tested = True
                        err_targets.append(t)
            reach = b.reachable_blocks(err_targets) if err_targets else set()
            leaked = [c.sp for c in effects if c.bb in reach]
            # an Ok/200 response built after the error case is also a leak
            oks = [rb for (rb, e, raw) in b.return_defs() if rb in reach and strip(e)[0] == "agg" and strip(e)[1].get("variant") == "Ok"]
            run.ob("%s|body-error|%s" % (fn, it.fn.split("::")[-1]), tested and not leaked and not oks, it.sp,
                   "a failing body chunk (%s) never reaches a CAS commit, an append or an Ok result in %s (error case examined: %s; reachable effects: %s; Ok returns: %d)" % (
                       it.fn.split("::")[-1], fn, tested, leaked, len(oks)), reason="failed-request-changes-store")
    run.floor("request-body item sites in the API layer", n, 2)


def r7(run):
    """Both renderings of GET / serialise the frame itself with serde_json (same fields, same frame)."""
    hb = None
    for b in run.facts.bodies_under("xs::api::handle_stream_cat"):
        if b.kind == "Closure" and not b.is_coroutine and [c for c in b.calls() if c.fn.startswith("serde_json::ser::")]:
            hb = b
    if hb is None:
        run.missing("xs::api::handle_stream_cat|render-closure", "rendering closure (serde_json) of handle_stream_cat not found")
        return
    run.touch(hb)
    arms = {}
    for bb, si in hb.switches():
        if si["kind"] == "variant" and si.get("adt", "").endswith("AcceptType"):
            for (t, lab, m) in si["edges"]:
                if isinstance(m, str):
                    arms[m] = (bb, t, lab)
    run.ob("xs::api::handle_stream_cat|renderings", set(arms) >= {"Ndjson", "EventStream"}, hb.sp, "both renderings are handled: %s" % sorted(arms), reason="rendering-missing")
    for name, e in arms.items():
        reg = {x for x in hb.reachable_blocks([e[1]]) if q.dominated(hb, x, via_edges=[e])}
        sers = [c for c in hb.calls() if c.bb in reg and c.fn in ("serde_json::ser::to_vec", "serde_json::ser::to_string")]
        whole = [c for c in sers if strip(c.arg(0))[0] == "arg" or (strip(c.arg(0))[0] in ("local", "arg") )]
        run.ob("xs::api::handle_stream_cat|render|%s" % name, len(sers) == 1 and len(whole) == 1, hb.sp,
               "the %s rendering is serde_json of the whole frame handed to the closure (%s)" % (name, [fmt(strip(c.arg(0))) for c in sers]), reason="rendering-differs-from-frame")
    # the stream rendered is exactly store.read(options) with the route's options
    cb = None
    for b in run.facts.bodies_under("xs::api::handle_stream_cat"):
        if b.is_coroutine and q.live_calls(b, C.READ):
            cb = b
    if cb is not None:
        run.touch(cb)
        rd = q.live_calls(cb, C.READ)[0]
        a = strip(rd.arg(1))
        root = a
        while root[0] in ("field", "deref", "ref"):
            root = root[1]
        run.ob("xs::api::handle_stream_cat|options-unmodified", a[0] == "field" and root[0] == "env" and a[2] == "options", rd.sp,
               "the route's ReadOptions are handed to Store::read unchanged: %s" % fmt(a), reason="options-rewritten")
        adaptors = [c.fn.split("::")[-1] for c in cb.calls() if c.bb in cb.live_blocks() and "StreamExt" in c.fn]
        run.ob("xs::api::handle_stream_cat|no-filtering", adaptors == ["map"], cb.sp, "the receiver stream is only mapped (rendered), never filtered / limited again: %s" % adaptors,
               reason="http-stream-differs-from-store")



BUILDER_BODY = "http::response::Builder::body"
BUILDER_STATUS = "http::response::Builder::status"


def responses_in(body):
    """[(body_call, status)] for every HTTP response finished in `body` (status 200 when none is set)."""
    out = []
    for c in body.calls():
        if c.bb in body.live_blocks() and c.fn.startswith(BUILDER_BODY):
            status = 200
            x = strip(c.arg(0))
            n = 0
            while x[0] == "call" and n < 12:
                n += 1
                if x[1].fn.startswith(BUILDER_STATUS):
                    k = q.const_int(x[2][1])
                    if k is None:
                        # `StatusCode::from_u16(404).unwrap()`
                        for y in walk(x[2][1]):
                            if y[0] == "call" and y[1].fn.endswith("StatusCode::from_u16") and y[2] and q.const_int(y[2][0]) is not None:
                                k = q.const_int(y[2][0])
                    status = k if k is not None else -1
                if not x[2]:
                    break
                x = strip(x[2][0])
            out.append((c, status))
    return out


def api_coroutine(run, name):
    for b in run.facts.bodies_under(API + name):
        if b.is_coroutine:
            run.touch(b)
            return b
    return None


def r9(run):
    """Status codes: the error responders carry their code; a failed store operation is never answered with a success status."""
    for fn, code in (("xs::api::response_400", 400), ("xs::api::response_404", 404), ("xs::api::response_500", 500)):
        b = C.body_or_fail(run, fn)
        rs = responses_in(b)
        run.ob("%s|status" % fn, len(rs) >= 1 and all(st == code for (c, st) in rs), b.sp, "%s answers with status %d (%s)" % (fn.split("::")[-1], code, [st for (c, st) in rs]),
               reason="wrong-status-code")
    fo = C.body_or_fail(run, "xs::api::response_frame_or_404")
    some_e, none_e = [], []
    for bb, si in fo.switches():
        if si["kind"] == "variant" and "option::Option" in (si.get("adt") or ""):
            for (t, lab, m) in si["edges"]:
                ms = set(m) if isinstance(m, tuple) else {m}
                (some_e if ms == {"Some"} else none_e if ms == {"None"} else []).append((bb, t, lab))
    nf = q.live_calls(fo, "xs::api::response_404")
    ok_rs = responses_in(fo)
    run.ob("xs::api::response_frame_or_404|absent-is-404", bool(nf) and bool(none_e) and all(q.dominated(fo, c.bb, via_edges=none_e) for c in nf), fo.sp,
           "an absent frame is answered by response_404, only on the None edge", reason="wrong-status-code")
    run.ob("xs::api::response_frame_or_404|present-is-200", bool(ok_rs) and all(st == 200 and q.dominated(fo, c.bb, via_edges=some_e) for (c, st) in ok_rs), fo.sp,
           "a present frame is answered with 200 on the Some edge", reason="wrong-status-code")
    # handlers that match on a store result themselves
    n = 0
    for b in run.facts.all_bodies():
        if not b.def_.startswith(API + "handle_") or not b.is_coroutine:
            continue
        for bb, si in b.switches():
            cond = strip(si["cond"])
            if si["kind"] != "variant" or cond[0] != "call" or not cond[1].fn.startswith("xs::store::Store::"):
                continue
            errs = [(bb, t, lab) for (t, lab, m) in si["edges"] if (set(m) if isinstance(m, tuple) else {m}) == {"Err"}]
            oks = [(bb, t, lab) for (t, lab, m) in si["edges"] if (set(m) if isinstance(m, tuple) else {m}) == {"Ok"}]
            if not errs:
                continue
            n += 1
            run.touch(b)
            for (c, st) in responses_in(b):
                if q.dominated(b, c.bb, via_edges=errs):
                    run.ob("%s|%s|error-status" % (run.facts.enclosing_fn(b), cond[1].fn.split("::")[-1]), st >= 400, c.sp,
                           "a failed %s is answered with an error status (%d)" % (cond[1].fn.split("::")[-1], st), reason="failure-answered-as-success")
                elif oks and q.dominated(b, c.bb, via_edges=oks):
                    run.ob("%s|%s|success-status" % (run.facts.enclosing_fn(b), cond[1].fn.split("::")[-1]), 200 <= st < 300, c.sp,
                           "a successful %s is answered with a 2xx status (%d)" % (cond[1].fn.split("::")[-1], st), reason="wrong-status-code")
    if n == 0:
        run.note("no api handler matches on a store result itself (all failures go through `?` to the 500 mapping of api::handle)")
        run.ob("xs::api|store-failures|mapped", True, "<api>", "store failures reach the client only through the error mapping of api::handle (R-C13-1)")
    # GET /cas/<hash>: only a NotFound I/O error is a 404, every other failure a 500
    hb = handle_body(run)
    if hb is not None and not any(True for bb, si in hb.switches() if si["kind"] == "bool" and (lambda cm: cm and any(
            y[0] == "call" and y[1].fn == "std::io::error::Error::kind" for s2 in (cm[1], cm[2]) for y in walk(s2)))(q.comparison(si["cond"]))):
        # the CAS download arm extracted into its own handler (`handle_cas_get`): the test is looked for there
        for b2 in run.facts.all_bodies():
            if run.facts.enclosing_fn(b2).startswith("xs::api::handle_cas") and b2.is_coroutine and q.live_calls(b2, "std::io::error::Error::kind"):
                hb = b2
                run.touch(b2)
    if hb is not None:
        kinds = []
        for bb, si in hb.switches():
            if si["kind"] != "bool":
                continue
            cm = q.comparison(si["cond"])
            if cm and cm[0] in ("eq", "ne") and any(y[0] == "call" and y[1].fn == "std::io::error::Error::kind" for s2 in (cm[1], cm[2]) for y in walk(s2)):
                is_nf = any("NotFound" in fmt(strip(s2)) for s2 in (cm[1], cm[2]))
                kinds.append((bb, cm[0], is_nf))
        run.floor("io::ErrorKind tests in api::handle (CAS lookup)", len(kinds), 1, hb.sp)
        for (bb, rel, is_nf) in kinds:
            eq_e = q.edge_triples(hb, bb, lambda m, rel=rel: m is (rel == "eq"))
            ne_e = q.edge_triples(hb, bb, lambda m, rel=rel: m is (rel != "eq"))
            r404 = [c for c in q.live_calls(hb, "xs::api::response_404") if q.dominated(hb, c.bb, via_edges=eq_e)]
            bad404 = [c.sp for c in q.live_calls(hb, "xs::api::response_404") if q.dominated(hb, c.bb, via_edges=ne_e)]
            run.ob("%s|cas-missing-is-404" % HANDLE, is_nf and bool(r404) and not bad404, hb.blocks[bb]["term"]["sp"],
                   "a CAS lookup failing with ErrorKind::NotFound (and only that) is answered 404", reason="wrong-status-code")


def ndjson_terminated(run, body, label):
    """Every serde_json::to_vec(frame) rendered as an NDJSON line gets its `\n` before it becomes body bytes."""
    n = 0
    for tv in q.live_calls(body, "serde_json::ser::to_vec"):
        pushes = [c for c in q.live_calls(body, "alloc::vec::Vec::<T, A>::push") if q.const_int(c.arg(1)) == 10 and any(q.same_call(cc, tv) for cc in q.calls_in(c.arg(0)))]
        # other spellings of "append a newline": extend_from_slice(b"\n") / extend(b"\n")
        for c in body.calls():
            if c.bb in body.live_blocks() and c.fn in ("alloc::vec::Vec::<T, A>::extend_from_slice", "core::iter::traits::collect::Extend::extend") and len(c.args) > 1 \
                    and any(q.same_call(cc, tv) for cc in q.calls_in(c.arg(0))):
                lit = strip(c.arg(1))
                while lit[0] in ("ref", "deref", "cast"):
                    lit = lit[1]
                if lit[0] == "const" and (lit[1].get("bytes") in ("\n", [10]) or lit[1].get("str") == "\n" or str(lit[1].get("s", "")).strip('b"') == "\\n"):
                    pushes.append(c)
        users = [c for c in body.calls() if c.bb in body.live_blocks() and (c.fn.endswith("convert::From::from") or c.fn.endswith("::data") or "Bytes" in c.fn)
                 and any(q.same_call(cc, tv) for a in c.arg_exprs() for cc in q.calls_in(a)) and not c.fn.endswith("::push")]
        n += 1
        unterminated = body.reachable_blocks([tv.bb], removed_blocks=[p.bb for p in pushes])
        run.ob("%s|ndjson-newline" % label, bool(pushes) and not [u for u in users if u.bb in unterminated], tv.sp,
               "the JSON of a frame is followed by a newline before it is sent (%d push(es), %d consumer(s))" % (len(pushes), len(users)), reason="ndjson-framing")
    return n


def r10(run):
    """GET /head/<topic>: without `follow` the current head (or 404); with it, the head and then exactly that topic's later frames."""
    hb = api_coroutine(run, "handle_head_get")
    if hb is None:
        run.missing("xs::api::handle_head_get|body", "handle_head_get not found")
        return
    from . import C06 as c06
    sw = []
    for bb, si in hb.switches():
        if si["kind"] != "bool":
            continue
        atom, pol = q.bool_atom(si["cond"])
        if q.last_field(atom) == "follow" or fmt(atom).endswith("follow"):
            sw.append((bb, si, pol))
    run.exact("tests of the follow flag in handle_head_get", len(sw), 1, hb.sp)
    reads = q.live_calls(hb, C.READ)
    run.exact("Store::read calls in handle_head_get", len(reads), 1, hb.sp)
    if not sw or not reads:
        return
    bb, si, pol = sw[0]
    te, fe = q.edge_triples(hb, bb, lambda m: m is pol), q.edge_triples(hb, bb, lambda m: m is (not pol))
    rd = reads[0]
    one = q.live_calls(hb, "xs::api::response_frame_or_404")
    run.ob("xs::api::handle_head_get|follow-polarity", q.dominated(hb, rd.bb, via_edges=te) and bool(one) and all(q.dominated(hb, c.bb, via_edges=fe) for c in one), rd.sp,
           "the subscription is opened only with `follow`; without it the current head (or 404) is the whole answer", reason="head-follow-polarity")
    heads = q.live_calls(hb, C.HEAD)
    info = c06.options_info(run, hb, rd.arg(1))
    if info["kind"] != "builder":
        run.unrecognised("xs::api::handle_head_get|options", "cannot interpret the ReadOptions of the head subscription", rd.sp)
    else:
        st = info["setters"]
        fv = strip(st["follow"][0]) if "follow" in st and st["follow"][0] is not None else None
        run.ob("xs::api::handle_head_get|options|follow", fv is not None and fv[0] == "agg" and fv[1].get("variant") in ("On", "WithHeartbeat"), rd.sp,
               "the head subscription follows (FollowOption::On): %s" % (fmt(fv) if fv is not None else None), reason="head-follow-options")
        tv = strip(st["tail"][0]) if "tail" in st and st["tail"][0] is not None else None
        lid = st.get("last_id")
        from_head = lid is not None and lid[0] is not None and any(q.same_call(cc, h) for h in heads for cc in q.calls_in(lid[0]))
        run.ob("xs::api::handle_head_get|options|start", tv is not None and tv[0] == "const" and tv[1].get("bool") is True and from_head, rd.sp,
               "the subscription skips history (tail) and resumes strictly after the head it already answered with (last_id = head.id): tail=%s last_id-from-head=%s" % (
                   fmt(tv) if tv is not None else None, from_head), reason="head-follow-options")
    # the subscription is scoped to exactly the context the head was looked up in
    if info["kind"] == "builder" and heads:
        hc = fmt(strip(heads[0].arg(2)))
        cs = info["setters"].get("context_id")
        same = False
        if cs is not None and cs[0] is not None:
            a = strip(cs[0])
            if cs[2]:    # maybe_context_id(opt): must be Some(<head context>)
                same = a[0] == "agg" and a[1].get("variant") == "Some" and a[2] and fmt(strip(a[2][0])) == hc
            else:
                same = fmt(a) == hc
        run.ob("xs::api::handle_head_get|options|same-context", same, rd.sp,
               "the follow subscription is scoped to the very context the head was looked up in (head: %s, subscription: %s)" % (
                   hc[:60], fmt(strip(cs[0]))[:60] if cs is not None and cs[0] is not None else "unset = all contexts"), reason="head-follow-options")
    # only frames of that topic are streamed
    flt = [c for c in hb.calls() if c.bb in hb.live_blocks() and c.fn.endswith("StreamExt::filter")]
    ok = False
    for c in flt:
        clo = strip(c.arg(1))
        cb = run.facts.body(clo[1].get("def")) if clo[0] == "agg" and clo[1].get("def") else None
        if cb is None:
            continue
        run.touch(cb)
        rets = cb.return_defs()
        for (rb2, e, raw) in rets:
            cm = q.comparison(e)
            if cm and cm[0] == "eq" and len(rets) == 1:
                sides = [strip(cm[1]), strip(cm[2])]
                has_topic = any(q.last_field(x) == "topic" and any(y[0] == "arg" for y in walk(x)) for x in sides)
                has_cap = any(any(y[0] == "env" for y in walk(x)) and not any(y[0] == "arg" for y in walk(x)) for x in sides)
                ok = has_topic and has_cap
    run.ob("xs::api::handle_head_get|topic-filter", len(flt) == 1 and ok, flt[0].sp if flt else hb.sp,
           "the followed stream is filtered to frames whose topic EQUALS the requested topic", reason="head-follow-other-topics")
    n = 0
    for b in run.facts.bodies_under("xs::api::handle_head_get"):
        n += ndjson_terminated(run, b, "xs::api::handle_head_get")
    run.floor("NDJSON lines rendered by handle_head_get", n, 2, hb.sp)
    for b in run.facts.bodies_under("xs::api::handle_stream_cat"):
        ndjson_terminated(run, b, "xs::api::handle_stream_cat")


def r11(run):
    """match_route: content negotiation and the CAS hash validation have the right polarity; POST /<topic> stores its body."""
    mr = C.body_or_fail(run, MATCH_ROUTE)
    ev = [(bi, st) for bi, si2, st in mr.stmt_points() if st["k"] == "assign" and st["rv"].get("agg") == "adt" and st["rv"].get("adt", "").endswith("AcceptType")
          and bi in mr.live_blocks()]
    sse_e = []
    for bb, si in mr.switches():
        if si["kind"] != "bool":
            continue
        cm = q.comparison(si["cond"])
        if cm and cm[0] in ("eq", "ne") and "text/event-stream" in q.const_strs(si["cond"]):
            sse_e += q.edge_triples(mr, bb, lambda m, rel=cm[0]: m is (rel == "eq"))
    for (bi, st) in ev:
        v = st["rv"].get("variant")
        if v == "EventStream":
            run.ob("%s|accept|EventStream" % MATCH_ROUTE, bool(sse_e) and q.dominated(mr, bi, via_edges=sse_e), st["sp"],
                   "the SSE rendering is chosen only when Accept equals text/event-stream", reason="wrong-rendering")
        elif v == "Ndjson":
            run.ob("%s|accept|Ndjson" % MATCH_ROUTE, not (sse_e and q.dominated(mr, bi, via_edges=sse_e)), st["sp"], "NDJSON is the rendering for every other Accept value", reason="wrong-rendering")
    run.floor("AcceptType construction sites in match_route", len(ev), 2, mr.sp)
    # CAS hash validation: an Integrity without hashes, or with a digest that is not base64, never becomes Routes::CasGet
    cas = [(bi, st) for bi, si2, st in mr.stmt_points() if st["k"] == "assign" and st["rv"].get("agg") == "adt" and st["rv"].get("adt") == "xs::api::Routes"
           and st["rv"].get("variant") == "CasGet" and bi in mr.live_blocks()]
    run.exact("Routes::CasGet construction sites", len(cas), 1, mr.sp)
    vb = mr
    helper_call = None
    if not any(c.fn.endswith("Engine::decode") for c in mr.calls() if c.bb in mr.live_blocks()):
        for c in mr.calls():
            if c.bb in mr.live_blocks() and c.local:
                hb2 = run.facts.body(c.fn)
                if hb2 is not None and any(cc.fn.endswith("Engine::decode") for cc in hb2.calls()):
                    vb, helper_call = hb2, c
    run.touch(vb)
    bad = []
    for bb, si in vb.switches():
        cond = strip(si["cond"])
        if si["kind"] == "bool" and cond[0] == "call" and cond[1].fn.endswith("::is_empty") and q.last_field(cond[2][0]) == "hashes":
            bad += q.edge_triples(vb, bb, lambda m: m is True)
    decs = [c for c in vb.calls() if c.bb in vb.live_blocks() and c.fn.endswith("Engine::decode")]
    for c in decs:
        bad += q.call_result_edges(vb, c, ok=False)
    run.ob("%s|cas-hash|checks-present" % MATCH_ROUTE, len(bad) >= 2 and bool(decs), vb.sp, "the hash is checked for at least one digest and for base64 digests (%d rejecting edge(s))" % len(bad),
           reason="invalid-cas-hash-accepted")
    if helper_call is None:
        for (bi, st) in cas:
            reach = mr.reachable_blocks([t for (_, t, _) in bad])
            run.ob("%s|cas-hash|invalid-not-routed" % MATCH_ROUTE, bi not in reach, st["sp"], "Routes::CasGet is not reachable from a failed hash check", reason="invalid-cas-hash-accepted")
            good = [e for c in decs for e in q.call_result_edges(vb, c, ok=True)]
            run.ob("%s|cas-hash|valid-routed" % MATCH_ROUTE, bool(good) and any(bi in mr.reachable_blocks([t]) for (_, t, _) in good), st["sp"],
                   "a hash that passes the checks becomes Routes::CasGet", reason="valid-cas-hash-rejected")
    else:
        reach = vb.reachable_blocks([t for (_, t, _) in bad])
        vals = [strip(e) for (rb2, e, raw) in vb.return_defs() if rb2 in reach and not q.reaches(vb, 0, rb2, removed_edges=bad)]
        run.ob("%s|cas-hash|invalid-is-false" % MATCH_ROUTE, all(v[0] == "const" and v[1].get("bool") is False for v in vals), vb.sp, "the validator answers false after a failed check", reason="invalid-cas-hash-accepted")
        te = []
        for bb, si in mr.switches():
            sc = strip(si["cond"])
            if si["kind"] == "bool" and sc[0] == "call" and q.same_call(sc[1], helper_call):
                te += q.edge_triples(mr, bb, lambda m: m is True)
        for (bi, st) in cas:
            run.ob("%s|cas-hash|invalid-not-routed" % MATCH_ROUTE, bool(te) and q.dominated(mr, bi, via_edges=te), st["sp"], "Routes::CasGet is built only when the validator answered true",
                   reason="invalid-cas-hash-accepted")
    # POST /<topic>: the stored frame references the body that was written to CAS
    from . import frames as F
    ab = api_coroutine(run, "handle_stream_append")
    if ab is None:
        run.missing("xs::api::handle_stream_append|body", "handle_stream_append not found")
        return
    aps = F.appends_in(ab)
    run.floor("Store::append calls in handle_stream_append", len(aps), 1, ab.sp)
    for a in aps:
        srcs = F.content_sources(a.setters.get("hash"), run.facts)
        run.ob("xs::api::handle_stream_append|frame-carries-body-hash", bool(srcs) and all(c.fn.startswith("cacache::put::") for c in srcs), a.call.sp,
               "the appended frame's hash is the result of the CAS commit of the request body (%s)" % [c.fn.split("::")[-1] for c in srcs], reason="body-not-referenced")


RULES = [
    ("R-C13-1", "every value returned by api::handle comes from a responder or the final error->500 mapping; no `?` in handle", r1),
    ("R-C13-2", "every panic-capable site of the request-decoding layer is infallible serialisation, prefix-guarded, or individually exempted", r2),
    ("R-C13-3", "every payload field of every Routes variant is forwarded, and every handler parameter reaches a store operation or branch", r3),
    ("R-C13-4", "listener_loop: one spawned task per connection, the loop ends only on accept errors", r4),
    ("R-C13-5", "append / import are reached only through the Ok edge of the request decoding; nothing after a 400", r5),
    ("R-C13-8", "a request body that fails part-way never leads to a CAS commit, an append or a success result", r8),
    ("R-C13-7", "GET /: both renderings serialise the whole frame; the stream is Store::read(options) unmodified and unfiltered", r7),
    ("R-C13-9", "status codes: response_400/404/500 carry their code, an absent frame is 404, a failed store operation is never answered 2xx, only NotFound is a CAS 404", r9),
    ("R-C13-10", "GET /head/<topic>: follow polarity, subscription options (follow, tail, last_id = head.id), topic-equality filter, NDJSON line framing", r10),
    ("R-C13-11", "match_route / POST: SSE only for Accept: text/event-stream, an invalid CAS hash never becomes Routes::CasGet, the appended frame references the stored body", r11),
    ("R-C13-6", "route specificity: each catch-all arm is dominated by the false edge of every more specific test of its method", r6),
]
