"""C13 - the HTTP API is a faithful and total front end to the store."""
from xsvlib.facts import fmt, strip, place_path, walk
from xsvlib import q
from . import common as C

EXPLANATION = ("Total-response analysis of api::handle (every return value comes from the response mapping, no early error return), "
               "enumeration and classification of every panic-capable site in the request-decoding layer, forwarding of every Routes payload "
               "field, route specificity by dominance over the lowered match, connection isolation in listener_loop, and 'decode before effect'.")
NOT_DECIDED = ["equality of each route's effect with the store operation over request sequences (reference-model comparison)",
               "SSE vs NDJSON rendering", "hyper's own handling of malformed HTTP framing"]

API = "xs::api::"
HANDLE = "xs::api::handle"
MATCH_ROUTE = "xs::api::match_route"
RESPONDERS = ("xs::api::response_400", "xs::api::response_404", "xs::api::response_500")
DECODE_LAYER_EXCLUDE = ("xs::api::serve", "xs::api::listener_loop")   # start-up / accept loop, not request decoding

PANIC_SUFFIX = ("::unwrap", "::expect", "::unwrap_unchecked")

# one-line reasons for accepted panic-capable sites that are not (a) serialisation or (b) prefix-guarded
PANIC_EXEMPT = {
    "xs::api::handle|cas-stream-map": "mid-body I/O error of the CAS download stream after the response head was sent: no response can be produced any more",
}


def handle_body(run):
    for b in run.facts.bodies_under(HANDLE):
        if b.is_coroutine and q.live_calls(b, MATCH_ROUTE):
            run.touch(b)
            return b
    return None


def r1(run):
    b = handle_body(run)
    if b is None:
        run.missing("%s|body" % HANDLE, "api::handle (coroutine calling match_route) not found")
        return
    rets = b.return_defs()
    run.floor("return definitions in api::handle", len(rets), 1, b.sp)
    n_map = 0
    for (bb, e, raw) in rets:
        x = strip(e)
        kind = "other"
        if x[0] == "call" and x[1].fn in RESPONDERS:
            kind = "responder"
        elif x[0] == "call" and x[1].fn in ("core::result::Result::<T, E>::or_else", "core::result::Result::<T, E>::unwrap_or_else"):
            clo = strip(x[2][1])
            cb = run.facts.body(clo[1]["def"]) if clo[0] == "agg" and clo[1].get("def") else None
            if cb is not None and any(c.fn in RESPONDERS for c in cb.calls()):
                kind = "mapping"
                n_map += 1
        elif x[0] == "call" and x[1].fn == "core::ops::try_trait::FromResidual::from_residual":
            kind = "early-error-return"
        site = x[1].sp if x[0] == "call" else b.blocks[bb]["term"]["sp"]
        what = fmt(x)[:140]
        run.ob("%s|return|%s@%s" % (HANDLE, kind, _arm_of(b, bb)), kind in ("responder", "mapping"), site,
               "handle returns %s: %s" % (kind, what), reason="error-bypasses-response-mapping")
    run.ob("%s|has-error-mapping" % HANDLE, n_map >= 1, b.sp, "the final `res.or_else(|e| response_500(..))` mapping exists", reason="error-bypasses-response-mapping")
    # no `?` in the body at all (each would be an early Err return from the hyper service fn)
    tries = [c for c in q.live_calls(b, "core::ops::try_trait::FromResidual::from_residual")]
    run.ob("%s|no-question-mark" % HANDLE, not tries, tries[0].sp if tries else b.sp, "no `?` in api::handle (%d)" % len(tries), reason="error-bypasses-response-mapping")


def _arm_of(b, bb):
    """Name the Routes variant arm a block belongs to (for stable keys)."""
    for sbb, si in b.switches():
        if si["kind"] == "variant" and si.get("adt") == "xs::api::Routes":
            best = None
            for (t, lab, m) in si["edges"]:
                if isinstance(m, str) and q.dominated(b, bb, via_edges=[(sbb, t, lab)]):
                    best = m
            if best:
                return best
    return "common"


def r2(run):
    facts = run.facts
    n = 0
    for b in facts.all_bodies():
        if not b.def_.startswith(API):
            continue
        fn = facts.enclosing_fn(b)
        if fn in DECODE_LAYER_EXCLUDE or b.file() != "src/api.rs":
            continue
        if "::tests::" in b.def_:
            continue
        run.touch(b)
        for c in b.calls():
            if c.bb not in b.live_blocks() or c.from_macro():
                continue
            is_panic = c.fn.endswith(PANIC_SUFFIX) or c.fn.startswith("core::panicking") or "begin_panic" in c.fn or c.fn.endswith("Index::index") \
                or c.fn.endswith("IndexMut::index_mut")
            if not is_panic:
                continue
            n += 1
            recv = q.peel(c.arg(0)) if c.args else ("none",)
            cls, why = None, ""
            if recv[0] == "call" and recv[1].fn in ("serde_json::ser::to_vec", "serde_json::ser::to_string", "serde_json::value::to_value"):
                cls, why = "serialisation", "serialising a Frame / Value cannot fail (string keys, no non-finite floats)"
            elif recv[0] == "call" and recv[1].fn == "core::str::<impl str>::strip_prefix":
                lit = q.const_strs(recv[2][1])
                guards = []
                for bb, si in b.switches():
                    cond = si["cond"]
                    if si["kind"] == "bool" and cond[0] == "call" and cond[1].fn == "core::str::<impl str>::starts_with" and q.const_strs(cond[2][1]) == lit \
                            and fmt(strip(cond[2][0])) == fmt(strip(recv[2][0])):
                        guards += q.edge_triples(b, bb, lambda m: m is True)
                if guards and q.dominated(b, c.bb, via_edges=guards):
                    cls, why = "prefix-guarded", "strip_prefix(%s).unwrap() dominated by starts_with(%s)" % (lit, lit)
            if cls is None and fn == HANDLE and b.kind == "Closure" and not b.is_coroutine and recv[0] == "arg":
                # the map closure of the CAS ReaderStream
                key = "xs::api::handle|cas-stream-map"
                if key in PANIC_EXEMPT:
                    cls, why = "exempt", PANIC_EXEMPT[key]
            what = "%s on %s" % (c.fn.split("::")[-1], fmt(recv)[:90])
            run.ob("%s|panic-site|%s" % (fn, fmt(recv)[:70]), cls is not None, c.sp,
                   "%s in %s: %s" % (what, b.def_, "[%s] %s" % (cls, why) if cls else "may panic on request-derived data -> dropped connection"),
                   reason="panic-on-request-data")
        for bi in b.live_blocks():
            t = b.term(bi)
            if t["k"] == "assert" and "BoundsCheck" in t["msg"] and not t.get("exp"):
                n += 1
                run.ob("%s|bounds-check" % fn, False, t["sp"], "indexing with a bounds check in the decoding layer may panic", reason="panic-on-request-data")
    run.floor("panic-capable sites enumerated in the decoding layer", n, 3)


def routes_adt(run):
    return run.facts.adt("xs::api::Routes")


def r3(run):
    b = handle_body(run)
    if b is None:
        run.missing("%s|body" % HANDLE, "api::handle not found")
        return
    adt = routes_adt(run)
    n = 0
    for v in adt["variants"]:
        for i, f in enumerate(v["fields"]):
            n += 1
            used = []
            for c in b.calls():
                if c.bb not in b.live_blocks() or c.fn.startswith(("core::fmt", "tracing")):
                    continue
                for a in c.arg_exprs():
                    for x in walk(a):
                        if x[0] == "field" and str(x[2]) == f["name"] and x[1][0] == "downcast" and x[1][2] == v["name"]:
                            used.append(c)
            callee = sorted({c.fn for c in used})
            run.ob("%s|forwards|%s.%s" % (HANDLE, v["name"], f["name"]), bool(used), used[0].sp if used else b.sp,
                   "Routes::%s.%s is passed on to %s" % (v["name"], f["name"], callee or "NOTHING (dropped parameter)"), reason="route-parameter-dropped")
    run.floor("Routes payload fields", n, 9)
    # inside each handler every parameter reaches a store operation, a Frame builder or a branch condition
    for hb in run.facts.all_bodies():
        fn = run.facts.enclosing_fn(hb)
        if not (fn.startswith("xs::api::handle_") and hb.is_coroutine and hb.def_ == fn + "::{closure#0}"):
            continue
        run.touch(hb)
        for cap in hb.captures:
            name = cap["name"]
            if name in ("store", "req", "body", "_engine"):
                continue
            hit = False
            for c in hb.calls():
                if c.bb not in hb.live_blocks():
                    continue
                if c.fn.startswith("xs::store::") and any(y[0] == "field" and y[1][0] == "env" and str(y[2]) == name for a in c.arg_exprs() for y in walk(a)):
                    hit = True
            for bb, si in hb.switches():
                if any(y[0] == "field" and y[1][0] == "env" and str(y[2]) == name for y in walk(si["cond"])):
                    hit = True
            # closures of the handler that capture it (e.g. the topic filter of head-follow)
            for sub in run.facts.closures_under(hb.def_):
                if any(name in cc["name"] for cc in sub.captures):
                    hit = True
            run.ob("%s|uses|%s" % (fn, name), hit, hb.sp, "parameter `%s` of %s reaches a store operation / frame builder / branch" % (name, fn), reason="route-parameter-dropped")


CATCH_ALL = {"StreamItemGet": "Get", "StreamItemRemove": "Delete", "StreamAppend": "Post"}


def r6(run):
    b = C.body_or_fail(run, MATCH_ROUTE)
    # method regions
    method_edges = {}
    for bb, si in b.switches():
        if si["kind"] == "variant" and si.get("adt", "").startswith("http::method::"):
            for (t, lab, m) in si["edges"]:
                if isinstance(m, str):
                    method_edges.setdefault(m, []).append((bb, t, lab))
    run.floor("method tests in match_route", len(method_edges), 3, b.sp)
    # literal path tests
    tests = []
    for bb, si in b.switches():
        if si["kind"] != "bool":
            continue
        cond = si["cond"]
        lit = None
        kind = None
        if cond[0] == "call" and cond[1].fn == "core::str::<impl str>::starts_with":
            ls = q.const_strs(cond[2][1])
            if ls:
                lit, kind = ls[0], "prefix"
        else:
            cmp_ = q.comparison(cond)
            if cmp_ and cmp_[0] == "eq" or (cond[0] == "call" and cond[1].fn.endswith("PartialEq for str>::eq")):
                ls = q.const_strs(cond)
                if ls and ls[0].startswith("/"):
                    lit, kind = ls[0], "exact"
        if lit is None:
            continue
        meth = [m for m, es in method_edges.items() if q.dominated(b, bb, via_edges=es)]
        tests.append({"bb": bb, "lit": lit, "kind": kind, "method": meth[0] if len(meth) == 1 else None,
                      "true": q.edge_triples(b, bb, lambda m: m is True), "false": q.edge_triples(b, bb, lambda m: m is False)})
    run.floor("literal path tests in match_route", len(tests), 6, b.sp)
    # route constructions
    arms = {}
    for bi, si, st in b.stmt_points():
        if st["k"] == "assign" and "agg" in st["rv"] and st["rv"].get("adt") == "xs::api::Routes" and bi in b.live_blocks():
            arms.setdefault(st["rv"]["variant"], []).append((bi, st["sp"]))
    for variant, meth in CATCH_ALL.items():
        sites = arms.get(variant, [])
        run.floor("construction sites of Routes::%s" % variant, len(sites), 1, b.sp)
        for (bi, sp) in sites:
            run.ob("%s|%s|method" % (MATCH_ROUTE, variant), meth in method_edges and q.dominated(b, bi, via_edges=method_edges[meth]), sp,
                   "Routes::%s is built only for %s requests" % (variant, meth.upper()), reason="route-specificity")
            for t in tests:
                if t["method"] != meth:
                    continue
                run.ob("%s|%s|after|%s:%s" % (MATCH_ROUTE, variant, t["kind"], t["lit"]), q.dominated(b, bi, via_edges=t["false"]), sp,
                       "the catch-all %s arm is reached only when the more specific test %s %r failed" % (variant, t["kind"], t["lit"]), reason="route-specificity")
    # every specific route is dominated by the true edge of one literal test of its own method
    for variant, sites in arms.items():
        if variant in CATCH_ALL or variant in ("NotFound", "BadRequest"):
            continue
        for (bi, sp) in sites:
            doms = [t for t in tests if q.dominated(b, bi, via_edges=t["true"])]
            run.ob("%s|%s|literal" % (MATCH_ROUTE, variant), len(doms) >= 1, sp,
                   "Routes::%s is selected by %s" % (variant, [(t["method"], t["kind"], t["lit"]) for t in doms]), reason="route-specificity")


def r4(run):
    lb = None
    for b in run.facts.bodies_under("xs::api::listener_loop"):
        if b.is_coroutine and [c for c in b.calls() if c.fn.endswith("Listener::accept")]:
            lb = b
    if lb is None:
        run.missing("xs::api::listener_loop|body", "listener_loop (coroutine calling Listener::accept) not found")
        return
    run.touch(lb)
    acc = [c for c in lb.calls() if c.fn.endswith("Listener::accept") and c.bb in lb.live_blocks()]
    rets = lb.return_defs()
    ok = bool(rets)
    for (bb, e, raw) in rets:
        x = strip(e)
        if not (x[0] == "call" and x[1].fn == "core::ops::try_trait::FromResidual::from_residual" and any(y[0] == "call" and y[1].fn.endswith("Listener::accept") for y in walk(x))):
            ok = False
    run.ob("xs::api::listener_loop|exit-only-on-accept-error", ok, lb.sp, "the accept loop ends only when accept() itself fails (%d return defs)" % len(rets), reason="listener-stops")
    direct = [c for c in lb.calls() if "serve_connection" in c.fn and c.bb in lb.live_blocks()]
    run.ob("xs::api::listener_loop|connection-not-served-inline", not direct, lb.sp, "connections are not served on the accept loop's own task", reason="connection-blocks-listener")
    spawned = False
    for c in q.live_calls(lb, C.TOKIO_SPAWN):
        for x in walk(c.arg(0)):
            if x[0] == "agg" and x[1].get("def"):
                sb = run.facts.body(x[1]["def"])
                if sb is not None and any("serve_connection" in cc.fn for cc in sb.calls()):
                    spawned = True
                    run.touch(sb)
                    # inside the per-connection task the handler is called through service_fn -> handle
    run.ob("xs::api::listener_loop|one-task-per-connection", spawned, lb.sp, "each accepted connection is served in its own spawned task", reason="connection-blocks-listener")
    for c in q.live_calls(lb, C.TOKIO_SPAWN):
        run.ob("xs::api::listener_loop|spawn-inside-loop", any(q.reaches(lb, c.bb, a.bb) for a in acc), c.sp, "after spawning the connection task the loop accepts again")


def r5(run):
    facts = run.facts
    cases = (("xs::api::handle_stream_append", C.APPEND), ("xs::api::handle_import", C.INSERT_FRAME))
    for fn, eff in cases:
        hb = None
        for b in facts.bodies_under(fn):
            if b.is_coroutine and q.live_calls(b, eff):
                hb = b
        if hb is None:
            run.missing("%s|effect" % fn, "%s does not call %s" % (fn, eff))
            continue
        run.touch(hb)
        for c in q.live_calls(hb, eff):
            # every fallible decode result that feeds the effect's argument is tested on its Ok/Some edge first
            feeds = []
            for a in c.arg_exprs():
                for x in walk(a):
                    if x[0] == "downcast" and x[2] in ("Ok", "Continue"):
                        feeds.append(x[1])
            okc = 0
            leaks = []
            seen = set()
            for base in feeds:
                key = fmt(strip(base))
                if key in seen:
                    continue
                seen.add(key)
                for bb, si in hb.switches():
                    if si["kind"] == "variant" and fmt(strip(si["cond"])) == key:
                        errs = [t for (t, lab, m) in si["edges"] if m in ("Err", "Break") or (isinstance(m, tuple) and set(m) & {"Err", "Break"})]
                        if not errs:
                            continue
                        if c.bb in hb.reachable_blocks(errs):
                            leaks.append(key[:80])
                        else:
                            okc += 1
            run.ob("%s|decode-before-effect" % fn, okc >= 1 and not leaks, c.sp,
                   "from the Err edge of every fallible decode that feeds %s the effect is unreachable (%d decodes guarded; leaking: %s)" % (
                       eff.split("::")[-1], okc, leaks), reason="effect-before-validation")
            # no responder for a client error (400) can be followed by the effect
            bad = [r.sp for r in q.live_calls(hb, "xs::api::response_400") if q.reaches(hb, r.bb, c.bb)]
            run.ob("%s|no-effect-after-400" % fn, not bad, c.sp, "the store is not touched after a 400 response was chosen (%s)" % bad, reason="effect-after-error")
            n400 = len(q.live_calls(hb, "xs::api::response_400"))
            run.floor("400 responses in %s" % fn, n400, 1, hb.sp)


BODY_ITEM_FNS = ("http_body_util::BodyExt::frame", "futures_util::stream::stream::StreamExt::next", "tokio_stream::stream_ext::StreamExt::next",
                 "http_body_util::BodyExt::collect")
EFFECT_FNS = ("cacache::put::Writer::commit", "cacache::put::SyncWriter::commit", C.APPEND, C.INSERT_FRAME)


def r8(run):
    """A request body that fails part-way must not be treated as a body that ended: from the error case of every body
    item, no CAS commit / append / insert is reachable (the request fails, the store is untouched)."""
    facts = run.facts
    n = 0
    for b in facts.all_bodies():
        if not (b.def_.startswith(API) and b.is_coroutine) or b.file() != "src/api.rs":
            continue
        items = [c for c in b.calls() if c.bb in b.live_blocks() and c.fn in BODY_ITEM_FNS and
                 ("hyper::body::incoming::Incoming" in c.fnx or "BodyDataStream" in c.fnx or "Incoming" in c.fnx)]
        if not items:
            continue
        run.touch(b)
        fn = facts.enclosing_fn(b)
        # effects in this body: direct, or through a crate-local callee that reaches one
        effects = [c for c in b.calls() if c.bb in b.live_blocks() and (c.fn in EFFECT_FNS)]
        for it in items:
            n += 1
            err_targets, tested = [], False
            for bb, si in b.switches():
                if si["kind"] != "variant":
                    continue
                cond = si["cond"]
                if cond[0] == "call" and cond[1].fn.endswith("Future::poll"):
                    continue
                # the switch must be on the body item's own Result: item, `item?`, or the payload of `Some(item)`
                x = strip(cond)
                if x[0] == "call" and x[1].fn == "core::ops::try_trait::Try::branch":
                    x = strip(x[2][0])
                if x[0] == "field" and x[1][0] == "downcast" and x[1][2] == "Some":
                    x = strip(x[1][1])
                x = q.unawait(x)
                if not (x[0] == "call" and q.same_call(x[1], it)):
                    continue
                if si.get("adt") and "option::Option" in si["adt"]:
                    continue   # the Some/None test of the item, not its Result
                for (t, lab, m) in si["edges"]:
                    ms = m if isinstance(m, tuple) else (m,)
                    if any(x in ("Err", "Break") for x in ms):
                        tested = True
                        err_targets.append(t)
            reach = b.reachable_blocks(err_targets) if err_targets else set()
            leaked = [c.sp for c in effects if c.bb in reach]
            # an Ok/200 response built after the error case is also a leak
            oks = [rb for (rb, e, raw) in b.return_defs() if rb in reach and strip(e)[0] == "agg" and strip(e)[1].get("variant") == "Ok"]
            run.ob("%s|body-error|%s" % (fn, it.fn.split("::")[-1]), tested and not leaked and not oks, it.sp,
                   "a failing body chunk (%s) never reaches a CAS commit, an append or an Ok result in %s (error case examined: %s; reachable effects: %s; Ok returns: %d)" % (
                       it.fn.split("::")[-1], fn, tested, leaked, len(oks)), reason="failed-request-changes-store")
    run.floor("request-body item sites in the API layer", n, 2)


def r7(run):
    """Both renderings of GET / serialise the frame itself with serde_json (same fields, same frame)."""
    hb = None
    for b in run.facts.bodies_under("xs::api::handle_stream_cat"):
        if b.kind == "Closure" and not b.is_coroutine and [c for c in b.calls() if c.fn.startswith("serde_json::ser::")]:
            hb = b
    if hb is None:
        run.missing("xs::api::handle_stream_cat|render-closure", "rendering closure (serde_json) of handle_stream_cat not found")
        return
    run.touch(hb)
    arms = {}
    for bb, si in hb.switches():
        if si["kind"] == "variant" and si.get("adt", "").endswith("AcceptType"):
            for (t, lab, m) in si["edges"]:
                if isinstance(m, str):
                    arms[m] = (bb, t, lab)
    run.ob("xs::api::handle_stream_cat|renderings", set(arms) >= {"Ndjson", "EventStream"}, hb.sp, "both renderings are handled: %s" % sorted(arms), reason="rendering-missing")
    for name, e in arms.items():
        reg = {x for x in hb.reachable_blocks([e[1]]) if q.dominated(hb, x, via_edges=[e])}
        sers = [c for c in hb.calls() if c.bb in reg and c.fn in ("serde_json::ser::to_vec", "serde_json::ser::to_string")]
        whole = [c for c in sers if strip(c.arg(0))[0] == "arg" or (strip(c.arg(0))[0] in ("local", "arg") )]
        run.ob("xs::api::handle_stream_cat|render|%s" % name, len(sers) == 1 and len(whole) == 1, hb.sp,
               "the %s rendering is serde_json of the whole frame handed to the closure (%s)" % (name, [fmt(strip(c.arg(0))) for c in sers]), reason="rendering-differs-from-frame")
    # the stream rendered is exactly store.read(options) with the route's options
    cb = None
    for b in run.facts.bodies_under("xs::api::handle_stream_cat"):
        if b.is_coroutine and q.live_calls(b, C.READ):
            cb = b
    if cb is not None:
        run.touch(cb)
        rd = q.live_calls(cb, C.READ)[0]
        a = strip(rd.arg(1))
        run.ob("xs::api::handle_stream_cat|options-unmodified", a[0] == "field" and a[1][0] == "env" and a[2] == "options", rd.sp,
               "the route's ReadOptions are handed to Store::read unchanged: %s" % fmt(a), reason="options-rewritten")
        adaptors = [c.fn.split("::")[-1] for c in cb.calls() if c.bb in cb.live_blocks() and "StreamExt" in c.fn]
        run.ob("xs::api::handle_stream_cat|no-filtering", adaptors == ["map"], cb.sp, "the receiver stream is only mapped (rendered), never filtered / limited again: %s" % adaptors,
               reason="http-stream-differs-from-store")


RULES = [
    ("R-C13-1", "every value returned by api::handle comes from a responder or the final error->500 mapping; no `?` in handle", r1),
    ("R-C13-2", "every panic-capable site of the request-decoding layer is infallible serialisation, prefix-guarded, or individually exempted", r2),
    ("R-C13-3", "every payload field of every Routes variant is forwarded, and every handler parameter reaches a store operation or branch", r3),
    ("R-C13-4", "listener_loop: one spawned task per connection, the loop ends only on accept errors", r4),
    ("R-C13-5", "append / import are reached only through the Ok edge of the request decoding; nothing after a 400", r5),
    ("R-C13-8", "a request body that fails part-way never leads to a CAS commit, an append or a success result", r8),
    ("R-C13-7", "GET /: both renderings serialise the whole frame; the stream is Store::read(options) unmodified and unfiltered", r7),
    ("R-C13-6", "route specificity: each catch-all arm is dominated by the false edge of every more specific test of its method", r6),
]
