"""C14 - a handler sees each frame once, in order, and never its own output."""
from xsvlib.facts import fmt, strip, walk
from xsvlib import q
from . import common as C
from . import frames as F
from . import C06 as c06

EXPLANATION = ("Guards of the Handler::serve loop by dominance (own-output filter keyed on the same meta key that process_frame stamps, "
               "old-registration skip), sequential structure (no spawn, awaited processing, one worker thread with a receive loop), "
               "environment merge between evaluations, and the resume_from -> (last_id, tail) mapping.")
NOT_DECIDED = ["exactly-once / in-order invocation (C02, C03, tokio channels)", "behaviour under bursts"]

HANDLER = "xs::handlers::handler::Handler"


def serve_body(run):
    for b in run.facts.bodies_under(HANDLER + "::serve"):
        if b.is_coroutine and b.def_ == HANDLER + "::serve::{closure#0}":
            run.touch(b)
            return b
    return None


def closure_bodies_in(run, e):
    out = []
    for y in walk(e):
        if y[0] == "agg" and y[1].get("agg") == "closure":
            cb = run.facts.body(y[1]["def"])
            if cb is not None:
                out.append((cb, y))
    return out


def r1(run):
    sv = serve_body(run)
    if sv is None:
        run.missing(HANDLER + "::serve|body", "Handler::serve not found")
        return
    pf = [c for c in sv.calls() if c.bb in sv.live_blocks() and c.fn.endswith("Handler::process_frame")]
    run.exact("process_frame call sites", len(pf), 1, sv.sp)
    from .store_shared import capture_origin
    guards = []
    for bb, si in sv.switches():
        if si["kind"] != "bool":
            continue
        cond = si["cond"]
        if not (cond[0] == "call" and cond[1].fn in ("core::option::Option::<T>::is_some", "core::option::Option::<T>::is_none", "core::option::Option::<T>::is_some_and",
                                                      "core::option::Option::<T>::is_none_or")):
            continue
        if not any(y[0] == "field" and y[2] == "meta" for y in walk(cond)):
            continue
        keys, cmp_self = [], False
        rels = set()
        for (cb, agg) in closure_bodies_in(run, cond):
            run.touch(cb)
            for (rb2, e2, raw2) in cb.return_defs():
                cm2 = q.comparison(e2)
                if cm2:
                    rels.add(cm2[0])
            for c in cb.calls():
                if c.fn.endswith("Value::get"):
                    keys += q.const_strs(c.arg(1))
                if c.fn in q.REL_CALL or c.fn == "core::cmp::PartialEq::eq":
                    for cap in cb.captures:
                        if cap["name"].endswith("id") and "self" in cap["name"]:
                            cmp_self = True
                        elif cap["name"] == "self" and any(y[0] == "field" and y[2] == "id" and any(z[0] == "field" and z[1] == ("env",) and z[2] == "self" for z in walk(y))
                                                           for a_ in c.arg_exprs() for y in walk(a_)):
                            # the closure sits in a predicate method of the handler (`fn is_own_output(&self, ..)`): it captured
                            # `self` whole and compares with `self.id`
                            cmp_self = True
                        else:
                            po = capture_origin(run, cb, cap["name"])
                            if po is not None and any(y[0] == "field" and y[2] == "id" and any(z[0] == "field" and z[1][0] == "env" and z[2] == "self" for z in walk(y)) for y in walk(po[1])):
                                cmp_self = True
        positive = cond[1].fn.endswith(("is_some", "is_some_and"))
        guards.append((bb, keys, cmp_self, q.edge_triples(sv, bb, lambda m: m is (not positive)), rels))
    mine = [g for g in guards if "handler_id" in g[1] and g[2]]
    run.exact("own-output tests (meta.handler_id == self.id)", len(mine), 1, sv.sp)
    for (bb, keys, cmp_self, not_own_edges, rels) in mine:
        run.ob(HANDLER + "::serve|own-output-test-is-equality", rels == {"eq"}, sv.blocks[bb]["term"]["sp"],
               "the closure that compares meta.handler_id with the handler's own id answers true exactly when they are EQUAL (%s)" % sorted(rels), reason="handler-feeds-itself")
        for c in pf:
            run.ob(HANDLER + "::serve|own-output-filtered", bool(not_own_edges) and q.dominated(sv, c.bb, via_edges=not_own_edges), c.sp,
                   "process_frame is reached only on the 'meta.handler_id is not my id' edge", reason="handler-feeds-itself")
    # key agreement: the key tested here is the key process_frame stamps and the restart compaction reads
    stamped = set()
    for b in run.facts.bodies_under(HANDLER + "::process_frame"):
        stamped |= set(k for (k, v, recv, c) in F.map_writes(b))
    compaction = set()
    for b in run.facts.bodies_under("xs::handlers::serve::serve"):
        for c in b.calls():
            if c.fn.endswith("Value::get"):
                compaction |= set(q.const_strs(c.arg(1)))
    tested = set(k for g in mine for k in g[1])
    run.ob("handlers|meta-key-agreement", "handler_id" in stamped and tested <= stamped and "handler_id" in compaction, sv.sp,
           "the stamp key written by process_frame (%s), tested by the self-filter (%s) and read by the restart compaction (%s) agree" % (sorted(stamped), sorted(tested), sorted(compaction)),
           reason="meta-key-mismatch")


def r2(run):
    sv = serve_body(run)
    if sv is None:
        run.missing(HANDLER + "::serve|body", "Handler::serve not found")
        return
    skips = []
    for bb, si in sv.switches():
        if si["kind"] != "bool":
            continue
        cmp_ = q.comparison(si["cond"])
        if not cmp_ or cmp_[0] in ("eq", "ne"):
            continue
        rel, l, r = cmp_
        def is_frame_id(x):
            return q.last_field(x) == "id" and any(y[0] == "call" and y[1].fn == C.MPSC_RECV for y in walk(x))
        def is_self_id(x):
            return q.last_field(x) == "id" and any(y[0] == "field" and y[1][0] == "env" and y[2] == "self" for y in walk(x))
        if is_frame_id(l) and is_self_id(r):
            skips.append((bb, rel))
        elif is_frame_id(r) and is_self_id(l):
            skips.append((bb, q.SWAP[rel]))
    run.exact("comparisons frame.id <=> self.id in serve", len(skips), 1, sv.sp)
    recvs = q.live_calls(sv, C.MPSC_RECV)
    for (bb, rel) in skips:
        skip_edges = q.edge_triples(sv, bb, lambda m, rel=rel: q.rel_on_edge(rel, m) == "le")
        reach = sv.reachable_blocks([t for (_, t, _) in skip_edges], removed_blocks=[r.bb for r in recvs]) if skip_edges else set()
        bad = [c.sp for c in sv.calls() if c.bb in reach and (c.fn == C.APPEND or c.fn.endswith("process_frame"))]
        run.ob(HANDLER + "::serve|old-registration-skipped", bool(skip_edges) and not bad, sv.blocks[bb]["term"]["sp"],
               "on the `frame.id <= self.id` edge (registration traffic that preceded this instance) nothing is processed or announced (%s)" % bad, reason="old-registration-processed")
        # that test is only about <topic>.register / <topic>.unregister frames
        reg = F.suffix_tests(sv, ".register") + F.suffix_tests(sv, ".unregister")
        run.ob(HANDLER + "::serve|skip-limited-to-registration-traffic", bool(reg) and q.dominated(sv, bb, via_edges=reg), sv.blocks[bb]["term"]["sp"],
               "the id comparison is evaluated only for `<topic>.register` / `<topic>.unregister` frames", reason="foreign-frames-skipped")
        # ... and for each of the two kinds on its own (`||`, not `&&`)
        r_e, u_e = F.suffix_tests(sv, ".register"), F.suffix_tests(sv, ".unregister")
        cut = [r.bb for r in recvs]
        for name, mine_e, other_e in ((".register", r_e, u_e), (".unregister", u_e, r_e)):
            only = [e for e in mine_e if e not in other_e]
            reach2 = sv.reachable_blocks([t for (_, t, _) in only], removed_edges=[e for e in other_e if e not in mine_e], removed_blocks=cut) if only else set()
            run.ob(HANDLER + "::serve|skip-covers|%s" % name, bb in reach2 or any(t == bb for (_, t, _) in only), sv.blocks[bb]["term"]["sp"],
                   "an old `<topic>%s` frame reaches the `frame.id <= self.id` skip on its own" % name, reason="old-registration-processed")


def r3(run):
    facts = run.facts
    spawns = []
    for fn in (HANDLER + "::serve", HANDLER + "::process_frame", HANDLER + "::eval_in_thread"):
        for b in facts.bodies_under(fn):
            for c in b.calls():
                if c.bb in b.live_blocks() and c.fn in (C.TOKIO_SPAWN, C.TOKIO_SPAWN_BLOCKING) + C.THREAD_SPAWNS:
                    spawns.append(c.sp)
    run.ob("handlers|no-concurrency-below-serve", not spawns, "<Handler::serve>", "no task/thread is spawned below serve / process_frame / eval_in_thread (%s)" % spawns,
           reason="concurrent-invocations")
    sv = serve_body(run)
    if sv is not None:
        pf = [c for c in sv.calls() if c.bb in sv.live_blocks() and c.fn.endswith("Handler::process_frame")]
        for c in pf:
            awaited = False
            for bb, si in sv.switches():
                if si["kind"] == "variant" and si["cond"][0] == "call" and si["cond"][1].fn.endswith("Future::poll"):
                    u = q.unawait(("field", ("downcast", si["cond"], "Ready"), 0))
                    if u[0] == "call" and q.same_call(u[1], c):
                        awaited = True
            recvs = q.live_calls(sv, C.MPSC_RECV)
            run.ob(HANDLER + "::serve|processing-awaited-in-loop", awaited, c.sp, "process_frame is awaited inside the receive loop (one frame at a time)", reason="concurrent-invocations")
    # engine worker: one thread per handler, with a receive loop
    nb = facts.body("xs::handlers::handler::EngineWorker::new")
    if nb is None:
        run.missing("xs::handlers::handler::EngineWorker::new|body", "EngineWorker::new not found")
        return
    run.touch(nb)
    ts = q.live_calls(nb, *C.THREAD_SPAWNS)
    run.exact("threads created by EngineWorker::new", len(ts), 1, nb.sp)
    ctors = C.callers_of(facts, "xs::handlers::handler::EngineWorker::new")
    run.exact("EngineWorker::new call sites (one worker per handler)", len(ctors), 1)
    for (b, c) in ctors:
        run.ob("EngineWorker|created-in-Handler::new", facts.enclosing_fn(b) == HANDLER + "::new", c.sp, "the worker is created once, when the handler is constructed")


def worker_body(run):
    for b in run.facts.bodies_under("xs::handlers::handler::EngineWorker::new"):
        if b.kind == "Closure" and not b.is_coroutine and [c for c in b.calls() if c.fn.endswith("blocking_recv")]:
            run.touch(b)
            return b
    return None


def r4(run):
    wb = worker_body(run)
    if wb is None:
        run.missing("EngineWorker|worker-loop", "worker closure (blocking_recv loop) not found")
        return
    recv = [c for c in wb.calls() if c.bb in wb.live_blocks() and c.fn.endswith("blocking_recv")]
    evals = [c for c in wb.calls() if c.bb in wb.live_blocks() and c.fn.startswith("nu_engine::eval::eval_block")]
    merges = [c for c in wb.calls() if c.bb in wb.live_blocks() and c.fn.endswith("EngineState::merge_env")]
    run.exact("evaluation sites in the worker loop", len(evals), 1, wb.sp)
    run.floor("merge_env sites in the worker loop", len(merges), 1, wb.sp)
    for e in evals:
        reach = wb.reachable_blocks([e.bb], removed_blocks=[m.bb for m in merges]) - {e.bb}
        run.ob("EngineWorker|env-merged-before-next-frame", bool(merges) and not any(r.bb in reach for r in recv), e.sp,
               "after each evaluation the stack's environment is merged into the engine state before the next frame is received", reason="environment-lost")
        # the same long-lived engine is used for every frame
        st = strip(e.arg(0))
        run.ob("EngineWorker|long-lived-engine", any(y[0] in ("local", "phi", "field") for y in walk(st)) and not any(y[0] == "call" and y[1].fn.endswith("Clone::clone") for y in walk(st)),
               e.sp, "evaluations run on the worker's own engine state (not a per-frame clone): %s" % fmt(st)[:80], reason="environment-lost")
    for m in merges:
        st = strip(m.arg(0))
        ev_st = strip(evals[0].arg(0)) if evals else None
        run.ob("EngineWorker|merge-into-same-engine", ev_st is not None and fmt(strip(q.field_base(st) or st)) == fmt(strip(q.field_base(ev_st) or ev_st)), m.sp,
               "merge_env targets the engine the next evaluation reads")
    # one response per work item
    sends = [c for c in wb.calls() if c.bb in wb.live_blocks() and c.fn == C.ONESHOT_SEND]
    run.exact("responses per work item", len(sends), 1, wb.sp)


def r5(run):
    cb = None
    for b in run.facts.bodies_under(HANDLER + "::configure_read_options"):
        if b.is_coroutine:
            cb = b
    if cb is None:
        # an `async fn` that never awaited may have become a plain fn
        cb = run.facts.body(HANDLER + "::configure_read_options")
    if cb is None:
        run.missing(HANDLER + "::configure_read_options|body", "configure_read_options not found")
        return
    run.touch(cb)
    arms = {}
    for bb, si in cb.switches():
        if si["kind"] == "variant" and si.get("adt", "").endswith("ResumeFrom"):
            for (t, lab, m) in si["edges"]:
                if isinstance(m, str):
                    arms[m] = t
    run.ob(HANDLER + "::configure_read_options|resume-arms", set(arms) >= {"Head", "Tail", "After"}, cb.sp, "all three ResumeFrom variants are mapped (%s)" % sorted(arms))
    want = {"Head": ("None", False), "Tail": ("None", True), "After": ("Some", False)}
    for v, t in arms.items():
        reach = cb.reachable_blocks([t])
        got = None
        for bi, si, st in cb.stmt_points():
            if bi in reach and st["k"] == "assign" and st["rv"].get("agg") == "tuple" and len(st["rv"]["ops"]) == 2:
                # nearest tuple: the one whose block is dominated by this arm's edge
                if q.dominated(cb, bi, via_blocks=[t]):
                    e = cb.rvalue_expr(st["rv"])
                    a, b2 = strip(e[2][0]), strip(e[2][1])
                    got = (a[1].get("variant") if a[0] == "agg" else "?", b2[1].get("bool") if b2[0] == "const" else "?")
        if v in want:
            run.ob(HANDLER + "::configure_read_options|resume|%s" % v, got == want[v], cb.sp, "ResumeFrom::%s => (last_id, tail) = %s (expected %s)" % (v, got, want[v]), reason="resume-mapping")
    # the pair feeds the tail / last_id slots
    for (bb, e, raw) in cb.return_defs():
        info = c06.options_info(run, cb, e)
        if info["kind"] == "builder":
            st = dict(zip(c06.read_options_slots(run), info["state"]))
            run.ob(HANDLER + "::configure_read_options|slots", st.get("tail") == "Set" and st.get("last_id") == "Set" and st.get("follow") == "Set", cb.sp,
                   "follow, tail and last_id slots are set from the mapping (%s)" % st, reason="resume-mapping")
            fa = info["setters"].get("follow")
            variants = set()
            if fa is not None and fa[0] is not None:
                for o in list(q.origins(fa[0])) + [fa[0]]:
                    for y in walk(o):
                        if y[0] == "agg" and y[1].get("adt", "").endswith("FollowOption"):
                            variants.add(y[1].get("variant"))
                        if y[0] == "agg" and y[1].get("def"):
                            sub = run.facts.body(y[1]["def"])
                            if sub is not None:
                                for (rb3, e3, raw3) in sub.return_defs():
                                    for z in walk(e3):
                                        if z[0] == "agg" and z[1].get("adt", "").endswith("FollowOption"):
                                            variants.add(z[1].get("variant"))
            run.ob(HANDLER + "::configure_read_options|always-follows", bool(variants) and "Off" not in variants, cb.sp,
                   "a handler's subscription always follows the stream (On, or WithHeartbeat when a pulse is configured): %s" % sorted(variants), reason="handler-stops-after-history")
    c06.r7(run)


def r6(run):
    from . import C15 as c15
    c15.r1(run)


RULES = [
    ("R-C14-6", "own output is always recognisable: handler_id is stamped over (not under) whatever meta the closure supplied (shared with R-C15-1)", r6),
    ("R-C14-1", "own output is filtered: process_frame only on the 'meta.handler_id != self.id' edge; stamp / filter / compaction keys agree", r1),
    ("R-C14-2", "registration traffic of its own name with id <= self.id is skipped without any effect", r2),
    ("R-C14-3", "one frame at a time: no spawn below serve, processing awaited in the loop, one worker thread per handler", r3),
    ("R-C14-4", "worker loop: environment merged into the long-lived engine between evaluations; one response per item", r4),
    ("R-C14-5", "resume mapping Head/Tail/After -> (last_id, tail); subscription scoped to the handler's context", r5),
    ("R-C14-7", "a handler that falls behind is never fed past a gap: a receive error of its subscription ends the stream (shared with R-C11-7), and the handler announces .unregistered (R-C16-2)", lambda run: __import__("rules.C11", fromlist=["x"]).r7(run)),
]
