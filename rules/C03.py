"""C03 - follow delivers every frame exactly once, in order, across history -> live."""
from xsvlib.facts import fmt, strip, place_path, walk
from xsvlib import q
from . import common as C
from .store_shared import read_bodies, denotes_field, is_oneshot_await, capture_type_contains, follow_flag_edges, is_follow_flag, flag_implications
from . import C09 as c09

EXPLANATION = ("Ordering analysis of Store::read and Store::append: the broadcast subscription is taken in the read body itself and cannot "
               "be reached from the history launch; the live task waits for the hand-off, drops frames with id <= last scanned id; append stores "
               "before it broadcasts; the history thread sends the threshold after the scan and signals done last.")
NOT_DECIDED = ["exactly-once delivery as a behaviour (tokio channels, fjall snapshot)",
               "known structural gap, not claimed: an ephemeral frame broadcast after the subscription but with an id below the last scanned stored id is dropped by the dedupe"]


def spawn_of(main, target_body, *spawn_fns):
    """The spawn call in `main` whose closure/coroutine argument is `target_body`."""
    if C.THREAD_SPAWN in spawn_fns:
        spawn_fns = tuple(spawn_fns) + (C.THREAD_BUILDER_SPAWN,)
    for c in q.live_calls(main, *spawn_fns):
        for x in walk(c.arg(1) if c.fn == C.THREAD_BUILDER_SPAWN else c.arg(0)):
            if x[0] == "agg" and x[1].get("def") == target_body.def_:
                return c, x
    return None, None


def capture_operand(agg, target_body, pred):
    """Operand expression of the closure aggregate for the capture satisfying pred(capture dict, tystr)."""
    for i, cap in enumerate(target_body.captures):
        tys = target_body.types.s(cap["ty"])
        if pred(cap, tys) and i < len(agg[2]):
            return cap, agg[2][i]
    return None, None


def r1(run):
    rb = read_bodies(run)
    main, hist, live = rb["main"], rb["history"], rb["live"]
    subs = [c for c in run.facts.calls_to(C.BROADCAST_SUBSCRIBE) if C.frame_typed(c) and c.bb in c.body.live_blocks()]
    under = [c for c in subs if c.body.def_.startswith(C.READ)]
    run.exact("broadcast subscribe sites below Store::read", len(under), 1, detail=[c.sp for c in under])
    if not under or main is None or hist is None or live is None:
        run.missing("%s|bodies" % C.READ, "could not locate main/history/live bodies of Store::read (main=%s history=%s live=%s)" % (main, hist, live))
        return
    sub = under[0]
    sub_body, sub_bb = q.effective_site(run.facts, sub)   # `should_follow.then(|| tx.subscribe())` happens at the `then` call
    hs, hagg = spawn_of(main, hist, C.THREAD_SPAWN, C.TOKIO_SPAWN, C.TOKIO_SPAWN_BLOCKING)
    ls, lagg = spawn_of(main, live, C.TOKIO_SPAWN, C.THREAD_SPAWN)
    run.ob("%s|subscribe-in-read-body" % C.READ, sub_body is main, sub.sp,
           "the subscription is taken in the read body itself, not in a spawned task (%s)" % sub_body.def_, reason="subscribe-after-scan-may-start")
    if hs is None or ls is None:
        run.missing("%s|launches" % C.READ, "history / live launch sites not found in the read body", main.sp)
        return
    fe = follow_flag_edges(run, main)
    then_on_flag = False
    for c in main.calls():
        if c.bb == sub_bb and c.fn in q.IMMEDIATE_COMBINATORS and c.args:
            then_on_flag = is_follow_flag(run, main, c.arg(0))
    run.ob("%s|subscribe-iff-follow" % C.READ, sub_body is main and ((bool(fe) and q.dominated(main, sub_bb, via_edges=fe)) or then_on_flag), sub.sp,
           "the subscription is taken exactly on the `follow is On / WithHeartbeat` edge (a following read without a subscription never goes live)", reason="follow-without-subscription")
    run.ob("%s|subscribe-not-after-scan-launch" % C.READ, sub_body is main and not q.reaches(main, hs.bb, sub_bb) and hs.bb != sub_bb, sub.sp,
           "the subscription cannot be reached from the launch of the historical scan (subscribe happens-before scan)", reason="subscribe-after-scan-may-start")
    # whenever the read follows, the subscription precedes the scan launch: every path to the launch that follows passes subscribe or the not-following edge
    cap, op = capture_operand(lagg, live, lambda c, t: "tokio::sync::broadcast::Receiver" in t)
    ok = False
    if op is not None:
        for o in q.origins(op):
            if o[0] == "call" and q.same_call(o[1], sub):
                ok = True
            # through an immediately invoked closure: `flag.then(|| subscribe())`
            if o[0] == "call" and o[1].fn in q.IMMEDIATE_COMBINATORS and o[1].body is sub_body and o[1].bb == sub_bb:
                ok = True
    run.ob("%s|live-polls-that-subscription" % C.READ, ok, ls.sp, "the receiver moved into the live task originates from that subscribe call", reason="live-uses-other-subscription")
    recvs = [c for c in q.live_calls(live, C.BROADCAST_RECV)]
    for c in recvs:
        r = strip(c.arg(0))
        run.ob("%s|live-recv-on-capture" % C.READ, q.place_path(r) is not None and q.place_path(r)[0] == "<env>", c.sp, "live recv() polls the captured receiver: %s" % fmt(r))


def live_shape(run):
    rb = read_bodies(run)
    live = rb["live"]
    if live is None:
        return None
    recvs = q.live_calls(live, C.BROADCAST_RECV)
    sends = [c for c in q.live_calls(live, C.MPSC_SEND) if C.frame_typed(c)]
    return live, recvs, sends


def is_recv_frame(e):
    return any(x[0] == "call" and x[1].fn == C.BROADCAST_RECV for x in walk(e))


def is_done_value(e):
    """The (last scanned id, count) pair handed over by the history thread: the awaited value of the oneshot receiver."""
    return is_oneshot_await(e)


def r2(run):
    ls = live_shape(run)
    if ls is None:
        run.missing("%s|live-body" % C.READ, "no live task (coroutine polling broadcast recv) below Store::read")
        return
    live, recvs, sends = ls
    run.exact("broadcast recv sites in the live task", len(recvs), 1, live.sp)
    run.floor("delivery sends in the live task", len(sends), 1, live.sp)
    dedupe = []
    for bb, si in live.switches():
        if si["kind"] != "bool":
            continue
        cmp_ = q.comparison(si["cond"])
        if not cmp_:
            continue
        rel, l, r = cmp_
        if rel in ("eq", "ne"):
            continue
        if q.last_field(l) == "id" and is_recv_frame(l) and is_done_value(r):
            dedupe.append((bb, rel))
        elif q.last_field(r) == "id" and is_recv_frame(r) and is_done_value(l):
            dedupe.append((bb, q.SWAP[rel]))
    run.exact("id comparisons between the received frame and the hand-off id", len(dedupe), 1, live.sp)
    for (bb, rel) in dedupe:
        deliver = [e for e in q.edge_triples(live, bb, lambda m: True) if any(s.bb in live.reachable_blocks([e[1]], removed_blocks=[c.bb for c in recvs]) for s in sends)]
        si = live.switch_info(bb)
        truth = {(bb, t, lab): m for (t, lab, m) in si["edges"]}
        rels = sorted({q.rel_on_edge(rel, truth[e]) for e in deliver})
        run.ob("%s|live|dedupe-relation" % C.READ, rels == ["gt"], live.blocks[bb]["term"]["sp"],
               "a live frame is delivered exactly when frame.id > last scanned id (deliver edge relation: %s)" % rels, reason="dedupe-off-by-one")
        # every delivery is dominated by the deliver edge or the 'no last id' edge
        none_edges = []
        for b2, s2 in live.switches():
            if s2["kind"] == "variant" and is_done_value(s2["cond"]) and not is_recv_frame(s2["cond"]) and not (
                    s2["cond"][0] == "call" and s2["cond"][1].fn.endswith("Future::poll")) and "option::Option" in (s2.get("adt") or ""):
                for (t, lab, m) in s2["edges"]:
                    ms = m if isinstance(m, tuple) else (m,)
                    if ms == ("None",):
                        none_edges.append((b2, t, lab))
        for s in sends:
            run.ob("%s|live|dedupe-dominates-delivery" % C.READ, q.dominated(live, s.bb, via_edges=deliver + none_edges), s.sp,
                   "every delivery passes the id comparison (or the hand-off carried no id)", reason="dedupe-bypassed")


def r3(run):
    for b in C.publishers(run.facts):
        run.touch(b)
        r3_for(run, b, b.def_)


def r3_for(run, b, AP):
    cut = C.iteration_cut(b)
    sends = [c for c in q.live_calls(b, C.BROADCAST_SEND) if C.frame_typed(c)]
    from .store_shared import store_points
    pts = store_points(b)
    ins = [c for (c, es) in pts]
    run.exact("broadcast sends in %s" % AP.split("::")[-1], len(sends), 1, b.sp)
    run.floor("store points (insert_frame / spliced batch commit) in %s" % AP.split("::")[-1], len(ins), 1, b.sp)
    if not sends or not ins:
        return
    s = sends[0]
    for i in ins:
        run.ob("%s|no-store-after-broadcast" % AP, not q.reaches(b, s.bb, i.bb, removed_blocks=cut), s.sp, "insert_frame is not reachable after the broadcast", reason="broadcast-before-store")
    ok_edges = [e for (c, es) in pts for e in es]
    eph_skip = []
    guards = c09.ephemeral_guards(b)   # edges where ttl != Ephemeral
    for (bb, t, lab) in guards:
        eph_skip += q.other_edges(b, bb, [(bb, t, lab)])
    run.ob("%s|broadcast-after-store" % AP, bool(ok_edges) and q.dominated(b, s.bb, via_edges=ok_edges + eph_skip), s.sp,
           "every path to the broadcast passes the Ok edge of insert_frame or the 'ttl is Ephemeral' edge", reason="broadcast-before-store")


def r4(run):
    rb = read_bodies(run)
    h = rb["history"]
    if h is None:
        run.missing("%s|history-body" % C.READ, "history closure not found")
        return
    done = [c for c in q.live_calls(h, C.ONESHOT_SEND)]
    sends = q.live_calls(h, C.MPSC_BLOCKING_SEND)
    run.exact("done-channel sends in the history body", len(done), 1, h.sp)
    if not done:
        return
    d = done[0]
    late = [c.sp for c in sends if q.reaches(h, d.bb, c.bb)]
    run.ob("%s|history|done-is-last" % C.READ, not late, d.sp, "no frame is sent after the done signal (%s)" % late, reason="done-before-threshold")
    thr = [c for c in sends if "xs.threshold" in q.const_strs(c.arg(1))]
    run.exact("threshold send sites", len(thr), 1, h.sp)
    nxt = [c for c in h.calls() if c.fn.endswith("Iterator::next") and c.bb in h.live_blocks() and any(x[0] == "call" and x[1].fn == C.ITER_FRAMES for x in walk(c.arg(0)))]
    for t in thr:
        # after the loop: not able to reach the loop head again
        run.ob("%s|history|threshold-after-scan" % C.READ, bool(nxt) and not any(q.reaches(h, t.bb, n.bb) for n in nxt), t.sp,
               "the threshold is sent after the scan loop has finished", reason="threshold-inside-scan")
        # dominated by follow && limit.is_none()
        follow_edges, nolimit_edges = follow_flag_edges(run, h), []
        for bb, si in h.switches():
            if si["kind"] != "bool":
                continue
            c = si["cond"]
            if (c[0] == "call" and c[1].fn == "core::option::Option::<T>::is_none" and denotes_field(run, h, c, "limit")) \
                    or "nolimit" in flag_implications(run, h, c):
                nolimit_edges += q.edge_triples(h, bb, lambda m: m is True)
        run.ob("%s|history|threshold-guard" % C.READ, bool(follow_edges) and bool(nolimit_edges) and q.dominated(h, t.bb, via_edges=follow_edges)
               and q.dominated(h, t.bb, via_edges=nolimit_edges), t.sp, "the threshold is sent only when following without a limit", reason="threshold-guard")
        run.ob("%s|history|threshold-before-done" % C.READ, q.reaches(h, t.bb, d.bb), t.sp, "the done signal follows the threshold")
        ok_e, err_e = q.call_result_edges(h, t, ok=True), q.call_result_edges(h, t, ok=False)
        rets = set(h.return_blocks())
        silent = h.reachable_blocks([x for (_, x, _) in ok_e], removed_blocks=[d.bb]) & rets if ok_e else rets
        run.ob("%s|history|threshold-delivered-then-done" % C.READ, bool(ok_e) and not silent and not any(d.bb in h.reachable_blocks([x]) for (_, x, _) in err_e), t.sp,
               "after the threshold was delivered the hand-off (done) is always signalled; only a failed delivery ends the thread without it", reason="hand-off-skipped")
    # the scan finished normally => done is signalled on every path that has no failed delivery
    all_err = []
    for c in sends:
        all_err += q.call_result_edges(h, c, ok=False)
    for n in nxt:
        for bb, si in h.switches():
            sc = strip(si["cond"])
            if si["kind"] == "variant" and sc[0] == "call" and q.same_call(sc[1], n):
                none_e = [(bb, t2, lab) for (t2, lab, m) in si["edges"] if (m if isinstance(m, tuple) else (m,)) == ("None",)]
                if none_e:
                    lost = h.reachable_blocks([t2 for (_, t2, _) in none_e], removed_blocks=[d.bb], removed_edges=all_err) & set(h.return_blocks())
                    run.ob("%s|history|scan-end-reaches-done" % C.READ, not lost, h.blocks[bb]["term"]["sp"],
                           "when the scan runs to its end the thread always signals done (unless a delivery failed)", reason="hand-off-skipped")
    # the hand-off carries the last scanned id and the delivered count
    tup = strip(d.arg(1))
    okp = tup[0] == "agg" and tup[1].get("agg") == "tuple" and len(tup[2]) >= 2     # (further components may ride along: e.g. a remaining skip budget)
    run.ob("%s|history|hand-off-payload" % C.READ, okp, d.sp, "done carries (last scanned id, delivered count): %s" % fmt(tup)[:160], reason="hand-off-payload")
    if okp:
        lid = tup[2][0]
        srcs = [o for o in q.origins(lid)]
        ok = any(q.last_field(o) == "id" and any(x[0] == "call" and x[1].fn.endswith("Iterator::next") for x in walk(o)) for o in srcs)
        run.ob("%s|history|last-id-is-scanned-frame" % C.READ, ok, d.sp, "the handed-off id is an iterated frame's id", reason="hand-off-payload")


def r5(run):
    ls = live_shape(run)
    if ls is None:
        run.missing("%s|live-body" % C.READ, "live task not found")
        return
    live, recvs, sends = ls
    # edges: (a) Option<done_rx> is None, (b) awaited done_rx resolved (Ready edge of its poll)
    via = []
    for bb, si in live.switches():
        if si["kind"] != "variant":
            continue
        c = si["cond"]
        if c[0] == "call" and c[1].fn == "core::future::future::Future::poll" and "tokio::sync::oneshot::Receiver" in c[1].fnx:
            for (t, lab, m) in si["edges"]:
                if m == "Ready":
                    via.append((bb, t, lab))
        elif capture_type_contains(live, c, "tokio::sync::oneshot::Receiver") and "option::Option" in (si.get("adt") or ""):
            for (t, lab, m) in si["edges"]:
                ms = m if isinstance(m, tuple) else (m,)
                if ms == ("None",):
                    via.append((bb, t, lab))
    run.ob("%s|live|hand-off-await" % C.READ, len(via) >= 2, live.sp, "the live task awaits the done receiver (or takes the tail-mode None arm)", reason="mechanism-not-found")
    for c in recvs:
        run.ob("%s|live|waits-for-hand-off" % C.READ, bool(via) and q.dominated(live, c.bb, via_edges=via), c.sp,
               "the first live recv is reached only after the historical hand-off completed (or in tail mode)", reason="live-before-history-done")
    # Err of the done channel (history ended without signalling) ends the task without delivering
    for bb, si in live.switches():
        c = si["cond"]
        if si["kind"] == "variant" and q.awaited(strip(c)) is not None and "tokio::sync::oneshot::Receiver" in "".join(cc.fnx for cc in q.calls_in(c)):
            for (t, lab, m) in si["edges"]:
                ms = m if isinstance(m, tuple) else (m,)
                if "Err" in ms:
                    reach = live.reachable_blocks([t])
                    bad = [s.sp for s in sends if s.bb in reach] + [r.sp for r in recvs if r.bb in reach]
                    run.ob("%s|live|no-hand-off-no-live" % C.READ, not bad, live.blocks[bb]["term"]["sp"], "without a hand-off the live task delivers nothing", reason="live-without-hand-off")


def r6(run):
    from . import C11 as c11
    c11.r7(run)


def r7(run):
    from . import C11 as c11
    c11.r8(run)


RULES = [
    ("R-C03-1", "the broadcast subscription is taken in the read body, cannot follow the scan launch, and is the one the live task polls", r1),
    ("R-C03-2", "live dedupe: deliver exactly when frame.id > last scanned id; the comparison dominates every delivery", r2),
    ("R-C03-3", "append: store, then broadcast (ephemeral: broadcast only)", r3),
    ("R-C03-4", "history: scan, then threshold (following, no limit), then done - nothing after done", r4),
    ("R-C03-5", "the live task starts receiving only after the hand-off (or in tail mode)", r5),
    ("R-C03-7", "a frame the live task filters out (other context, already scanned) is skipped, never terminal (shared with R-C11-8)", r7),
    ("R-C03-6", "no silent gap: a receive error of the broadcast subscription ends the stream (shared with R-C11-7)", r6),
    ("R-C03-8", "live delivery order = id order: id assignment, commit and broadcast of EVERY append (ephemeral ones included) happen under the one append lock (shared with R-C02-1)", lambda run: __import__("rules.C02", fromlist=["x"]).r1(run)),
]
