"""C17 - restart restores exactly the active handlers, generators and commands."""
from xsvlib.facts import fmt, strip, walk
from xsvlib import q
from . import common as C
from . import frames as F

EXPLANATION = ("Type- and value-level check that every start-up / run-time registry of the three serve modules is keyed by "
               "(context id, name) with the context component coming from the frame's context_id; user code is started only after the replay "
               "phase (threshold or stream end); handler compaction removes an entry only on a matching handler_id and restarts in id order; "
               "the binary wires all loops to clones of one Store.")
NOT_DECIDED = ["that exactly the active set is restored for arbitrary histories", "ids preserved across restart (follows from replaying stored frames)"]

MODULES = ("xs::handlers::serve", "xs::generators::serve", "xs::commands::serve")
KEYED = ("insert", "get", "get_mut", "remove", "contains_key", "entry")
SCRU = "scru128::id::Scru128Id"
USER_CODE = {
    "xs::handlers::serve": ["xs::handlers::serve::start_handler"],
    "xs::generators::serve": ["xs::generators::serve::try_start_task", "xs::generators::serve::spawn"],
    "xs::commands::serve": ["xs::commands::serve::execute_command"],
}
REPLAY_EXEMPT = {
    "xs::commands::serve::handle_define": "re-registering every historical definition is what the property demands (latest definition active again); it evaluates only the definition's configuration, never a call",
}


def map_ops(run):
    out = []
    for b in run.facts.all_bodies():
        if not b.def_.startswith(MODULES) or "::tests::" in b.def_:
            continue
        for c in b.calls():
            if c.bb in b.live_blocks() and c.fn.startswith("std::collections::hash::map::HashMap::<K, V, S, A>::") and c.fn.split("::")[-1] in KEYED:
                out.append((b, c))
                run.touch(b)
    return out


def r1(run):
    ops = map_ops(run)
    run.floor("keyed registry operations in the serve modules", len(ops), 6)
    maps = set()
    for (b, c) in ops:
        fn = run.facts.enclosing_fn(b)
        m = c.fn.split("::")[-1]
        # type level: K of the HashMap instantiation
        tyargs = [a for a in c.ga if isinstance(a, int)]
        kty = b.types.s(tyargs[0]) if tyargs else "?"
        vty = b.types.s(tyargs[1]) if len(tyargs) > 1 else "?"
        kv = kty
        is_tuple_key = kty.startswith("(") and SCRU in kty and "alloc::string::String" in kty
        if not is_tuple_key and tyargs:
            # a private key struct with the same two components: { context_id: Scru128Id, <name>: String } deriving Eq + Hash
            adn = b.types.adt_name(tyargs[0])
            adt = run.facts.adt(adn) if adn else None
            if adt and adt.get("variants") and len(adt["variants"]) == 1:
                ftys = [b.types.s(f["ty"]) if isinstance(f.get("ty"), int) else str(f.get("ty") or "") for f in adt["variants"][0]["fields"]]
                fnames = [f["name"] for f in adt["variants"][0]["fields"]]
                ftxt = " ".join(str(x) for x in ftys)
                is_tuple_key = any("context" in n for n in fnames) and len(fnames) == 2 and (SCRU.split("::")[-1] in ftxt and "String" in ftxt)
                # its Eq / Hash must be the derived (field-wise) ones
                derived_ok = {"core::cmp::PartialEq": False, "core::hash::Hash": False}
                for cr in run.facts.crates:
                    for im in cr.impls:
                        if im.get("self_s") == adn or str(im.get("self_s", "")).endswith(adn.split("::")[-1]):
                            for tr in derived_ok:
                                if im.get("trait") == tr and im.get("derived"):
                                    derived_ok[tr] = True
                is_tuple_key = is_tuple_key and all(derived_ok.values())
        maps.add((run.facts.enclosing_fn(b).rsplit("::", 1)[0], vty))
        key = c.arg(1)
        origins = []
        for x in q.origins(key):
            origins.append(x)
        has_ctx = any(y[0] == "field" and y[2] == "context_id" for o in origins for y in walk(o))
        id_as_ctx = any(y[0] == "field" and y[2] == "id" for o in origins for y in walk(o)) and not has_ctx
        # a two-level registry `HashMap<Scru128Id, HashMap<String, V>>` keys by (context, name) as well: the outer level by the
        # frame's context id, the inner level - reached only through an outer lookup keyed by a context id - by the name
        nested_ok = False
        if not is_tuple_key:
            if kty == SCRU and "std::collections::hash::map::HashMap<alloc::string::String" in vty:
                nested_ok = has_ctx and not id_as_ctx
            elif kty == "alloc::string::String":
                for y in walk(c.arg(0)):
                    if y[0] == "call" and y[1].fn.startswith("std::collections::hash::map::HashMap::<K, V, S, A>::") and y[1].ga:
                        oa = [a for a in y[1].ga if isinstance(a, int)]
                        if oa and b.types.s(oa[0]) == SCRU and len(y[2]) > 1 and any(z[0] == "field" and z[2] == "context_id" for o2 in q.origins(y[2][1]) for z in walk(o2)):
                            nested_ok = True
        if nested_ok:
            run.ob("%s|%s<%s>|key" % (fn, m, vty.split("::")[-1]), True, c.sp,
                   "registry %s in %s is one level of a (context -> name -> value) map: key type %s" % (m, fn, kty[:80]), reason="registry-keyed-by-name-only")
            continue
        run.ob("%s|%s<%s>|key" % (fn, m, vty.split("::")[-1]), is_tuple_key and has_ctx and not id_as_ctx, c.sp,
               "registry %s in %s is keyed by (context_id, name): key type %s, key = %s" % (m, fn, kty[:80], fmt(strip(key))[:110]),
               reason="registry-keyed-by-name-only")
    run.floor("distinct registries (module, value type)", len(maps), 4)


def started_entry(run, mod):
    """The function of module `mod` the binary's serve() actually starts: `mod::serve`, or another entry point of the module that
    runs the same loop (`serve_with_ready(store, engine)` = the serve loop plus a readiness marker).  Rules about the loop look at
    what is started."""
    facts = run.facts
    for b in facts.bin.body_list:
        if b.def_.startswith("xsbin::serve") and (b.is_coroutine or b.kind == "Closure"):
            for c in b.calls():
                if c.bb in b.live_blocks() and c.fn.startswith(mod + "::") and c.fn.count("::") == mod.count("::") + 1:
                    eb = [x for x in facts.bodies_under(c.fn) if x.is_coroutine and x.def_ == c.fn + "::{closure#0}"]
                    if eb and q.live_calls(eb[0], C.READ):
                        return c.fn
    return mod + "::serve"


def serve_body(run, mod):
    entry = started_entry(run, mod)
    for b in run.facts.bodies_under(entry):
        if b.is_coroutine and b.def_ == entry + "::{closure#0}":
            run.touch(b)
            return b
    return None


def rule_dispatcher_shape(run, mods=MODULES):
    """A dispatcher keeps serving: its subscription follows the stream, xs.threshold ends the replay phase and leads into the live
    phase, and the live loop is left only when the stream ends (or by `?`)."""
    from . import C06 as c06
    from . import C11 as c11
    for mod in mods:
        sv = serve_body(run, mod)
        if sv is None:
            run.missing("%s::serve|body" % mod, "serve loop of %s not found" % mod)
            continue
        reads = q.live_calls(sv, C.READ)
        run.exact("Store::read subscriptions in %s::serve" % mod, len(reads), 1, sv.sp)
        for rd in reads:
            info = c06.options_info(run, sv, rd.arg(1))
            fv = None
            if info["kind"] == "builder" and "follow" in info["setters"] and info["setters"]["follow"][0] is not None:
                fv = strip(info["setters"]["follow"][0])
            run.ob("%s::serve|subscription-follows" % mod, fv is not None and fv[0] == "agg" and fv[1].get("variant") in ("On", "WithHeartbeat"), rd.sp,
                   "the dispatcher's subscription follows the stream (FollowOption::On): %s" % (fmt(fv) if fv is not None else info["kind"]), reason="dispatcher-deaf-to-new-frames")
        replay, exits = F.replay_phase(sv)
        recvs = [c for c in q.live_calls(sv, C.MPSC_RECV)]
        live = [c for c in recvs if replay is not None and not q.same_call(c, replay)]
        run.ob("%s::serve|two-phases" % mod, replay is not None and len(live) == 1, sv.sp, "one replay recv (compared with xs.threshold) and one live recv (%d / %d)" % (
            1 if replay is not None else 0, len(live)), reason="mechanism-not-found")
        if replay is None or len(live) != 1:
            continue
        lv = live[0]
        thr = F.threshold_edges(sv)
        into_live = sv.reachable_blocks([t for (_, t, _) in thr], removed_blocks=[replay.bb]) if thr else set()
        run.ob("%s::serve|threshold-ends-replay" % mod, bool(thr) and lv.bb in into_live, sv.blocks[thr[0][0]]["term"]["sp"] if thr else sv.sp,
               "on xs.threshold the replay loop is left and the live phase begins (the live recv is reached without another replay recv)", reason="replay-never-ends")
        ok_e = q.call_result_edges(sv, lv, ok=True)
        exits2 = c11.loop_exit_edges(sv, lv.bb, [t for (_, t, _) in ok_e]) if ok_e else []
        bad = []
        for (bb, t, lab, m, si) in exits2:
            cond = strip(si["cond"])
            is_try = cond[0] == "call" and cond[1].fn.endswith("Try::branch") and (set(m) if isinstance(m, tuple) else {m}) <= {"Break"}
            if not is_try:
                bad.append(sv.blocks[bb]["term"]["sp"])
        run.ob("%s::serve|live-loop-keeps-serving" % mod, bool(ok_e) and not bad, lv.sp,
               "after handling a frame the dispatcher waits for the next one: the live loop is left only when the stream ends or by `?` (%s)" % bad, reason="dispatcher-stops-serving")


def rule_generator_compaction(run):
    """Generators: a historical `<name>.spawn` frame is recorded during replay under (context, name), so the generator is
    started again after a restart; a later `.spawn.error` of that name replaces the record (nothing is restarted for it)."""
    mod = "xs::generators::serve"
    sv = serve_body(run, mod)
    if sv is None:
        run.missing("%s::serve|body" % mod, "serve loop not found")
        return
    replay, exits = F.replay_phase(sv)
    ins = [c for c in sv.calls() if c.bb in sv.live_blocks() and c.fn.endswith("::insert") and "HashMap" in c.fn and "xs::store::Frame" in c.fnx
           and not q.dominated(sv, c.bb, via_edges=exits)]
    run.exact("compaction inserts in the generator replay loop", len(ins), 1, sv.sp)
    if not ins:
        return
    i0 = ins[0]
    sp_e = F.suffix_tests(sv, ".spawn")
    er_e = F.suffix_tests(sv, ".spawn.error")
    sp_only = [e for e in sp_e if e not in er_e]
    reach = sv.reachable_blocks([t for (_, t, _) in sp_only], removed_edges=er_e, removed_blocks=[replay.bb] if replay is not None else []) if sp_only else set()
    run.ob("%s::serve|compaction|spawn-recorded" % mod, bool(sp_only) and i0.bb in reach, i0.sp,
           "a frame whose topic ends with `.spawn` reaches the compaction insert without also having to end with `.spawn.error`", reason="generator-not-restored")
    key = i0.arg(1)
    strips = set()
    for o in list(q.origins(key)) + [key]:
        for y in walk(o):
            if y[0] == "call" and y[1].fn == "core::str::<impl str>::strip_suffix":
                strips |= set(q.const_strs(y[2][1]))
            if y[0] == "agg" and y[1].get("def"):
                cb = run.facts.body(y[1]["def"])
                if cb is not None:
                    for cc in cb.calls():
                        if cc.fn == "core::str::<impl str>::strip_suffix":
                            strips |= set(q.const_strs(cc.arg(1)))
    run.ob("%s::serve|compaction|key-name" % mod, {".spawn", ".spawn.error"} <= strips and any(q.last_field(y) == "context_id" for y in walk(key)), i0.sp,
           "the record is keyed by (frame.context_id, topic without `.spawn` / `.spawn.error`): %s" % sorted(strips), reason="generator-not-restored")


def rule_lifecycle_frames_persist(run):
    """The restart compaction reads `<name>.unregistered` (handlers) and `<name>.spawn.error` (generators) back from the log: the
    system appends them with the default, persistent TTL - never with a TTL taken from user configuration (an ephemeral or
    time-limited `.unregistered` is announced live but forgotten by the next restart, which then revives the handler)."""
    n = 0
    for b in run.facts.all_bodies():
        if not b.def_.startswith(("xs::handlers::", "xs::generators::")) or "::tests" in b.def_:
            continue
        for a in F.appends_in(b):
            for suf in (".unregistered", ".spawn.error"):
                if not a.has_suffix(suf):
                    continue
                n += 1
                run.touch(b)
                t = a.setters.get("ttl")
                ok = t is None
                if t is not None:
                    x = strip(t)
                    ok = (x[0] == "agg" and x[1].get("variant") in ("Forever", "None")) or any(
                        y[0] == "agg" and y[1].get("adt", "").endswith("TTL") and y[1].get("variant") == "Forever" for y in walk(t)) and not any(
                        y[0] == "field" for y in walk(t))
                run.ob("%s|%s|persistent" % (run.facts.enclosing_fn(b), suf), ok, a.call.sp,
                       "`<name>%s` is appended with the default (persistent) TTL%s" % (suf, "" if t is None else ": ttl = %s" % fmt(strip(t))[:80]), reason="lifecycle-frame-not-persistent")
    run.floor("appends of lifecycle frames the restart compaction reads (.unregistered / .spawn.error)", n, 4)


def r2(run):
    for mod in MODULES:
        sv = serve_body(run, mod)
        if sv is None:
            run.missing("%s::serve|body" % mod, "serve loop of %s not found" % mod)
            continue
        replay, exits = F.replay_phase(sv)
        run.ob("%s::serve|replay-phase" % mod, replay is not None and len(exits) >= 2, sv.sp, "the module replays history up to xs.threshold before acting", reason="mechanism-not-found")
        if replay is None:
            continue
        # user-code sites: direct calls and spawned tasks that run user code
        sites = []
        for c in sv.calls():
            if c.bb not in sv.live_blocks():
                continue
            if c.fn in USER_CODE[mod]:
                sites.append((c, c.fn))
            if c.fn in (C.TOKIO_SPAWN, C.TOKIO_SPAWN_BLOCKING) + C.THREAD_SPAWNS:
                for x in walk(c.arg(1) if c.fn == C.THREAD_BUILDER_SPAWN else c.arg(0)):
                    if x[0] == "agg" and x[1].get("def"):
                        tb = run.facts.body(x[1]["def"])
                        if tb is not None and any(cc.fn in USER_CODE[mod] for cc in tb.calls()):
                            sites.append((c, "spawn(%s)" % [cc.fn.split("::")[-1] for cc in tb.calls() if cc.fn in USER_CODE[mod]][0]))
        run.floor("user-code start sites in %s::serve" % mod, len(sites), 1, sv.sp)
        for (c, what) in sites:
            run.ob("%s::serve|after-replay|%s@%s" % (mod, what.split("::")[-1], "live" if any(y[0] == "call" and y[1].fn == C.MPSC_RECV and not q.same_call(y[1], replay) for a in c.arg_exprs() for y in walk(a)) else "compacted"),
                   q.dominated(sv, c.bb, via_edges=exits), c.sp,
                   "%s is reachable only after the replay phase ended (threshold seen or stream ended): historical triggers are compacted, not executed" % what.split("::")[-1],
                   reason="history-re-executed")
        # calls to exempt functions inside the replay loop are listed
        for c in sv.calls():
            if c.bb in sv.live_blocks() and c.fn in REPLAY_EXEMPT and not q.dominated(sv, c.bb, via_edges=exits):
                run.ob("%s::serve|replay-exempt|%s" % (mod, c.fn.split("::")[-1]), True, c.sp, "EXEMPT during replay: %s" % REPLAY_EXEMPT[c.fn])
    # commands: `.call` frames are dispatched only from the live recv
    sv = serve_body(run, "xs::commands::serve")
    if sv is not None:
        replay, exits = F.replay_phase(sv)
        call_edges = F.suffix_tests(sv, ".call")
        run.ob("xs::commands::serve::serve|call-dispatch", len(call_edges) >= 1 and all(q.dominated(sv, e[0], via_edges=exits) for e in call_edges), sv.sp,
               "`.call` frames are recognised only in the live loop (%d test(s))" % len(call_edges), reason="history-re-executed")


def r3(run):
    sv = serve_body(run, "xs::handlers::serve")
    if sv is None:
        run.missing("xs::handlers::serve::serve|body", "handlers::serve not found")
        return
    removes = [c for c in sv.calls() if c.bb in sv.live_blocks() and (c.fn.endswith(("HashMap::<K, V, S, A>::remove", "HashMap::<K, V, S, A>::remove_entry"))
                                                                      or ("OccupiedEntry" in c.fn and c.fn.endswith(("::remove", "::remove_entry"))))]
    run.floor("compaction removes in handlers::serve", len(removes), 1, sv.sp)
    eq_edges = []
    for bb, si in sv.switches():
        if si["kind"] != "bool":
            continue
        cmp_ = q.comparison(si["cond"])
        if not cmp_:
            # `map.get(&key).is_some_and(|state| state.handler_id == handler_id)`: true edge = an entry exists and the comparison holds
            cnd = strip(si["cond"])
            if cnd[0] == "call" and cnd[1].fn == "core::option::Option::<T>::is_some_and" and len(cnd[2]) == 2:
                clo = strip(cnd[2][1])
                cb = run.facts.body(clo[1].get("def")) if clo[0] == "agg" and clo[1].get("def") else None
                rets = cb.return_defs() if cb is not None else []
                inner = q.comparison(rets[0][1]) if len(rets) == 1 else None
                from .store_shared import subst_env
                if not inner and len(rets) == 1:
                    # the closure hands its arguments to a crate-local bool helper (`is_handler_id(register_frame, handler_id)`)
                    r0 = strip(rets[0][1])
                    hb_ = run.facts.body(r0[1].fn) if r0[0] == "call" and r0[1].local else None
                    hr = hb_.return_defs() if hb_ is not None and not hb_.is_coroutine else []
                    hin = q.comparison(hr[0][1]) if len(hr) == 1 else None
                    if hin and hin[0] == "eq":
                        inner = ("eq", q.subst_args(hin[1], r0[2]), q.subst_args(hin[2], r0[2]))
                if inner and inner[0] == "eq":
                    cmp_ = ("eq", subst_env(run, cb, inner[1]), subst_env(run, cb, inner[2]))
        if cmp_ and cmp_[0] in ("eq", "ne"):
            a, b2 = cmp_[1], cmp_[2]
            def stored_id(x):
                """the retained registration's own handler id: its `handler_id` field, or - when the retained value is the
                `.register` frame itself - that frame's `id` (as text)"""
                if q.last_field(x) == "handler_id":
                    return True
                return any(y[0] == "field" and y[2] == "id" for y in walk(x)) and any(y[0] == "call" and y[1].fn.startswith("std::collections::hash::map::HashMap") for y in walk(x)) \
                    and not any(y[0] == "call" and y[1].fn.endswith("Value::get") for y in walk(x))
            if any(stored_id(x) for x in (a, b2)):
                other = b2 if stored_id(a) else a
                from_meta = "handler_id" in q.const_strs(other) or any(y[0] == "agg" and y[1].get("agg") == "closure" for y in walk(other))
                if from_meta or any(y[0] == "call" and y[1].fn.endswith("Value::get") for y in walk(other)):
                    eq_edges += q.edge_triples(sv, bb, lambda m, rel=cmp_[0]: m is (rel == "eq"))
    for c in removes:
        run.ob("xs::handlers::serve::serve|remove-only-matching-id", bool(eq_edges) and q.dominated(sv, c.bb, via_edges=eq_edges), c.sp,
               "a compacted registration is dropped only when the (un)registered frame's handler_id equals the stored one", reason="compaction-drops-wrong-handler")
    unreg_edges = []
    for bb, si in sv.switches():
        pass
    sorts = [c for c in sv.calls() if c.bb in sv.live_blocks() and c.fn.split("::")[-1] in ("sort_by_key", "sort_unstable_by_key", "sort_by_cached_key", "sort_by", "sort_unstable_by")]
    run.exact("sort_by_key on the survivors", len(sorts), 1, sv.sp)
    for c in sorts:
        clo = strip(c.arg(1))
        cb = run.facts.body(clo[1]["def"]) if clo[0] == "agg" and clo[1].get("def") else None
        ok = False
        if cb is not None:
            run.touch(cb)
            by_cmp = c.fn.split("::")[-1] in ("sort_by", "sort_unstable_by")
            for (bb, e, raw) in cb.return_defs():
                if by_cmp:
                    # `sort_by(|a, b| a.register_frame.id.cmp(&b.register_frame.id))`: ascending = the first parameter's id on the left
                    x = strip(e)
                    if x[0] == "call" and x[1].fn in ("core::cmp::Ord::cmp",) and len(x[2]) == 2:
                        def side(y):
                            args_ = [z[1] for z in walk(y) if z[0] == "arg"]
                            return (q.last_field(y) == "id" and (any(z[0] == "field" and z[2] == "register_frame" for z in walk(y)) or True), args_[0] if len(set(args_)) == 1 else None)
                        (lo, la), (ro, ra) = side(x[2][0]), side(x[2][1])
                        if lo and ro and la == 2 and ra == 3:
                            ok = True
                    continue
                if q.last_field(e) == "id" and any(y[0] == "field" and y[2] == "register_frame" for y in walk(e)):
                    ok = True
                # the survivors are the `.register` frames themselves: ordered by the element's own id
                base = strip(q.field_base(e) or ("none",))
                n_ = 0
                while base[0] in ("ref", "deref") and n_ < 4:
                    base = base[1]
                    n_ += 1
                if q.last_field(e) == "id" and base[0] == "arg" and C.FRAME in cb.local_tystr(base[1]):
                    ok = True
        run.ob("xs::handlers::serve::serve|restart-in-id-order", ok, c.sp, "surviving registrations are restarted ordered by their register frame id", reason="restart-order")
        starts = [s for s in sv.calls() if s.fn.endswith("start_handler") and s.bb in sv.live_blocks() and any(y[0] == "field" and y[2] == "register_frame" for a in s.arg_exprs() for y in walk(a))]
        run.ob("xs::handlers::serve::serve|sorted-before-start", bool(starts) and all(q.dominated(sv, s.bb, via_blocks=[c.bb]) for s in starts), c.sp,
               "the sort precedes the restart loop", reason="restart-order")


def r4(run):
    facts = run.facts
    sb = None
    for b in facts.bin.body_list:
        if b.def_.startswith("xsbin::serve::{closure#0}") and b.is_coroutine and q.live_calls(b, C.NEW):
            sb = b
    if sb is None:
        run.missing("xsbin::serve|body", "the binary's serve() (calling Store::new) not found")
        return
    run.touch(sb)
    news = q.live_calls(sb, C.NEW)
    run.exact("Store::new calls in the binary's serve", len(news), 1, sb.sp)
    wanted = {started_entry(run, "xs::generators::serve"): False, started_entry(run, "xs::handlers::serve"): False,
              started_entry(run, "xs::commands::serve"): False, "xs::api::serve": False}
    for b in [sb] + facts.closures_under(sb.def_):
        for c in b.calls():
            if c.fn in wanted and c.bb in b.live_blocks():
                a0 = c.arg(0)
                from_new = any(y[0] == "call" and y[1].fn == C.NEW for y in walk(a0))
                from_cap = any(y[0] == "field" and y[1][0] == "env" and y[2] == "store" for y in walk(a0))
                ok = from_new
                if from_cap and b is not sb:
                    # capture `store` of the spawned task = clone of the one Store in the parent
                    for pc in q.live_calls(sb, C.TOKIO_SPAWN, *C.THREAD_SPAWNS):
                        for x in walk(pc.arg(1) if pc.fn == C.THREAD_BUILDER_SPAWN else pc.arg(0)):
                            if x[0] == "agg" and x[1].get("def") == b.def_:
                                for i, cap in enumerate(b.captures):
                                    if cap["name"] == "store" and i < len(x[2]):
                                        ok = any(y[0] == "call" and y[1].fn == C.NEW for y in walk(x[2][i]))
                wanted[c.fn] = wanted[c.fn] or ok
                run.ob("xsbin::serve|wires|%s" % c.fn.split("::")[-3], ok, c.sp, "%s runs on (a clone of) the one Store opened by serve" % c.fn, reason="separate-stores")
    for k, v in wanted.items():
        if not v:
            run.ob("xsbin::serve|starts|%s" % k.split("::")[-3], False, sb.sp, "%s is not started by the binary's serve" % k, reason="module-not-started")


def r5(run):
    from . import C19 as c19
    c19.r6(run)


RULES = [
    ("R-C17-5", "commands: every historical .define is re-registered in order during replay (latest valid definition restored; shared with R-C19-6)", r5),
    ("R-C17-1", "every registry of the handlers / generators / commands modules is keyed by (context_id, name)", r1),
    ("R-C17-6", "dispatchers keep serving: following subscription, xs.threshold ends the replay and starts the live phase, the live loop ends only with the stream", rule_dispatcher_shape),
    ("R-C17-7", "generators: historical .spawn frames are recorded under (context, name) during replay (a later .spawn.error replaces the record)", rule_generator_compaction),
    ("R-C17-8", "the system frames the restart compaction reads (.unregistered, .spawn.error) are appended with the default persistent TTL, never a user-configured one", rule_lifecycle_frames_persist),
    ("R-C17-2", "user code (handlers, generators, command calls) is started only after the replay phase; history is compacted, not executed", r2),
    ("R-C17-3", "handler compaction drops an entry only on a matching handler_id and restarts survivors in register-id order", r3),
    ("R-C17-4", "the binary starts all three modules and the API on clones of one Store", r4),
]
