"""Describe the frames a body appends: topic (literal pieces of format!), meta keys (json! inserts), context, ttl, hash."""
import re
from xsvlib.facts import fmt, strip, walk, FactError
from xsvlib import q
from . import common as C

MAP_INSERT = "serde_json::map::Map::<alloc::string::String, serde_json::value::Value>::insert"
MAP_INSERT_FN = "serde_json::map::Map::insert"


def decode_format_pieces(hexbytes):
    """Literal pieces of a `format_args!` template as encoded by this nightly (length-prefixed runs, >=0x80 = placeholder ops)."""
    b = bytes.fromhex(hexbytes)
    out = []
    i = 0
    n = len(b)
    while i < n:
        x = b[i]
        i += 1
        if x == 0:
            break
        if x < 0x80:
            out.append(("lit", b[i:i + x].decode("utf-8", "replace")))
            i += x
        else:
            out.append(("arg", x))
            # placeholders with explicit options carry extra bytes; 0xc0 is the plain `{}`
            if x != 0xc0:
                # conservative: stop decoding structured options, fall back to printable runs
                rest = b[i:]
                for m in re.finditer(rb"[\x20-\x7e]{2,}", rest):
                    out.append(("lit", m.group().decode()))
                break
    return out


def string_pieces(e):
    """(literals, args) of a String-valued expression: const &str, format!(..), or x.to_string()."""
    x = q.peel(e)
    # peel must_use / format wrappers
    n = 0
    while x[0] == "call" and x[1].fn in ("core::hint::must_use", "alloc::fmt::format") and n < 5:
        x = q.peel(x[2][0])
        n += 1
    if x[0] == "const" and "str" in x[1]:
        return [x[1]["str"]], []
    if x[0] == "call" and x[1].fn.startswith("core::fmt::Arguments::<'a>::new"):
        tmpl = strip(x[2][0])
        pieces = decode_format_pieces(tmpl[1]["bytes"]) if tmpl[0] == "const" and "bytes" in tmpl[1] else []
        args = []
        for y in walk(x[2][1]) if len(x[2]) > 1 else []:
            if y[0] == "call" and y[1].fn.startswith("core::fmt::rt::Argument::<'_>::new_"):
                args.append(strip(y[2][0]))
        # an argument that is itself a string literal (a `suffix: &str` parameter of a spliced helper, a named const) is text too:
        # fold it into the literal pieces at its position
        lits, k = [], 0
        simple = all(p[0] == "lit" or p[1] == 0xc0 for p in pieces)
        for p in pieces:
            if p[0] == "lit":
                lits.append(p[1])
            elif simple and k < len(args):
                a = q.peel(args[k])
                k += 1
                if a[0] == "const" and "str" in a[1]:
                    if lits and pieces and pieces[pieces.index(p) - 1][0] == "lit" and pieces.index(p) > 0:
                        lits[-1] = lits[-1] + a[1]["str"]
                    else:
                        lits.append(a[1]["str"])
        return lits, args
    if x[0] == "call" and x[1].fn.startswith("core::fmt::Arguments::<'a>::from_str"):
        return q.const_strs(x), []
    seq = _concat_pieces(x, 0)
    if seq is not None and len(seq) > 1:
        # `[a, b].join(".")`, `[a, ".x"].concat()`, `a.to_owned() + ".x"`: the same text as `format!("{}.x", a)`
        lits, args = [], []
        for (k, v) in seq:
            if k == "lit":
                if lits and lits[-1][1]:
                    lits[-1][0] += v
                else:
                    lits.append([v, True])
            else:
                args.append(v)
                if lits:
                    lits[-1][1] = False
        return [l[0] for l in lits], args
    return q.const_strs(x), [x]


_STR_VIEWS = ("alloc::string::String::as_str", "alloc::borrow::ToOwned::to_owned", "alloc::string::ToString::to_string", "core::clone::Clone::clone",
              "core::convert::From::from", "core::convert::Into::into", "core::ops::deref::Deref::deref", "core::convert::AsRef::as_ref",
              "core::borrow::Borrow::borrow", "alloc::str::<impl str>::to_string", "alloc::str::<impl str>::to_owned")


def _concat_pieces(e, depth):
    """[("lit", text) | ("arg", expr)] in order for a string put together by `+`, `concat` or `join`; None when it is none of those."""
    x = q.peel(e)
    if depth > 6:
        return None
    if x[0] == "const" and "str" in x[1]:
        return [("lit", x[1]["str"])]
    if x[0] == "call":
        fn, args = x[1].fn, x[2]
        if fn in _STR_VIEWS and len(args) == 1 and ("str" in (x[1].res or x[1].fnx or "") or "String" in (x[1].res or x[1].fnx or "") or fn == "alloc::string::String::as_str"):
            inner = _concat_pieces(args[0], depth + 1)
            return inner if inner is not None and (len(inner) > 1 or inner[0][0] == "lit") else [("arg", strip(args[0]))]
        if fn == "core::ops::arith::Add::add" and len(args) == 2 and "String" in (x[1].res or x[1].fnx or ""):
            l, r = _concat_pieces(args[0], depth + 1), _concat_pieces(args[1], depth + 1)
            return (l or [("arg", strip(args[0]))]) + (r or [("arg", strip(args[1]))])
        if fn in ("alloc::slice::<impl [T]>::join", "alloc::slice::<impl [T]>::concat") and args:
            arr = q.peel(args[0])
            n = 0
            while arr[0] in ("cast", "ref", "deref") and n < 6:
                arr = q.peel(arr[1])
                n += 1
            if arr[0] != "agg" or arr[1].get("agg") != "array":
                return None
            sep = None
            if fn.endswith("::join"):
                sep = _concat_pieces(args[1], depth + 1)
                if sep is None or len(sep) != 1 or sep[0][0] != "lit":
                    return None
            out = []
            for i, item in enumerate(arr[2]):
                if i and sep:
                    out += sep
                out += _concat_pieces(item, depth + 1) or [("arg", strip(item))]
            return out
    return None


def map_inserts(body, raw_operand):
    """[(key, value_expr, call)] of serde_json Map inserts on the map local behind raw_operand (json!({..}))."""
    l = q.root_local(body, raw_operand)
    out = []
    if l is None:
        return out
    for c in body.calls():
        if c.bb not in body.live_blocks():
            continue
        if c.fn.startswith("serde_json::map::Map") and c.fn.endswith("::insert") and q.root_local(body, c.args[0]) == l:
            keys = q.const_strs(c.arg(1))
            out.append((keys[0] if keys else None, c.arg(2), c))
    return out


class _AfterLoop:
    """Stands for `the point where the loop over the literal pairs has finished` as the site of the inserts it makes."""
    def __init__(self, call, bb):
        self.fn, self.fnx, self.res, self.sp, self.body, self.bb, self.args, self.dest, self.exp = call.fn, call.fnx, call.res, call.sp, call.body, bb, call.args, call.dest, call.exp
        self._call = call

    def arg(self, i):
        return self._call.arg(i)

    def arg_exprs(self):
        return self._call.arg_exprs()

    def from_macro(self):
        return False


def _insert_over_literal_pairs(body, c):
    NEXT = "core::iter::traits::iterator::Iterator::next"
    nx = [y[1] for y in walk(c.arg(1)) if y[0] == "call" and y[1].fn == NEXT]
    if len(nx) != 1 or nx[0].body is not body:
        return None
    n = nx[0]
    arr = None
    for y in walk(n.arg(0)):
        if y[0] == "agg" and y[1].get("agg") == "array" and y[2] and all(strip(t)[0] == "agg" and strip(t)[1].get("agg") == "tuple" and len(strip(t)[2]) == 2 for t in y[2]):
            arr = y
    if arr is None:
        return None
    some_e, none_e = [], []
    for bb, si in body.switches():
        cnd = strip(si["cond"])
        if si["kind"] == "variant" and cnd[0] == "call" and q.same_call(cnd[1], n):
            some_e += q.edge_triples(body, bb, lambda m: m == "Some")
            none_e += q.edge_triples(body, bb, lambda m: m == "None" or (isinstance(m, tuple) and "None" in m))
    if not some_e or len(none_e) != 1:
        return None
    inside = body.reachable_blocks([t for (_, t, _) in some_e], removed_blocks=[n.bb])
    if none_e[0][1] in inside or any(r in inside for r in body.return_blocks()) or c.bb not in inside:
        return None      # the loop body can be left other than through the next step: not every pair is written
    if not q.dominated(body, n.bb, via_blocks=[c.bb]) and body.reachable_blocks([t for (_, t, _) in some_e], removed_blocks=[n.bb, c.bb]) & {n.bb}:
        pass
    skip = body.reachable_blocks([t for (_, t, _) in some_e], removed_blocks=[c.bb])
    if n.bb in skip:
        return None      # a pair can go round without being inserted
    shim = _AfterLoop(c, none_e[0][1])
    out = []
    for t in arr[2]:
        tt = strip(t)
        ks = q.const_strs(tt[2][0])
        if not ks:
            return None
        val = tt[2][1]
        # the value stored is `wrap(v)` of the pair's second component (e.g. Value::String(v)): keep the wrapper, substitute the component
        out.append((ks[0], val, c.arg(0), shim))
    return out


def map_writes(body):
    """[(key, value_expr, receiver_expr, call)] for every live write of a constant key into a serde_json Map in this body:
    `m.insert("k", v)`, and `m.extend(src)` where src is (a clone of) `Map::from_iter([("k", v), ..])`."""
    out = []
    for c in body.calls():
        if c.bb not in body.live_blocks():
            continue
        if c.fn.startswith("serde_json::map::Map") and c.fn.endswith("::insert"):
            keys = q.const_strs(c.arg(1))
            looped = _insert_over_literal_pairs(body, c)
            if looped:
                # `for (k, v) in [("a", x), ("b", y)] { m.insert(k.to_string(), v) }`: one write per pair, all of them done when the
                # loop is left (it has no other way out)
                out += looped
            elif keys:
                out.append((keys[0], c.arg(2), c.arg(0), c))
        elif c.fn == "core::iter::traits::collect::Extend::extend" and (c.res or "").startswith("<serde_json::map::Map<"):
            src = strip(c.arg(1))
            n = 0
            while src[0] == "call" and src[1].fn.endswith("Clone>::clone") and n < 4:
                src = strip(src[2][0])
                n += 1
            if not (src[0] == "call" and src[1].fn == "core::iter::traits::collect::FromIterator::from_iter" and (src[1].res or "").startswith("<serde_json::map::Map<")):
                continue
            chain = {src[1].dest["l"]}
            for _ in range(3):
                for l, ds in body.defs().items():
                    if len(ds) == 1 and ds[0][0] == "assign" and "use" in ds[0][3]:
                        pl = ds[0][3]["use"].get("move") or ds[0][3]["use"].get("copy")
                        if pl and not pl["p"] and pl["l"] in chain:
                            chain.add(l)
            if chain & body.mut_borrowed():
                continue     # the source map is edited after it is built: its keys are not known
            arr = strip(src[2][0])
            if arr[0] != "agg" or arr[1].get("agg") != "array":
                continue
            for item in arr[2]:
                it = strip(item)
                if it[0] == "agg" and it[1].get("agg") == "tuple" and len(it[2]) == 2:
                    keys = q.const_strs(it[2][0])
                    if keys:
                        out.append((keys[0], it[2][1], c.arg(0), c))
    return out


def _typed_meta(body, x):
    """{key: value_expr} for `serde_json::to_value(&Struct { .. }).unwrap()` with a local `#[derive(Serialize)]` struct: the keys
    are read off the derived `serialize` (the string handed to each `serialize_field` together with the field it reads), the
    values off the struct literal.  None for anything else (a hand-written impl with conditions, a struct that came from elsewhere)."""
    n = 0
    while x[0] == "call" and x[1].fn in ("core::result::Result::<T, E>::unwrap", "core::result::Result::<T, E>::expect") and x[2] and n < 2:
        x = q.peel(x[2][0])
        n += 1
    if not (x[0] == "call" and x[1].fn.startswith("serde_json::value::to_value") and x[2]):
        return None
    a = q.peel(x[2][0])
    k = 0
    while a[0] in ("ref", "deref", "copy", "move") and k < 6:
        a = q.peel(a[1])
        k += 1
    if not (a[0] == "agg" and a[1].get("agg") == "adt" and str(a[1].get("adt", "")).startswith(("xs::", "xsbin::"))):
        return None
    adt = a[1]["adt"]
    fields = a[1].get("fields") or []
    ser = None
    want = ("<impl serde::ser::Serialize for %s>::serialize" % adt, "<%s as serde::ser::Serialize>::serialize" % adt)
    for cr in getattr(body.crate, "siblings", [body.crate]):
        for d_, sb in cr.bodies.items():
            if d_.endswith(want):
                ser = ser or sb
    if ser is None:
        return None
    out = {}
    live = ser.live_blocks()
    if any(si["kind"] != "variant" or not str(si.get("adt", "")).startswith(("core::result::Result", "core::ops::control_flow::ControlFlow"))
           for bb, si in ser.switches() if bb in live):
        return None        # only the plain derived shape: a sequence of `serialize_field(..)?`
    for c in ser.calls():
        if c.bb in live and c.fn.endswith("SerializeStruct::serialize_field") and len(c.args) >= 3:
            key = q.const_strs(c.arg(1))
            fld = q.last_field(c.arg(2))
            if len(key) != 1 or fld not in fields:
                return None
            out[key[0]] = a[2][fields.index(fld)]
    return out if len(out) == len(fields) else None


def meta_keys(body, meta_expr):
    """{key: value_expr} for a meta argument built with json!({..}); None if it is not a json! object."""
    x = q.peel(meta_expr)
    typed = _typed_meta(body, x)
    if typed is not None:
        return typed
    n_ = 0
    while x[0] == "call" and x[1].fn.endswith("Clone>::clone") and x[2] and n_ < 3:
        x = q.peel(x[2][0])
        n_ += 1
    is_obj = x[0] == "agg" and x[1].get("adt") == "serde_json::value::Value" and x[1].get("variant") == "Object"
    # a Value that came from elsewhere (a configured base meta, `unwrap_or_else(|| json!({}))`) and gets its stamps afterwards
    # through `meta["key"] = ..`: the keys assigned that way are known (and override whatever the base carried)
    from_call = x[0] == "call" and "serde_json::value::Value" in (x[1].fnx or "") and not x[1].dest["p"]
    if is_obj or from_call:
        ins = map_inserts(body, x[1]["ops"][0]) if is_obj else []
        out = {k: v for (k, v, c) in ins if k is not None}
        # `let mut meta = json!({..}); meta["error"] = v;` - keys added afterwards through IndexMut (only the live ones count:
        # a key set under `if let Some(e) = error` is there exactly on the paths where that arm is feasible)
        home = x[1].dest["l"] if from_call and not is_obj else None
        for bi, b in enumerate(body.blocks):
            for st in b["stmts"]:
                if is_obj and st["k"] == "assign" and st["rv"] is x[1] and not st["lhs"]["p"]:
                    home = st["lhs"]["l"]
        if home is not None:
            same = q.move_aliases(body, home)
            body.defs()
            for c in body.calls():
                if c.bb not in body.live_blocks() or c.fn != "core::ops::index::IndexMut::index_mut" or "serde_json::value::Value" not in (c.res or c.fnx):
                    continue
                if q.root_local(body, c.args[0]) not in same or c.dest["p"]:
                    continue
                keys = q.const_strs(c.arg(1))
                if not keys:
                    continue
                val = None
                for (bi, si, lhs, rv, sp) in body.field_writes:
                    if lhs["l"] == c.dest["l"] and lhs["p"] == ["*"] and bi in body.live_blocks():
                        val = body.rvalue_expr(rv)
                out[keys[0]] = val if val is not None else ("opaque", "assigned through IndexMut")
        return out
    return None


class Append:
    def __init__(self, body, call):
        self.body = body
        self.call = call
        frame = call.arg(1)
        self.frame_expr = frame
        self.start, self.chain = q.builder_chain(q.peel(frame))
        self.topic_lits, self.topic_args = ([], [])
        self.context = None
        if self.start is not None and len(self.start[2]) >= 2:
            self.topic_lits, self.topic_args = string_pieces(self.start[2][0])
            self.context = self.start[2][1]
        self.setters = {}
        for (name, arg, cc) in self.chain:
            self.setters[name.replace("maybe_", "")] = arg
        self.meta = meta_keys(body, self.setters["meta"]) if "meta" in self.setters and self.setters["meta"] is not None else None

    def suffix(self):
        return self.topic_lits[-1] if self.topic_lits else None

    def has_suffix(self, s):
        return any(l.endswith(s) for l in self.topic_lits)

    def __repr__(self):
        return "<append %s meta=%s @%s>" % (self.topic_lits, sorted(self.meta) if self.meta else None, self.call.sp)


CAS_PRODUCERS = ("cacache::put::Writer::commit", "cacache::put::SyncWriter::commit", "xs::store::Store::cas_insert", "xs::store::Store::cas_insert_sync",
                 "xs::nu::util::write_pipeline_to_cas")


def frame_builds(body):
    """[(build_call, start, setters{name: arg})] for every Frame builder chain finished in `body`."""
    out = []
    for c in body.calls():
        if c.bb in body.live_blocks() and c.fn.startswith("xs::store::FrameBuilder") and c.fn.endswith("::build"):
            start, chain = q.builder_chain(("call", c, c.arg_exprs()))
            setters = {}
            for (name, arg, cc) in chain:
                setters[name.replace("maybe_", "")] = arg
            out.append((c, start, setters))
    return out


def content_sources(arg, facts=None, depth=0):
    """CAS-producing calls the value of a `hash` setter comes from (looking through crate-local helpers that return it)."""
    if arg is None:
        return []
    found = []
    for o in list(q.origins(arg)) + [arg]:
        for y in walk(o):
            if y[0] != "call":
                continue
            if y[1].fn in CAS_PRODUCERS:
                found.append(y[1])
            elif y[1].local and facts is not None and depth < 3:
                fb = facts.body(y[1].fn)
                cands = []
                if fb is not None:
                    rets = fb.return_defs()
                    if len(rets) == 1 and strip(rets[0][1])[0] == "agg" and strip(rets[0][1])[1].get("agg") == "coroutine":
                        inner = facts.body(strip(rets[0][1])[1]["def"])
                        cands = [inner] if inner is not None else []
                    else:
                        cands = [fb]
                for cb in cands:
                    for (bb, e, raw) in cb.return_defs():
                        found += content_sources(e, facts, depth + 1)
    return found


def appends_in(body):
    return [Append(body, c) for c in q.live_calls(body, C.APPEND)]


def suffix_tests(body, suffix):
    """Edges on which `<x>.topic` is known to end with / equal a literal containing `suffix`:
    strip_suffix(lit) Some-edges, ends_with(lit) true-edges, `topic == format!("{}<lit>")` true-edges, match arms on rsplit suffix."""
    edges = []
    for bb, si in body.switches():
        cond = si["cond"]
        if si["kind"] == "variant":
            x = q.peel(cond) if cond[0] != "call" else cond
            if x[0] == "call" and x[1].fn == "core::str::<impl str>::strip_suffix" and suffix in q.const_strs(x[2][1]):
                for (t, lab, m) in si["edges"]:
                    if m == "Some":
                        edges.append((bb, t, lab))
        elif si["kind"] == "bool":
            if cond[0] == "call" and cond[1].fn == "core::str::<impl str>::ends_with" and suffix in q.const_strs(cond[2][1]):
                edges += q.edge_triples(body, bb, lambda m: m is True)
            else:
                cmp_ = q.comparison(cond)
                if cmp_ and cmp_[0] in ("eq", "ne"):
                    lits = []
                    for s in (cmp_[1], cmp_[2]):
                        ls, _ = string_pieces(s)
                        lits += ls
                    if any(l == suffix or l.endswith(suffix) for l in lits):
                        edges += q.edge_triples(body, bb, lambda m, rel=cmp_[0]: m is (rel == "eq"))
    return edges


def json_src(e):
    """The Rust value a json!() leaf was made from: peels to_value / to_string / unwrap wrappers."""
    x = q.peel(e)
    n = 0
    while n < 10:
        n += 1
        if x[0] == "call" and x[1].fn in ("serde_json::value::to_value",) and x[2]:
            x = q.peel(x[2][0])
            continue
        if x[0] == "call" and x[1].fn.endswith("::to_string") and x[2]:
            x = q.peel(x[2][0])
            continue
        if x[0] == "agg" and x[1].get("adt") == "serde_json::value::Value" and x[1].get("variant") in ("String", "Number", "Bool") and len(x[2]) == 1:
            x = q.peel(x[2][0])      # `Value::String(id.to_string())` written directly (e.g. through `meta["k"] = ..`)
            continue
        break
    return x


def threshold_edges(body):
    """True edges of `frame.topic == "xs.threshold"` tests."""
    out = []
    for bb, si in body.switches():
        if si["kind"] != "bool":
            continue
        cmp_ = q.comparison(si["cond"])
        if cmp_ and cmp_[0] in ("eq", "ne") and "xs.threshold" in q.const_strs(si["cond"]):
            out += q.edge_triples(body, bb, lambda m, rel=cmp_[0]: m is (rel == "eq"))
    return out


def replay_phase(body):
    """(replay_recv_call, exit_edges): the recv whose frames are compared with xs.threshold, and the edges that end the
    replay phase: threshold reached, or the stream ended (recv() == None)."""
    replay = None
    for bb, si in body.switches():
        if si["kind"] != "bool":
            continue
        cmp_ = q.comparison(si["cond"])
        if cmp_ and "xs.threshold" in q.const_strs(si["cond"]):
            for y in walk(si["cond"]):
                if y[0] == "call" and y[1].fn == C.MPSC_RECV:
                    replay = y[1]
    if replay is None:
        return None, []
    exits = threshold_edges(body)
    for bb, si in body.switches():
        if si["kind"] == "variant":
            u = q.unawait(si["cond"])
            if u[0] == "call" and q.same_call(u[1], replay) and not (si["cond"][0] == "call" and si["cond"][1].fn.endswith("Future::poll")):
                for (t, lab, m) in si["edges"]:
                    ms = m if isinstance(m, tuple) else (m,)
                    if ms == ("None",):
                        exits.append((bb, t, lab))
    return replay, exits
