"""C08 - nothing disappears before its retention policy allows."""
from xsvlib.facts import fmt, strip, place_path, walk
from xsvlib import q
from . import common as C
from .store_shared import gc_requests, expiry_tests, frame_base_of, ttl_time_payload_base, partition_field, GCTASK, clock_fns, reads_clock, rule_clock_freshness

EXPLANATION = ("Who-may-remove rule over all Store::remove call sites; every GCTask::Remove is dominated by the expiry predicate applied to "
               "that same frame's id and its own time TTL; CheckHeadTTL is requested only for a stored head:N frame with that frame's "
               "context/topic/N; the head-GC scan is Skip<Rev<prefix(ctx,topic,0x00)>> with skip = keep; unit lattice and relation of the expiry predicate.")
NOT_DECIDED = ["FIFO service of the GC queue and wait_for_gc semantics (tokio channel)", "timing: that eviction happens only after a head:K frame was appended",
               "that reads never lose a forever frame for arbitrary histories"]

REMOVE_CALLERS = {
    "xs::api::handle_stream_item_remove": "explicit HTTP DELETE",
    "<xs::nu::commands::remove_command::RemoveCommand as nu_protocol::engine::command::Command>::run": "explicit .remove command",
    "xs::store::spawn_gc_worker": "GC worker (time expiry / head eviction)",
}


def r1(run):
    rem = C.removers(run.facts)
    callers = [(b, c) for r in rem for (b, c) in C.callers_of(run.facts, r) if run.facts.enclosing_fn(b) not in rem]     # (Store::remove delegating to the shared function is not a caller to audit)
    run.floor("Store::remove call sites in the GC worker", len([1 for (b, c) in callers if run.facts.enclosing_fn(b) == "xs::store::spawn_gc_worker"]), 1)
    run.floor("Store::remove call sites", len(callers), 2)
    for (b, c) in callers:
        fn = run.facts.enclosing_fn(b)
        run.touch(b)
        run.ob("%s|call:Store::remove" % fn, fn in REMOVE_CALLERS, c.sp, "Store::remove called from %s (%s)" % (fn, REMOVE_CALLERS.get(fn, "NOT an audited remover")),
               reason="unaudited-remover")
    reqs = [r for r in gc_requests(run) if r[2] == "Remove"]
    run.floor("GCTask::Remove construction sites", len(reqs), 2)
    # fail closed: every task put on the GC queue must be readable as a constructed GCTask (not, say, `ids.map(GCTask::Remove)`)
    from .store_shared import GCTASK
    seen_sends = {(id(r[0]), r[1].bb) for r in gc_requests(run)}
    for b0 in run.facts.all_bodies():
        for c0 in q.live_calls(b0, C.UNBOUNDED_SEND):
            if GCTASK in c0.fnx and (id(b0), c0.bb) not in seen_sends:
                run.ob("%s|gc-request-readable" % run.facts.enclosing_fn(b0), False, c0.sp,
                       "a GC task is queued whose construction the rules cannot read: %s" % fmt(strip(c0.arg(1)))[:120], reason="unrecognised-idiom")
        for c0 in b0.calls():
            if c0.bb in b0.live_blocks() and any("const" in a and "GCTask::" in str(a["const"].get("s", "")) for a in c0.args):
                run.ob("%s|gc-request-readable" % run.facts.enclosing_fn(b0), False, c0.sp,
                       "a GCTask variant constructor is used as a function value (%s): what it wraps is not checked" % c0.fn.split("::")[-1], reason="unrecognised-idiom")
    for (b, c, variant, agg) in reqs:
        fn = b.def_
        payload = agg[2][0]
        pbase = frame_base_of(payload) if q.last_field(payload) == "id" else None
        tests = expiry_tests(b)
        ok = False
        why = "no expiry test dominates the request"
        for (bb, cond, t_edges, f_edges) in tests:
            if not (t_edges and q.dominated(b, c.bb, via_edges=t_edges)):
                continue
            from .store_shared import expiry_test_subject
            idb, ttlb = expiry_test_subject(run, cond)
            if pbase is not None and idb == pbase and ttlb == pbase:
                ok = True
                why = "%s(&%s.id, &(%s.ttl as Some(Time)).0)" % (cond[1].fn.split("::")[-1], idb, ttlb)
            else:
                why = "expiry test is about (%s, %s) but the removed id is %s" % (idb, ttlb, pbase)
        run.ob("%s|GCTask::Remove" % fn, ok, c.sp,
               "GCTask::Remove(id) is requested only on the true edge of the expiry predicate applied to the same frame's id and its own TTL::Time payload: " + why,
               reason="remove-without-expiry")


def r2(run):
    reqs = [r for r in gc_requests(run) if r[2] == "CheckHeadTTL"]
    run.floor("GCTask::CheckHeadTTL construction sites", len(reqs), 1)
    for (b, c, variant, agg) in reqs:
        fn = b.def_
        run.ob("%s|CheckHeadTTL|in-append" % fn, fn in C.publisher_names(run.facts), c.sp, "head GC is requested from Store::append (or a sibling publisher held to the same obligations) only")
        names = agg[1]["fields"]
        vals = dict(zip(names, agg[2]))
        keep = strip(vals.get("keep", ("none",)))
        is_head_payload = False
        x = keep
        base = None
        if x[0] == "field" and x[1][0] == "downcast" and x[1][2] == "Head":
            inner = strip(x[1][1])
            if inner[0] == "field" and inner[1][0] == "downcast" and inner[1][2] == "Some" and q.last_field(inner[1][1]) == "ttl":
                is_head_payload = True
                base = fmt(strip(q.field_base(inner[1][1])))
        run.ob("%s|CheckHeadTTL|keep" % fn, is_head_payload, c.sp, "keep is the N of this frame's own Some(TTL::Head(N)): %s" % fmt(keep), reason="head-gc-parameters")
        ctx = vals.get("context_id")
        top = vals.get("topic")
        okc = ctx is not None and q.last_field(ctx) == "context_id" and frame_base_of(ctx) == base
        okt = top is not None and q.last_field(q.peel(top)) == "topic" and frame_base_of(q.peel(top)) == base
        run.ob("%s|CheckHeadTTL|scope" % fn, okc and okt, c.sp, "context_id and topic are the stored frame's own (%s, %s)" % (fmt(strip(ctx)) if ctx else None, fmt(q.peel(top)) if top else None),
               reason="head-gc-parameters")
        # after the Ok edge of insert_frame
        from .store_shared import store_points
        ok_edges = [e for (i, es) in store_points(b) for e in es]
        run.ob("%s|CheckHeadTTL|after-store" % fn, bool(ok_edges) and q.dominated(b, c.bb, via_edges=ok_edges), c.sp,
               "head GC is requested only after the frame was stored successfully", reason="head-gc-before-store")


def r3(run):
    facts = run.facts
    worker = None
    for b in facts.bodies_under("xs::store::spawn_gc_worker"):
        if q.live_calls(b, "tokio::sync::mpsc::unbounded::UnboundedReceiver::<T>::blocking_recv"):
            worker = b
    if worker is None:
        # find by content anywhere
        for b in facts.all_bodies():
            if q.live_calls(b, "tokio::sync::mpsc::unbounded::UnboundedReceiver::<T>::blocking_recv") and q.live_calls(b, *C.removers(facts)):
                worker = b
    if worker is None:
        run.missing("crate|gc-worker", "no GC worker loop (blocking_recv + Store::remove) found")
        return
    run.touch(worker)
    b = worker
    scans = q.live_calls(b, C.PARTITION_PREFIX)
    run.exact("prefix scans in the GC worker", len(scans), 1, b.sp)
    if not scans:
        return
    sc = scans[0]
    arg = q.peel(sc.arg(1))
    okp = arg[0] == "call" and arg[1].local and len(arg[2]) == 2
    a0 = strip(arg[2][0]) if okp else None
    a1 = q.peel(arg[2][1]) if okp else None
    ok_scope = okp and q.last_field(a0) == "context_id" and q.last_field(a1) == "topic" and \
        any(x[0] == "downcast" and x[2] == "CheckHeadTTL" for x in walk(a0)) and any(x[0] == "downcast" and x[2] == "CheckHeadTTL" for x in walk(a1))
    run.ob("%s|head-gc|scan-scope" % b.def_, ok_scope and partition_field(sc, 0) == "idx_topic", sc.sp,
           "the scan prefix is <prefix constructor>(task.context_id, task.topic) on idx_topic: %s" % fmt(arg), reason="head-gc-scope")
    # adaptor chain collect <- map <- skip(keep) <- rev <- prefix
    removes = [c for c in q.live_calls(b, *C.removers(facts))]
    head_removes = []
    for c in removes:
        idarg = c.arg(1)
        if any(x[0] == "call" and q.same_call(x[1], sc) for x in walk(idarg)):
            head_removes.append(c)
    alt = head_gc_enumerate_form(run, b, sc, removes) if not head_removes else None
    if alt is not None:
        other = [c for c in removes if not any(q.same_call(c, x) for x in alt)]
        for c in other:
            a = strip(c.arg(1))
            run.ob("%s|remove-arm" % b.def_, any(x[0] == "downcast" and x[2] == "Remove" for x in walk(a)), c.sp, "the Remove arm removes exactly the requested id: %s" % fmt(a),
                   reason="gc-removes-other-id")
        return
    run.ob("%s|head-gc|removes-from-scan" % b.def_, len(head_removes) == 1, b.sp, "exactly one Store::remove consumes ids of the head scan (%d)" % len(head_removes),
           reason="head-gc-scope")
    if head_removes:
        chain = []
        for x in walk(head_removes[0].arg(1)):
            if x[0] == "call" and x[1].fn.startswith("core::iter::traits::iterator::Iterator::"):
                chain.append(x)
        names = [x[1].fn.split("::")[-1] for x in chain]
        # outermost first: next, collect, map, skip, rev
        want = ["skip", "rev"]
        pos = [names.index(w) if w in names else -1 for w in want]
        ok_order = all(p >= 0 for p in pos) and pos[0] < pos[1] and names.count("skip") == 1 and names.count("rev") == 1 \
            and not any(n in ("take", "step_by", "filter", "skip_while", "take_while") for n in names)
        run.ob("%s|head-gc|skip-after-rev" % b.def_, ok_order, sc.sp, "eviction scans newest-first and skips the newest N: %s" % " <- ".join(names), reason="head-gc-order")
        sk = [x for x in chain if x[1].fn.endswith("::skip")]
        if sk:
            n = sk[0][2][1]
            x = n
            only_casts = True
            while x[0] in ("cast", "ref", "deref"):
                x = x[1]
            is_keep = x[0] == "field" and x[2] == "keep" and any(y[0] == "downcast" and y[2] == "CheckHeadTTL" for y in walk(x))
            run.ob("%s|head-gc|skip-operand" % b.def_, is_keep, sc.sp, "skip operand is the task's keep through casts only (no arithmetic): %s" % fmt(n), reason="head-gc-count")
            recv_ty = b.types.adaptor_chain(b.local_ty(q.root_local(b, sk[0][1].args[0]))) if q.root_local(b, sk[0][1].args[0]) is not None else []
            run.ob("%s|head-gc|skip-receiver-type" % b.def_, bool(recv_ty) and recv_ty[0] == "core::iter::adapters::rev::Rev", sc.sp,
                   "skip is applied to a Rev<..> iterator: %s" % recv_ty[:2], reason="head-gc-order")
    # Remove arm: the id passed to remove is the task's payload
    other = [c for c in removes if c not in head_removes]
    for c in other:
        a = strip(c.arg(1))
        run.ob("%s|remove-arm" % b.def_, any(x[0] == "downcast" and x[2] == "Remove" for x in walk(a)), c.sp, "the Remove arm removes exactly the requested id: %s" % fmt(a),
               reason="gc-removes-other-id")


def head_gc_enumerate_form(run, b, sc, removes):
    """The eviction spelled with positions: `for (pos, entry) in idx_topic.prefix(..).rev().enumerate() { if pos >= keep { stale.push(id) } }`
    followed by a loop removing the collected ids.  Returns True when this shape was found (its obligations are then recorded)."""
    pushes = [c for c in q.live_calls(b, "alloc::vec::Vec::<T, A>::push") if any(x[0] == "call" and q.same_call(x[1], sc) for x in walk(c.arg(1)))]
    if len(pushes) != 1:
        return None
    p = pushes[0]
    vec_defs = [x[1] for x in walk(p.arg(0)) if x[0] == "call" and x[1].fn.startswith("alloc::vec::Vec::<T>::")]
    if not vec_defs:
        return None
    consumers = []
    for c in removes:
        if any(x[0] == "call" and any(q.same_call(x[1], v) for v in vec_defs) for x in walk(c.arg(1))):
            c_ = c
            consumers.append(c_)
    run.ob("%s|head-gc|removes-from-scan" % b.def_, len(consumers) == 1, b.sp,
           "exactly one removal consumes the ids the head scan collected (%d)" % len(consumers), reason="head-gc-scope")
    chain = [x for x in walk(p.arg(1)) if x[0] == "call" and x[1].fn.startswith("core::iter::traits::iterator::Iterator::")]
    names = [x[1].fn.split("::")[-1] for x in chain]
    ok_order = "enumerate" in names and "rev" in names and names.index("enumerate") < names.index("rev") and names.count("enumerate") == 1 and names.count("rev") == 1 \
        and not any(n in ("take", "step_by", "filter", "skip", "skip_while", "take_while") for n in names)
    run.ob("%s|head-gc|skip-after-rev" % b.def_, ok_order, sc.sp, "eviction numbers the entries newest-first (enumerate over rev): %s" % " <- ".join(names), reason="head-gc-order")
    en = [x for x in chain if x[1].fn.endswith("::enumerate")]
    if en:
        rl = q.root_local(b, en[0][1].args[0])
        recv_ty = b.types.adaptor_chain(b.local_ty(rl)) if rl is not None else []
        run.ob("%s|head-gc|skip-receiver-type" % b.def_, bool(recv_ty) and recv_ty[0] == "core::iter::adapters::rev::Rev", sc.sp,
               "enumerate is applied to a Rev<..> iterator: %s" % recv_ty[:2], reason="head-gc-order")
    # the push is guarded by `position >= keep` (keep through casts only)
    guard = []
    for bb, si in b.switches():
        if si["kind"] != "bool":
            continue
        cm = q.comparison(si["cond"])
        if not cm:
            continue
        rel, l, r = cm

        def is_pos(x):
            x = strip(x)
            return x[0] == "field" and str(x[2]) == "0" and any(y[0] == "call" and y[1].fn.endswith("::enumerate") for y in walk(x)) \
                and not any(y[0] in ("bin", "un", "cast") for y in walk(x))      # the position itself: no arithmetic on it

        def is_keep(x):
            x = strip(x)
            while x[0] in ("cast", "ref", "deref"):
                x = strip(x[1])
            return x[0] == "field" and x[2] == "keep" and any(y[0] == "downcast" and y[2] == "CheckHeadTTL" for y in walk(x))
        if is_pos(l) and is_keep(r):
            pass
        elif is_pos(r) and is_keep(l):
            rel = q.SWAP[rel]
        else:
            continue
        guard += q.edge_triples(b, bb, lambda m, rel=rel: isinstance(m, bool) and q.rel_on_edge(rel, m) == "ge")
    run.ob("%s|head-gc|skip-operand" % b.def_, bool(guard) and q.dominated(b, p.bb, via_edges=guard), p.sp,
           "an id is collected for eviction only on the `position >= keep` edge (keep = the task's keep, through casts only)", reason="head-gc-count")
    return consumers


UNIT_FNS = {
    "core::time::Duration::as_millis": "ms", "core::time::Duration::as_secs": "s", "core::time::Duration::as_micros": "us",
    "core::time::Duration::as_nanos": "ns", "core::time::Duration::as_secs_f64": "s", "core::time::Duration::as_secs_f32": "s",
    "core::time::Duration::subsec_millis": "sub", "core::time::Duration::subsec_micros": "sub", "core::time::Duration::subsec_nanos": "sub",
    "scru128::id::Scru128Id::timestamp": "ms",
}


def unit_of(e):
    units = set()
    for x in walk(e):
        if x[0] == "call" and x[1].fn in UNIT_FNS:
            units.add(UNIT_FNS[x[1].fn])
    return units


def age_form(run, p, pb, e):
    """Second accepted spelling of the predicate: `created.elapsed().map_or(D, |age| age >= ttl)` with
    created = UNIX_EPOCH + Duration::from_millis(id.timestamp()).  `elapsed()` fails exactly when the id's timestamp lies in the
    future of the local clock; then created + ttl is even further away, so D must be `false` (not expired)."""
    if not (e[0] == "call" and e[1].fn.endswith(("Result::<T, E>::map_or", "Result::<T, E>::is_ok_and")) and e[2]):
        return False
    src = strip(e[2][0])
    if not (src[0] == "call" and src[1].fn in ("std::time::SystemTime::elapsed",)):
        return False
    created = src[2][0]
    has_ts = any(y[0] == "call" and y[1].fn == "scru128::id::Scru128Id::timestamp" for y in walk(created))
    units = unit_of(created)
    epoch = "UNIX_EPOCH" in fmt(strip(created))
    adds = [y for y in walk(created) if (y[0] == "call" and y[1].fn.endswith("::add")) or (y[0] == "bin" and y[1].startswith("Add"))]
    run.ob("%s|created" % p, has_ts and epoch and units == {"ms"} and len(adds) == 1, pb.sp,
           "creation time = UNIX_EPOCH + Duration::from_millis(id.timestamp()) (timestamp: %s, epoch: %s, units: %s)" % (has_ts, epoch, sorted(units)), reason="expiry-units")
    is_map_or = e[1].fn.endswith("map_or")
    dflt = strip(e[2][1]) if is_map_or else ("const", {"bool": False})
    clo = strip(e[2][2] if is_map_or else e[2][1])
    run.ob("%s|future-id-not-expired" % p, dflt[0] == "const" and dflt[1].get("bool") is False, pb.sp,
           "a frame whose id lies ahead of the local clock (imported from a peer, clock stepped back) is NOT expired: its deadline created + ttl is later still (default = %s)" % fmt(dflt),
           reason="expiry-relation")
    cb = run.facts.body(clo[1].get("def")) if clo[0] == "agg" and clo[1].get("def") else None
    ok_rel = False
    rel_txt = "?"
    if cb is not None:
        run.touch(cb)
        rs = cb.return_defs()
        if len(rs) == 1:
            cm = q.comparison(rs[0][1])
            if cm:
                rel, l, r = cm
                l_age = any(y[0] == "arg" and y[1] == 2 for y in walk(l))
                r_age = any(y[0] == "arg" and y[1] == 2 for y in walk(r))
                l_ttl = any(y[0] == "env" for y in walk(l))
                r_ttl = any(y[0] == "env" for y in walk(r))
                if r_age and l_ttl:
                    rel, l_age, r_ttl = q.SWAP[rel], True, True
                ok_rel = l_age and r_ttl and rel == "ge"
                rel_txt = "age %s ttl" % rel
    run.ob("%s|relation" % p, ok_rel, pb.sp, "expired <=> age >= ttl, i.e. now >= created + ttl (got: %s)" % rel_txt, reason="expiry-relation")
    return True


def r4(run):
    # the expiry predicate = the crate-local callee guarding GCTask::Remove
    preds = set()
    for (b, c, variant, agg) in gc_requests(run):
        if variant != "Remove":
            continue
        for (bb, cond, t, f) in expiry_tests(b):
            if t and q.dominated(b, c.bb, via_edges=t):
                preds.add(cond[1].fn)
    run.exact("distinct expiry predicates guarding GCTask::Remove", len(preds), 1, detail=sorted(preds))
    for p in sorted(preds):
        pb = C.body_or_fail(run, p)
        rets = pb.return_defs()
        if len(rets) > 1:
            # `let Some(TTL::Time(ttl)) = frame.ttl.as_ref() else { return false }`: frames without a time TTL never expire
            guard_e = []
            for bb2, si2 in pb.switches():
                if si2["kind"] == "variant" and q.has_field(si2["cond"], "ttl"):
                    for (t2, lab2, m2) in si2["edges"]:
                        ms2 = set(m2) if isinstance(m2, tuple) else {m2}
                        if ms2 and not (ms2 & {"Some", "Time"}):
                            guard_e.append((bb2, t2, lab2))
            kept = []
            for (rb2, e2, raw2) in rets:
                x2 = strip(e2)
                if x2[0] == "const" and x2[1].get("bool") is False and guard_e and q.dominated(pb, rb2, via_edges=guard_e):
                    continue
                kept.append((rb2, e2, raw2))
            rets = kept
        if len(rets) != 1:
            run.unrecognised("%s|shape" % p, "expiry predicate has %d return definitions" % len(rets), pb.sp)
            continue
        e = strip(rets[0][1])
        cmp_ = q.comparison(e)
        if not cmp_ and age_form(run, p, pb, e):
            continue
        if not cmp_:
            run.unrecognised("%s|shape" % p, "expiry predicate does not return a comparison: %s" % fmt(e), pb.sp)
            continue
        rel, l, r = cmp_
        cf = clock_fns(run)
        # a `now` parameter counts as the clock when every call site passes a clock reading
        now_args = set()
        for (cb, cc) in C.callers_of(run.facts, p):
            for i, a in enumerate(cc.arg_exprs()):
                if reads_clock(run, a, cf) or any(y[0] == "field" and y[1][0] == "env" and "now" in str(y[2]) for y in walk(a)):
                    now_args.add(i + 1)
        def side(x):
            s = set()
            for y in walk(x):
                if y[0] == "call" and (y[1].fn == "std::time::SystemTime::now" or y[1].fn in cf):
                    s.add("now")
                if y[0] == "arg" and y[1] in now_args:
                    s.add("now")
                if y[0] == "call" and y[1].fn == "scru128::id::Scru128Id::timestamp":
                    s.add("created")
                if y[0] == "arg" and y[1] == 2:
                    s.add("ttl")
                if y[0] == "downcast" and y[2] == "Time" and q.has_field(y, "ttl"):
                    s.add("ttl")
            return s
        sl, sr = side(l), side(r)
        if "now" in sr and "created" in sl:
            rel, l, r, sl, sr = q.SWAP[rel], r, l, sr, sl
        ok_rel = sl == {"now"} and sr == {"created", "ttl"} and rel == "ge"
        run.ob("%s|relation" % p, ok_rel, pb.sp, "expired <=> now >= created + ttl  (got: %s %s %s)" % (sorted(sl), rel, sorted(sr)), reason="expiry-relation")
        def unit_deep(x, depth=0):
            u = set(unit_of(x))
            for y in walk(x):
                if y[0] == "call" and y[1].fn in cf and depth < 3:
                    fb = run.facts.body(y[1].fn)
                    if fb is not None:
                        for (rb, re_, raw) in fb.return_defs():
                            u |= unit_deep(re_, depth + 1)
                if y[0] == "arg" and y[1] in now_args and depth < 3:
                    for (cb, cc) in C.callers_of(run.facts, p):
                        if y[1] - 1 < len(cc.args):
                            u |= unit_deep(cc.arg(y[1] - 1), depth + 1)
                if y[0] == "field" and y[1][0] == "env" and "now" in str(y[2]) and depth < 3:
                    u.add("ms?")
            return u
        ul, ur = unit_deep(l), unit_deep(r)
        ul.discard("ms?")
        run.ob("%s|units" % p, ul == {"ms"} and ur == {"ms"}, pb.sp, "all three quantities are in milliseconds (now: %s, created+ttl: %s)" % (sorted(ul), sorted(ur)),
               reason="expiry-units")
        adds = [y for y in walk(r) if (y[0] == "call" and y[1].fn.endswith("saturating_add")) or (y[0] == "bin" and y[1].startswith("Add"))]
        subs = [y for y in walk(e) if (y[0] == "bin" and y[1].startswith(("Sub", "Mul", "Div", "Shr", "Shl")))]
        run.ob("%s|arithmetic" % p, len(adds) == 1 and not subs, pb.sp, "created + ttl is one addition, no scaling (adds=%d, other arithmetic=%d)" % (len(adds), len(subs)),
               reason="expiry-arithmetic")


RULES = [
    ("R-C08-1", "Store::remove is called only by the explicit-delete paths and the GC worker; every GCTask::Remove is guarded by the expiry predicate on that same frame", r1),
    ("R-C08-2", "head GC is requested only by a successfully stored head:N frame with that frame's own context, topic and N", r2),
    ("R-C08-3", "the head-GC scan covers exactly prefix(ctx, topic, 0x00), newest first, skipping exactly keep; removed ids come only from that scan", r3),
    ("R-C08-4", "expiry predicate: now_ms >= id.timestamp_ms + ttl.as_millis (units and relation)", r4),
    ("R-C08-5", "every expiry decision uses a clock reading taken for that decision (not hoisted out of the scan)", rule_clock_freshness),
]
