"""C20 - export then import reproduces the store."""
from xsvlib.facts import fmt, strip, walk
from xsvlib import q
from . import common as C
from . import C05 as c05
from . import C07 as c07
from . import C09 as c09
from .store_shared import batch_bodies, mentions_arg

EXPLANATION = ("Import path analysis: the deserialised frame reaches Store::insert_frame unmodified (no field write, no id generator); "
               "insert_frame's three keys and its value are functions of the frame alone (no clock, id generator or counter below it), so a "
               "re-import overwrites identically and the frame sits at its id's position; registry coherence, NUL rejection before the batch and "
               "ephemeral rejection are shared with C07 / C05 / C09.")
NOT_DECIDED = ["observational equality of source and target stores over arbitrary histories", "content equality of CAS (verified by the importer through POST /cas hashes)"]

IMPORT = "xs::api::handle_import"
NONDET = ("scru128::global_gen::new", "scru128::generator::Scru128Generator", "std::time::SystemTime::now", "std::time::Instant::now", "rand::",
          "core::sync::atomic::", "chrono::")


def import_body(run):
    for b in run.facts.bodies_under(IMPORT):
        if b.is_coroutine and q.live_calls(b, C.INSERT_FRAME):
            run.touch(b)
            return b
    return None


def r1(run):
    b = import_body(run)
    if b is None:
        run.missing(IMPORT + "|body", "handle_import (calling Store::insert_frame) not found")
        return
    ins = q.live_calls(b, C.INSERT_FRAME)
    run.floor("insert_frame calls in handle_import", len(ins), 1, b.sp)
    for c in ins:
        src = q.peel(c.arg(1))
        DE = ("serde_json::de::from_slice", "serde_json::de::from_str", "serde_json::de::from_reader")
        ok = src[0] == "call" and src[1].fn in DE
        if not ok:
            # through a decoding helper: `from_slice(bytes).map_err(..)?` .. `Ok(frame)` .. `match parse(..) { Ok(frame) => .. }`:
            # every origin of the value is the deserialiser's result (seen through `?`, `map_err` and Ok / Continue payloads)
            def _is_de(o, depth=0):
                o = q.peel(o)
                if o[0] == "call" and o[1].fn in DE:
                    return True
                if depth > 6:
                    return False
                if o[0] == "call" and o[1].fn in ("core::result::Result::<T, E>::map_err", "core::ops::try_trait::Try::branch", "core::result::Result::<T, E>::unwrap",
                                                  "core::result::Result::<T, E>::expect") and o[2]:
                    return _is_de(o[2][0], depth + 1)
                if o[0] == "field" and isinstance(o[1], tuple) and o[1][0] == "downcast" and o[1][2] in ("Ok", "Continue", "Some"):
                    return _is_de(o[1][1], depth + 1)
                if o[0] == "agg" and o[1].get("variant") in ("Ok", "Continue") and len(o[2]) == 1:
                    return _is_de(o[2][0], depth + 1)
                if o[0] == "phi":
                    alts = [a for a in o[3] if not (q.peel(a)[0] == "agg" and q.peel(a)[1].get("variant") in ("Err", "Break"))]
                    return bool(alts) and all(_is_de(a, depth + 1) for a in alts)
                return False
            try:
                origins = q.origins(src)
            except Exception:
                origins = [src]
            ok = bool(origins) and all(_is_de(o) for o in origins)
        run.ob(IMPORT + "|stored-as-parsed", ok, c.sp, "the frame handed to insert_frame is the deserialised request body itself: %s" % fmt(src)[:100], reason="import-rewrites-frame")
        l = q.root_local(b, c.args[1])
        b.defs()
        writes = [sp for (bi, si, lhs, rv, sp) in b.field_writes if lhs["l"] == l and bi in b.live_blocks()]
        run.ob(IMPORT + "|no-field-rewrite", not writes, c.sp, "no field of the imported frame is written before it is stored (%s)" % writes, reason="import-rewrites-frame")
    bad = [c.sp for c in b.calls() if c.bb in b.live_blocks() and c.fn in (C.APPEND, C.SCRU_NEW)]
    run.ob(IMPORT + "|keeps-id", not bad, b.sp, "import neither appends (which would assign a new id) nor generates ids (%s)" % bad, reason="import-rewrites-frame")
    # the response echoes the stored frame
    for (bb, e, raw) in b.return_defs():
        pass


def r2(run):
    facts = run.facts
    ib = C.body_or_fail(run, C.INSERT_FRAME)
    # transitive crate-local callees of insert_frame
    seen, todo = set(), [ib]
    while todo:
        x = todo.pop()
        if x.def_ in seen:
            continue
        seen.add(x.def_)
        run.touch(x)
        for c in x.calls():
            if c.bb in x.live_blocks() and c.local and not c.fn.startswith("xs::store::Store::get"):
                cb = facts.body(c.fn)
                if cb is not None:
                    todo.append(cb)
    run.floor("functions below insert_frame (incl. key constructors)", len(seen), 4)
    for d in sorted(seen):
        b = facts.body(d)
        nd = [c for c in b.calls() if c.bb in b.live_blocks() and c.fn.startswith(NONDET)]
        ops = [c for c in b.calls() if c.bb in b.live_blocks() and c.fn in (C.BATCH_INSERT, C.BATCH_REMOVE)]
        if ops:
            # the function that fills the batch: what matters is that no such value reaches a key or a value of the batch
            # (a write counter or a timing log next to the batch decides nothing about what is stored)
            written = [y[1] for op in ops for a in op.arg_exprs()[1:] for y in walk(a) if y[0] == "call"]
            nd = [c for c in nd if any(q.same_call(w, c) for w in written) or c.fn.startswith(("scru128::", "rand::"))]
        bad = [(c.fn, c.sp) for c in nd]
        run.ob("%s|deterministic" % d, not bad, b.sp, "%s consults no id generator, clock or counter (%s)" % (d, bad), reason="import-not-idempotent")
    for info in batch_bodies(run):
        if info["body"].def_ != C.INSERT_FRAME:
            continue
        for c in info["ops"]:
            part = strip(c.arg(1))
            for i, name in ((2, "key"), (3, "value")):
                if i >= len(c.args):
                    continue
                e = c.arg(i)
                leaves = [y for y in walk(e) if y[0] in ("arg",)]
                only_frame = all(y[1] == 2 for y in leaves) and (bool(leaves) or strip(e)[0] == "const")
                run.ob("%s|%s-of-frame-only|%s" % (C.INSERT_FRAME, name, q.place_path(part)[-1] if q.place_path(part) else "?"), only_frame, c.sp,
                       "the %s written to %s is a function of the frame alone: %s" % (name, q.place_path(part)[-1] if q.place_path(part) else "?", fmt(strip(e))[:90]),
                       reason="import-not-idempotent")
    # the primary value is the serde_json rendering of the whole frame
    enc = [c for c in ib.calls() if c.bb in ib.live_blocks() and c.fn in ("serde_json::ser::to_vec", "serde_json::ser::to_string")]
    def _whole_frame(e):
        x = strip(e)
        n = 0
        while x[0] in ("ref", "deref", "copy", "move") and len(x) > 1 and isinstance(x[1], tuple) and n < 8:
            x = strip(x[1])
            n += 1
        return x[0] == "arg" and x[1] == 2        # the frame parameter itself, not one of its fields
    run.ob("%s|value-is-whole-frame" % C.INSERT_FRAME, len(enc) == 1 and mentions_arg(enc[0].arg(0), 2) and _whole_frame(enc[0].arg(0)), ib.sp, "the stored value is serde_json::to_vec(frame) (or to_string(frame) as bytes)", reason="import-loses-fields")


def r4(run):
    c05.r4(run)
    b = import_body(run)
    if b is None:
        return
    ins = q.live_calls(b, C.INSERT_FRAME)
    for c in ins:
        run.ob(IMPORT + "|ephemeral-rejected-first", c09.never_for_ephemeral(b, c.bb), c.sp, "an ephemeral frame is rejected before anything is stored", reason="ephemeral-may-be-stored")
        ok_edges = q.call_result_edges(b, c, ok=True)
        rets = [bb for (bb, e, raw) in b.return_defs() if strip(e)[0] == "agg" and strip(e)[1].get("variant") == "Ok" and any(
            y[0] == "call" and y[1].fn.endswith("Builder::body") for y in walk(e))]
        all_ok_edges = [e for c2 in ins for e in q.call_result_edges(b, c2, ok=True)]

        def after_loop_that_stores_each(rb):
            """a multi-frame import: the 200 is produced when the loop over the decoded lines is exhausted, every round of which
            passed the Ok edge of insert_frame (a failed store leaves the loop towards an error answer)"""
            NEXT = "core::iter::traits::iterator::Iterator::next"
            for n1 in q.live_calls(b, NEXT):
                if any("tracing" in str(m) for m in (n1.exp or [])):
                    continue
                some_e, none_e = [], []
                for bb2, si2 in b.switches():
                    cnd = strip(si2["cond"])
                    if si2["kind"] == "variant" and cnd[0] == "call" and q.same_call(cnd[1], n1):
                        some_e += q.edge_triples(b, bb2, lambda m: m == "Some")
                        none_e += q.edge_triples(b, bb2, lambda m: m == "None" or (isinstance(m, tuple) and "None" in m))
                if not some_e or not none_e or not q.dominated(b, rb, via_edges=none_e):
                    continue
                for c2 in ins:
                    if not q.reaches(b, n1.bb, c2.bb):
                        continue
                    if n1.bb in b.reachable_blocks([t for (_, t, _) in some_e], removed_blocks=[c2.bb]):
                        continue      # a line can go round without being stored
                    ee = q.call_result_edges(b, c2, ok=False)
                    bad = b.reachable_blocks([t for (_, t, _) in ee]) if ee else {n1.bb}
                    if n1.bb in bad or rb in bad:
                        continue      # a failed store goes on / is acknowledged
                    return True
            return False
        if c is ins[0]:
            run.ob(IMPORT + "|ok-only-after-store", bool(all_ok_edges) and bool(rets) and all(q.dominated(b, bb, via_edges=all_ok_edges) or after_loop_that_stores_each(bb) for bb in rets), c.sp,
                   "the 200 response is produced only on the Ok edge of insert_frame (for a multi-frame body: after a loop each round of which stored its frame)",
                   reason="import-acknowledged-without-store")


def r5(run):
    """Import must not evict or publish: a head-GC request issued while importing an OLD head:N frame would remove frames the source
    store still holds (the imported frame is not the newest of its topic), and depends on import order."""
    facts = run.facts
    seen, todo = set(), [C.body_or_fail(run, C.INSERT_FRAME)]
    ib = import_body(run)
    if ib is not None:
        todo.append(ib)
    bad = []
    while todo:
        x = todo.pop()
        if x.def_ in seen:
            continue
        seen.add(x.def_)
        run.touch(x)
        for c in x.calls():
            if c.bb not in x.live_blocks():
                continue
            if (c.fn == C.UNBOUNDED_SEND and "xs::store::GCTask" in c.fnx) or (c.fn == C.BROADCAST_SEND and C.frame_typed(c)) or c.fn in C.removers(run.facts):
                bad.append("%s @%s" % (c.fn.split("::")[-1], c.sp))
            if c.local and c.fn != C.GET:
                cb = facts.body(c.fn)
                if cb is not None and not cb.def_.startswith("xs::api::response_"):
                    todo.append(cb)
    run.ob("%s|no-gc-no-broadcast" % IMPORT, not bad, "<import path>", "nothing on the import path (handle_import -> insert_frame and callees) queues a GC task, removes frames or broadcasts: %s" % bad,
           reason="import-evicts-or-publishes")


RULES = [
    ("R-C20-1", "import stores the deserialised frame as is: no field rewrite, no new id", r1),
    ("R-C20-2", "insert_frame's keys and value are functions of the frame alone (idempotent re-import, position by id)", r2),
    ("R-C20-3", "the registry follows stored xs.context frames on the import path too (shared with R-C07-5)", c07.r5),
    ("R-C20-5", "import neither queues GC work, removes frames nor broadcasts (an imported head:N frame is not the newest of its topic)", r5),
    ("R-C20-4", "a frame that cannot be stored consistently is rejected whole: NUL topic before the batch, ephemeral before the store, 200 only after it", r4),
]
