"""C15 - handler output is stamped, scoped, ordered and all-or-nothing per call."""
from xsvlib.facts import fmt, strip, walk
from xsvlib import q
from . import common as C
from . import frames as F
from . import C06 as c06
from . import C10 as c10

EXPLANATION = ("Dominance analysis of Handler::process_frame: stamping (handler_id, frame_id) and context re-homing dominate every append; the "
               "buffer drain and all appends lie behind the success edge of the evaluation; the buffered `.append` only pushes into the shared "
               "buffer; the return frame is <topic><suffix|.out> with the configured ttl and a CAS hash, emitted after the buffered frames.")
NOT_DECIDED = ["per-type rendering of return values and behaviour of scripts (Nushell)",
               "observation, not claimed: `let _ = store.append(output)` discards per-frame errors, so one output frame with an invalid topic vanishes alone"]

PF = "xs::handlers::handler::Handler::process_frame"
BUFFERED_RUN_PREFIX = "<xs::nu::commands::append_command_buffered::AppendCommand as"


def pf_body(run):
    for b in run.facts.bodies_under(PF):
        if b.is_coroutine and C.append_sites(run.facts, b):
            run.touch(b)
            return b
    return None


NEXT = "core::iter::traits::iterator::Iterator::next"


def prepass_covers(b, append_call, site_blocks):
    """`for f in v.iter_mut() { <site> }  ..  for f in v { store.append(f) }`: every element appended in the second loop went
    through <site> in the first.  Holds when (1) the first loop walks `iter_mut()` of the very collection the second loop consumes,
    (2) inside it every way from `Some(item)` back to the next step passes one of site_blocks (or leaves the function),
    (3) the second loop is entered only over the first loop's exhausted (`None`) edge, and (4) nothing is added to the collection
    in between."""
    nxts = [c for c in q.live_calls(b, NEXT) if not any("tracing" in str(m) for m in (c.exp or []))]
    src2 = None
    for n2 in nxts:
        if any(y[0] == "call" and q.same_call(y[1], n2) for y in walk(append_call.arg(1))):
            src2 = n2
    is_vec_producer = lambda c: "collect" in c.fn or c.fn.startswith("alloc::vec::Vec::<T>::") or c.fn.startswith("alloc::vec::from_elem")
    if src2 is None:
        # the whole collection is handed to a batch publisher: the "second loop" is that call
        if append_call.fn.startswith("xs::store::Store::") and "alloc::vec::Vec<xs::store::Frame" in append_call.body.local_tystr(q.root_local(b, append_call.args[1]) or 0):
            src2 = append_call
            prod2 = [y[1] for y in walk(append_call.arg(1)) if y[0] == "call" and is_vec_producer(y[1])]
        else:
            return False
    else:
        prod2 = [y[1] for y in walk(src2.arg(0)) if y[0] == "call" and is_vec_producer(y[1])]
    for n1 in nxts:
        if n1 is src2:
            continue
        chain = [y[1] for y in walk(n1.arg(0)) if y[0] == "call"]
        if not any(c.fn.endswith("::iter_mut") for c in chain):
            continue
        if not any(q.same_call(c, p) for c in chain for p in prod2):
            continue
        some_e, none_e = [], []
        for bb, si in b.switches():
            cnd = strip(si["cond"])
            if si["kind"] == "variant" and cnd[0] == "call" and q.same_call(cnd[1], n1):
                some_e += q.edge_triples(b, bb, lambda m: m == "Some")
                none_e += q.edge_triples(b, bb, lambda m: m == "None" or (isinstance(m, tuple) and "None" in m))
        if not some_e or not none_e:
            continue
        skip = b.reachable_blocks([t for (_, t, _) in some_e], removed_blocks=list(site_blocks))
        if n1.bb in skip:
            continue        # an element can go round the first loop without passing the site
        if not q.dominated(b, src2.bb, via_edges=none_e):
            continue
        between = b.reachable_blocks([t for (_, t, _) in none_e], removed_blocks=[src2.bb])
        grows = [c for c in b.calls() if c.bb in between and c.fn in ("alloc::vec::Vec::<T, A>::push", "alloc::vec::Vec::<T, A>::insert", "alloc::vec::Vec::<T, A>::extend_from_slice",
                                                                          "core::iter::traits::collect::Extend::extend")
                 and any(q.same_call(y[1], p) for y in walk(c.arg(0)) if y[0] == "call" for p in prod2)]
        if grows:
            continue
        return True
    return False


DRAIN_FNS = ("alloc::vec::Vec::<T, A>::drain", "core::mem::take", "core::mem::replace")


def output_drains(b):
    """Calls that empty the handler's output buffer: `output.drain(..)`, `mem::take(&mut *output)`, `mem::replace(&mut *output, ..)`."""
    out = []
    for c in b.calls():
        if c.bb not in b.live_blocks() or c.fn not in DRAIN_FNS:
            continue
        if c.fn == DRAIN_FNS[0] or any(y[0] == "field" and y[2] == "output" for y in walk(c.arg(0))):
            out.append(c)
    return out


def r1(run):
    b = pf_body(run)
    if b is None:
        run.missing(PF + "|body", "process_frame body (appending output frames) not found")
        return
    appends = C.append_sites(run.facts, b)
    run.floor("Store::append sites in process_frame", len(appends), 1, b.sp)
    stamps = {}
    for (k, v, recv, c) in F.map_writes(b):
        stamps.setdefault(k, []).append((v, recv, c))
    for a in appends:
        frame_local = q.root_local(b, a.args[1])
        for key, src_field, who in (("handler_id", "id", "self"), ("frame_id", "id", "frame")):
            cs = stamps.get(key, [])
            good = []
            for (val, recv, c) in cs:
                # value = Value::String(<who>.id.to_string())
                vs = [y for y in walk(val) if y[0] == "field" and y[2] == src_field and strip(y[1])[0] == "field" and strip(y[1])[1][0] == "env" and strip(y[1])[2] == who]
                recv_is_frame_meta = any(y[0] == "field" and y[2] == "meta" for y in walk(recv))
                if vs and recv_is_frame_meta:
                    good.append(c)
            run.ob(PF + "|stamp|%s" % key, bool(good) and (q.dominated(b, a.bb, via_blocks=[c.bb for c in good]) or prepass_covers(b, a, [c.bb for c in good])), a.sp,
                   "every appended output frame has meta.%s := %s.id inserted first (%d insert site(s))" % (key, who, len(good)), reason="unstamped-handler-output")
        # stamping happens after user meta is in place: it writes INTO the frame's existing meta object (get_or_insert_with), not a fresh one
        goi = [c for c in b.calls() if c.bb in b.live_blocks() and c.fn == "core::option::Option::<T>::get_or_insert_with" and any(y[0] == "field" and y[2] == "meta" for y in walk(c.arg(0)))]
        run.ob(PF + "|stamp|merges-into-user-meta", len(goi) >= 1 and (q.dominated(b, a.bb, via_blocks=[g.bb for g in goi]) or prepass_covers(b, a, [g.bb for g in goi])), a.sp,
               "the stamps are merged into the frame's own meta (user keys kept, stamp keys overwritten last)", reason="unstamped-handler-output")
    c06.r4(run)


def r2(run):
    b = pf_body(run)
    if b is None:
        run.missing(PF + "|body", "process_frame body not found")
        return
    evals = [c for c in b.calls() if c.bb in b.live_blocks() and c.fn.endswith("Handler::eval_in_thread")]
    run.exact("evaluation sites in process_frame", len(evals), 1, b.sp)
    if not evals:
        return
    ev = evals[0]
    ok_edges = q.call_result_edges(b, ev, ok=True)
    err_edges = q.call_result_edges(b, ev, ok=False)
    drains = output_drains(b)
    run.floor("drains of the output buffer", len(drains), 1, b.sp)
    # (emptying the buffer on the failure edge as well - and dropping what was taken - emits nothing: only appends and CAS writes count)
    effects = [("append", c) for c in C.append_sites(run.facts, b)] + [("cas_insert", c) for c in q.live_calls(b, "xs::store::Store::cas_insert")]
    for name, c in effects:
        run.ob(PF + "|after-success|%s" % name, bool(ok_edges) and q.dominated(b, c.bb, via_edges=ok_edges), c.sp,
               "%s happens only on the success edge of the closure evaluation" % name, reason="output-before-success")
    # all-or-nothing: once the first frame of an invocation is appended nothing can fail any more (no error return is reachable after an append)
    err_rets = [bb for (bb, e, raw) in b.return_defs() if bb in b.live_blocks()
                and any(x[0] == "call" and x[1].fn.endswith("from_residual") or (x[0] == "agg" and x[1].get("variant") == "Err") for x in [strip(o) for o in q.origins(e)])]
    run.floor("error returns of process_frame", len(err_rets), 2, b.sp)
    emit_points = []
    for c in C.append_sites(run.facts, b):
        if c.fn == C.APPEND or C.is_batch_publish(run.facts, c):
            emit_points.append(c)
        else:
            # a frame pushed into the vector of a batch publisher call is emitted by that call, not by the push
            emit_points += [bc for pn in C.publisher_names(run.facts) if pn != C.APPEND for bc in q.live_calls(b, pn) if q.reaches(b, c.bb, bc.bb) and bc not in emit_points]
    for c in emit_points:
        after = b.reach_after(c.bb)
        late = [b.blocks[bb]["term"]["sp"] for bb in err_rets if bb in after]
        run.ob(PF + "|no-failure-after-first-append", not late, c.sp,
               "no error return is reachable after an output frame was appended: every fallible step of the invocation precedes its first append (%s)" % late,
               reason="partial-output-on-failure")
    reach = b.reachable_blocks([t for (_, t, _) in err_edges]) if err_edges else set()
    leaked = [name for name, c in effects if c.bb in reach]
    rets = [strip(e) for (bb, e, raw) in b.return_defs() if bb in reach]
    run.ob(PF + "|failure-emits-nothing", bool(err_edges) and not leaked and bool(rets) and all((x[0] == "call" and x[1].fn.endswith("from_residual")) or
                                                                                                (x[0] == "agg" and x[1].get("variant") == "Err") for x in rets), ev.sp,
           "on the failure edge nothing is drained or appended and the error is returned (the caller unregisters the handler)", reason="output-on-failure")
    # the buffer is the handler's own shared output vector
    for d in drains:
        run.ob(PF + "|drains-own-buffer", any(y[0] == "field" and y[2] == "output" for y in walk(d.arg(0))), d.sp, "the drained buffer is self.output")


def r3(run):
    rb = None
    for b in run.facts.all_bodies():
        if b.def_.startswith(BUFFERED_RUN_PREFIX) and b.def_.endswith("::run"):
            rb = b
    if rb is None:
        run.missing("buffered AppendCommand::run|body", "buffered .append command not found")
        return
    run.touch(rb)
    bad = [c.sp for c in rb.calls() if c.bb in rb.live_blocks() and c.fn in (C.APPEND, C.INSERT_FRAME)]
    run.ob("buffered-append|never-writes-stream", not bad, rb.sp, "the buffered .append never calls Store::append / insert_frame (%s)" % bad, reason="buffered-append-writes")
    pushes = [c for c in rb.calls() if c.bb in rb.live_blocks() and c.fn == "alloc::vec::Vec::<T, A>::push" and any(y[0] == "field" and y[2] == "output" for y in walk(c.arg(0)))]
    run.ob("buffered-append|pushes-to-buffer", len(pushes) == 1, rb.sp, "it pushes the built frame into the shared output buffer", reason="buffered-append-drops-frame")
    # the buffered frame carries what the script passed: content (hash of the pipeline written to CAS), --meta, --ttl
    for (bc, start, setters) in F.frame_builds(rb):
        srcs = F.content_sources(setters.get("hash"), run.facts)
        run.ob("buffered-append|frame|content", bool(srcs) and all(c.fn.endswith("write_pipeline_to_cas") for c in srcs), bc.sp,
               "the buffered frame references the CAS entry of the piped-in content (%s)" % [c.fn.split("::")[-1] for c in srcs], reason="append-argument-dropped")
        for name in ("meta", "ttl"):
            a = setters.get(name)
            flagged = a is not None and any(y[0] == "call" and y[1].fn.endswith(("::get_flag", "::opt", "::req")) and name in q.const_strs(y[2][-1]) for o in list(q.origins(a)) + [a] for y in walk(o))
            run.ob("buffered-append|frame|%s" % name, flagged, bc.sp, "the buffered frame's %s is the script's --%s argument" % (name, name), reason="append-argument-dropped")
        pushed = any(any(y[0] == "call" and q.same_call(y[1], bc) for y in walk(p2.arg(1))) for p2 in pushes)
        run.ob("buffered-append|frame|is-what-is-pushed", pushed, bc.sp, "the frame built here is the one pushed into the buffer", reason="buffered-append-drops-frame")
    run.floor("frames built by the buffered .append", len(F.frame_builds(rb)), 1, rb.sp)
    # the only drain of a Vec<Frame> behind a field named `output` is in process_frame
    drains = []
    for b in run.facts.all_bodies():
        for c in b.calls():
            if c.bb in b.live_blocks() and c.fn in ("alloc::vec::Vec::<T, A>::drain", "core::mem::take", "alloc::vec::Vec::<T, A>::pop", "alloc::vec::Vec::<T, A>::clear") \
                    and c.args and any(y[0] == "field" and y[2] == "output" for y in walk(c.arg(0))) and "xs::store::Frame" in c.fnx:
                drains.append(run.facts.enclosing_fn(b))
    WORKER = "xs::handlers::handler::EngineWorker::new"
    run.ob("buffered-append|single-drain", len(drains) == 1 and drains[0] in (PF, WORKER), "<crate>",
           "the buffer is drained at one place only, in process_frame or in the handler's own engine worker: %s" % drains, reason="buffer-drained-elsewhere")
    # ... and only once the invocation is over: after the evaluation was awaited (process_frame) / after the returned pipeline
    # was collected (worker) - a lazy pipeline runs its `.append` stages while it is collected
    for b in run.facts.all_bodies():
        fn = run.facts.enclosing_fn(b)
        if fn not in (PF, WORKER):
            continue
        ds = [c for c in b.calls() if c.bb in b.live_blocks() and c.fn in DRAIN_FNS and c.args and any(y[0] == "field" and y[2] == "output" for y in walk(c.arg(0))) and "xs::store::Frame" in c.fnx]
        for d in ds:
            if fn == PF:
                evs = [c for c in b.calls() if c.bb in b.live_blocks() and c.fn.endswith("Handler::eval_in_thread")]
                ready = []
                for bb, si in b.switches():
                    if si["kind"] == "variant" and si["cond"][0] == "call" and si["cond"][1].fn.endswith("Future::poll"):
                        u = q.unawait(("field", ("downcast", si["cond"], "Ready"), 0))
                        if u[0] == "call" and any(q.same_call(u[1], e) for e in evs):
                            ready += [(bb, t, lab) for (t, lab, m) in si["edges"] if m == "Ready"]
                ok = bool(ready) and q.dominated(b, d.bb, via_edges=ready)
            else:
                collects = []
                for c in b.calls():
                    if c.bb not in b.live_blocks():
                        continue
                    if c.fn.endswith("PipelineData::into_value"):
                        collects.append(c)
                        continue
                    for a in c.arg_exprs():
                        a0 = strip(a)
                        cb = run.facts.body(a0[1].get("def")) if a0[0] == "agg" and a0[1].get("def") else None
                        if cb is not None and any(cc.fn.endswith("PipelineData::into_value") for cc in cb.calls()):
                            collects.append(c)
                ok = bool(collects) and q.dominated(b, d.bb, via_blocks=[c.bb for c in collects])
            run.ob("buffered-append|drain-after-collect", ok, d.sp,
                   "the buffer is taken only after the invocation is over (evaluation awaited / returned pipeline collected): appends made by a lazily "
                   "evaluated pipeline stage belong to this invocation", reason="output-of-another-invocation")
    # hash through the shared CAS helper (R-C10-1 covers provenance)
    # the handler is constructed with this buffered command and the same buffer it drains
    hb = None
    for b in run.facts.bodies_under("xs::handlers::handler::Handler::new"):
        if b.is_coroutine:
            hb = b
    if hb is not None:
        run.touch(hb)
        ctor = [c for c in hb.calls() if c.fn == "xs::nu::commands::append_command_buffered::AppendCommand::new" and c.bb in hb.live_blocks()]
        run.ob("xs::handlers::handler::Handler::new|buffered-append-installed", len(ctor) == 1, hb.sp, "handlers get the buffered .append (not the direct one)", reason="handler-append-unbuffered")
        direct = [c for c in hb.calls() if c.fn == "xs::nu::commands::append_command::AppendCommand::new" and c.bb in hb.live_blocks()]
        run.ob("xs::handlers::handler::Handler::new|no-direct-append", not direct, hb.sp, "handlers do not get the direct .append command", reason="handler-append-unbuffered")


def r4(run):
    b = pf_body(run)
    if b is None:
        run.missing(PF + "|body", "process_frame body not found")
        return
    builders = [c for c in b.calls() if c.bb in b.live_blocks() and c.fn == "xs::store::Frame::builder"]
    run.exact("return-frame construction sites", len(builders), 1, b.sp)
    for c in builders:
        lits, args = F.string_pieces(c.arg(0))
        a0 = args[0] if args else None
        a1 = args[1] if len(args) > 1 else None
        ok_topic = a0 is not None and q.last_field(a0) == "topic" and a1 is not None
        suf_ok = False
        if a1 is not None:
            for y in walk(a1):
                if y[0] == "call" and y[1].fn.endswith("unwrap_or") and ".out" in q.const_strs(y[2][1]):
                    suf_ok = True
        run.ob(PF + "|return-frame|topic", ok_topic and suf_ok and not lits, c.sp, "return frame topic = self.topic ++ (configured suffix | \".out\")", reason="return-frame-shape")
        run.ob(PF + "|return-frame|context", q.last_field(c.arg(1)) == "context_id", c.sp, "built in the handler's context")
    # when is a return frame emitted?  For every value except `nothing` and except the frame this handler's own `.append` returned.
    for c in builders:
        nothing_e, value_e = [], []
        for bb, si in b.switches():
            if si["kind"] == "variant" and (si.get("adt") or "").endswith("value::Value"):
                for (t, lab, m) in si["edges"]:
                    ms = set(m) if isinstance(m, tuple) else {m}
                    if ms == {"Nothing"}:
                        nothing_e.append((bb, t, lab))
                    elif ms and "Nothing" not in ms:
                        value_e.append((bb, t, lab))
        from_nothing = b.reachable_blocks([t for (_, t, _) in nothing_e]) if nothing_e else set()
        from_value = b.reachable_blocks([t for (_, t, _) in value_e]) if value_e else set()
        run.ob(PF + "|return-frame|not-for-nothing", bool(nothing_e) and c.bb not in from_nothing and c.bb in from_value, c.sp,
               "a closure that returns nothing emits no return frame; every other kind of value can reach the return-frame construction", reason="return-value-dropped")
        own = []
        for bb, si in b.switches():
            cond = strip(si["cond"])
            if si["kind"] != "bool" or cond[0] != "call" or not cond[1].fn.startswith("core::option::Option::<T>::is_"):
                continue
            keys, rels = set(), set()
            for y in walk(cond):
                if y[0] == "agg" and y[1].get("agg") == "closure":
                    cb2 = run.facts.body(y[1]["def"])
                    if cb2 is None:
                        continue
                    for cc in cb2.calls():
                        keys |= set(q.const_strs(cc.arg(1))) if len(cc.args) > 1 else set()
                    for (rb3, e3, raw3) in cb2.return_defs():
                        cm3 = q.comparison(e3)
                        if cm3 and any("handler_id" in fmt(strip(z)) or any(w[0] == "env" for w in walk(z)) for z in (cm3[1], cm3[2])):
                            rels.add(cm3[0])
            if "handler_id" in keys:
                positive = cond[1].fn.endswith(("is_some", "is_some_and"))
                own.append((bb, rels, q.edge_triples(b, bb, lambda m, p=positive: m is p), q.edge_triples(b, bb, lambda m, p=positive: m is (not p))))
        run.exact("tests `is the value a frame this handler appended itself`", len(own), 1, b.sp)
        for (bb, rels, own_e, other_e) in own:
            run.ob(PF + "|return-frame|own-append-test", rels == {"eq"}, b.blocks[bb]["term"]["sp"],
                   "a value counts as `own .append result` only when its meta.handler_id EQUALS this handler's id (%s)" % sorted(rels), reason="return-value-dropped")
            reach_own = b.reachable_blocks([t for (_, t, _) in own_e]) if own_e else set()
            reach_other = b.reachable_blocks([t for (_, t, _) in other_e]) if other_e else set()
            run.ob(PF + "|return-frame|not-for-own-append", c.bb not in reach_own and c.bb in reach_other, c.sp,
                   "the frame returned by the handler's own `.append` is not appended a second time; any other value is", reason="return-value-dropped")
    builds = [c for c in b.calls() if c.bb in b.live_blocks() and c.fn.startswith("xs::store::FrameBuilder") and c.fn.endswith("::build")]
    for c in builds:
        start, chain = q.builder_chain(("call", c, c.arg_exprs()))
        names = {n.replace("maybe_", ""): a for (n, a, cc) in chain}
        ttl = names.get("ttl")
        ttl_ok = ttl is not None and any(y[0] == "field" and y[2] == "return_options" for y in walk(ttl))
        run.ob(PF + "|return-frame|ttl", ttl_ok, c.sp, "ttl comes from the parsed return options", reason="return-frame-shape")
        h = names.get("hash")
        labels = []
        if h is not None:
            for o in q.origins(h):
                labels += c10.classify_hash_origin(run, o)
        else:
            # `let mut out = build(); out.hash = Some(hash);` - the hash assigned to the built frame afterwards
            b.defs()
            for (bi2, si2, lhs2, rv2, sp2) in b.field_writes:
                last = lhs2["p"][-1] if lhs2["p"] else None
                if isinstance(last, dict) and last.get("n") == "hash" and last.get("adt") == C.FRAME and bi2 in b.live_blocks() and q.reaches(b, c.bb, bi2):
                    for o in q.origins(b.rvalue_expr(rv2)):
                        labels += c10.classify_hash_origin(run, o)
        run.ob(PF + "|return-frame|hash", bool(labels) and all("commit:" in l for l in labels), c.sp, "hash is the CAS commit of the rendered return value: %s" % sorted(set(labels)),
               reason="hash-without-content")
    # emitted after the drained frames: chain(drain, additional_frame)
    chains = [c for c in b.calls() if c.bb in b.live_blocks() and c.fn.endswith("Iterator::chain")]
    okc = False
    for c in chains:
        first = q.peel(c.arg(0))
        second = c.arg(1)
        if any(y[0] == "call" and y[1].fn in DRAIN_FNS for y in walk(first)) and not any(y[0] == "call" and y[1].fn.endswith("::build") for y in walk(first)) \
                and any(y[0] == "call" and y[1].fn.endswith("::build") for y in walk(second)):
            okc = True
    # or collected by hand: `for f in output.drain(..) { v.push(f) }  if let Some(r) = additional_frame { v.push(r) }`
    pushes = [c for c in b.calls() if c.bb in b.live_blocks() and c.fn == "alloc::vec::Vec::<T, A>::push"]
    p_buf = [c for c in pushes if any(y[0] == "call" and y[1].fn == "alloc::vec::Vec::<T, A>::drain" for y in walk(c.arg(1)))]
    p_ret = [c for c in pushes if c not in p_buf and any(y[0] == "call" and y[1].fn.endswith("::build") for y in walk(c.arg(1)))]
    if not okc and p_buf and p_ret:
        same = all(q.root_local(b, x.args[0]) == q.root_local(b, p_buf[0].args[0]) for x in p_buf + p_ret)
        okc = same and all(q.reaches(b, x.bb, y.bb) and not q.reaches(b, y.bb, x.bb) for x in p_buf for y in p_ret)
    # or appended one by one: the append of a buffered frame is never reachable from the append of the return frame
    if not okc:
        aps = C.append_sites(run.facts, b)
        def _from(c, pred):
            return any(pred(y) for y in walk(c.arg(1)))
        a_buf = [c for c in aps if _from(c, lambda y: y[0] == "call" and y[1].fn in DRAIN_FNS)]
        a_ret = [c for c in aps if c not in a_buf and _from(c, lambda y: y[0] == "call" and y[1].fn.endswith("::build"))]
        if a_buf and a_ret and len(a_buf) + len(a_ret) == len(aps):
            okc = all(q.reaches(b, x.bb, y.bb) and not q.reaches(b, y.bb, x.bb) for x in a_buf for y in a_ret)
    run.ob(PF + "|return-frame|after-buffered", okc, b.sp, "the return frame is chained AFTER the drained buffered frames", reason="output-order")


RULES = [
    ("R-C15-1", "handler_id / frame_id stamping (merged into the frame's meta) and context re-homing dominate every append", r1),
    ("R-C15-2", "drain and appends only on the success edge of the evaluation; the failure edge emits nothing and returns the error", r2),
    ("R-C15-3", "the buffered .append only pushes into the shared buffer; process_frame is its only drain; handlers get the buffered command", r3),
    ("R-C15-4", "return frame: <topic><suffix|.out>, handler context, ttl from return options, CAS hash, after the buffered frames", r4),
]
