"""C19 - command calls: ordered results, exactly one terminal event, no replay."""
from xsvlib.facts import fmt, strip, walk
from xsvlib import q
from . import common as C
from . import frames as F
from . import C17 as c17

EXPLANATION = ("Pairing analysis of execute_command's worker: every Ok return is dominated by exactly one of {.complete, .error} with no recv "
               "after it, Err returns pass none and the dispatcher then appends exactly one .error; every emitted frame is stamped with the "
               "definition id and the call id in the call's context; each call runs on a clone of the stored command; calls only after replay.")
NOT_DECIDED = ["per-value output rendering, runtime errors inside streams, overlap of concurrent calls (Nushell, scheduling)",
               "observation, not claimed: the dispatcher-side fallback .error (I/O failure path) carries no command_id / frame_id stamps",
               "observation, not claimed: in the unbuffered .append user-supplied --meta keys of the same name win over the base stamps"]

MOD = "xs::commands::serve"


def worker(run):
    for b in run.facts.bodies_under(MOD + "::execute_command"):
        if b.kind == "Closure" and not b.is_coroutine and q.live_calls(b, C.APPEND):
            run.touch(b)
            return b
    return None


def classify(a):
    if a.has_suffix(".complete"):
        return "complete"
    if a.has_suffix(".error"):
        return "error"
    if not a.topic_lits and len(a.topic_args) == 2:
        return "recv"
    return "other"


def r1(run):
    w = worker(run)
    if w is None:
        run.missing(MOD + "::execute_command|worker", "blocking worker closure of execute_command not found")
        return
    aps = F.appends_in(w)
    kinds = [(classify(a), a) for a in aps]
    term = [a for (k, a) in kinds if k in ("complete", "error")]
    recv = [a for (k, a) in kinds if k == "recv"]
    other = [a for (k, a) in kinds if k == "other"]
    run.floor("terminal appends (.complete / .error) in the worker", len(term), 2, w.sp)
    run.floor(".complete appends in the worker", len([a for a in term if classify(a) == "complete"]), 1, w.sp)
    run.floor(".error appends in the worker", len([a for a in term if classify(a) == "error"]), 1, w.sp)
    run.floor("recv appends in the worker", len(recv), 1, w.sp)
    run.ob(MOD + "::execute_command|worker|append-kinds", not other, w.sp, "the worker appends only recv / complete / error frames (%s)" % other, reason="unexpected-command-frame")
    tbbs = [a.call.bb for a in term]
    oks, errs = [], []
    for (bb, e, raw) in w.return_defs():
        x = strip(e)
        if x[0] == "agg" and x[1].get("variant") == "Ok":
            oks.append(bb)
        elif (x[0] == "call" and x[1].fn.endswith("from_residual")) or (x[0] == "agg" and x[1].get("variant") == "Err"):
            errs.append(bb)
        elif x[0] == "cast" or x[0] == "phi":
            # `Ok(()) as Result<..>` arms assigned through a temporary
            for o in q.origins(e):
                oo = strip(o)
                if oo[0] == "agg" and oo[1].get("variant") == "Ok":
                    oks.append(bb)
    run.floor("Ok return definitions in the worker", len(oks), 1, w.sp)
    run.floor("Err return definitions in the worker", len(errs), 2, w.sp)
    for bb in sorted(set(oks)):
        run.ob(MOD + "::execute_command|worker|ok-has-terminal", not q.entry_reaches(w, bb, removed_blocks=tbbs), w.blocks[bb]["term"]["sp"],
               "every Ok return is reached only through an append of .complete or .error", reason="call-without-terminal-event")
    for a in term:
        twice = [b.call.sp for b in term if q.reaches(w, a.call.bb, b.call.bb)]
        late = [r.call.sp for r in recv if q.reaches(w, a.call.bb, r.call.bb)]
        k = classify(a)
        run.ob(MOD + "::execute_command|worker|one-terminal|%s" % k, not twice, a.call.sp, "after .%s no second terminal event is reachable (%s)" % (k, twice), reason="two-terminal-events")
        run.ob(MOD + "::execute_command|worker|no-recv-after|%s" % k, not late, a.call.sp, "no recv frame is appended after .%s (%s)" % (k, late), reason="recv-after-terminal")
    for bb in sorted(set(errs)):
        before = [a.call.sp for a in term if q.reaches(w, a.call.bb, bb)]
        run.ob(MOD + "::execute_command|worker|err-has-no-terminal@%s" % w.blocks[bb]["term"]["sp"].rsplit(":", 2)[0].split("/")[-1], not before, w.blocks[bb]["term"]["sp"],
               "an Err return never follows a terminal event (the dispatcher appends the single .error then)", reason="two-terminal-events")
    # complete only on the success arm of run_command, error on its failure arm
    # (the call that evaluates the command's closure: `run_command`, or whatever function of this crate the worker calls that reaches
    # nu's block evaluation within two calls, or that evaluation itself when it is written out in the worker)
    def _evaluates(fn, depth=2):
        if fn.startswith("nu_engine::") and "eval_block" in fn:
            return True
        hb = run.facts.body(fn) if depth > 0 else None
        if hb is None:
            return False
        run.touch(hb)
        return any(_evaluates(cc.fn, depth - 1) for cc in hb.calls() if cc.bb in hb.live_blocks())
    def _takes_closure(fn):
        # (config parsing evaluates blocks too - the definition script; the command's own closure is handed over as a `Closure`)
        hb = run.facts.body(fn)
        return hb is None or any("engine::closure::Closure" in hb.local_tystr(i) or "engine::Closure" in hb.local_tystr(i) for i in range(1, hb.argc + 1))
    rc = [c for c in w.calls() if c.bb in w.live_blocks() and (c.fn == MOD + "::run_command" or (_evaluates(c.fn) and _takes_closure(c.fn)))]
    run.exact("run_command call sites", len(rc), 1, w.sp)
    for c in rc:
        ok_e, err_e = q.call_result_edges(w, c, ok=True), q.call_result_edges(w, c, ok=False)
        for a in term:
            if classify(a) == "complete":
                run.ob(MOD + "::execute_command|worker|complete-arm", bool(ok_e) and q.dominated(w, a.call.bb, via_edges=ok_e), a.call.sp,
                       ".complete is appended on the success arm of running the closure only", reason="wrong-terminal-event")
        # the failure arm ends in an .error of its own or in an Err return (the dispatcher's .error): never in .complete, never silently
        err_aps = [a.call.bb for a in term if classify(a) == "error"]
        reach_quiet = w.reachable_blocks([t for (_, t, _) in err_e], removed_blocks=err_aps) if err_e else set()
        silent_ok = [w.blocks[bb]["term"]["sp"] for bb in sorted(set(oks)) if bb in reach_quiet]
        run.ob(MOD + "::execute_command|worker|error-arm", bool(err_e) and not silent_ok, c.sp,
               "on the failure arm of running the closure every Ok return lies behind an .error append (%s)" % silent_ok, reason="wrong-terminal-event")
        for a in recv:
            run.ob(MOD + "::execute_command|worker|recv-on-success-arm", bool(ok_e) and q.dominated(w, a.call.bb, via_edges=ok_e), a.call.sp, "recv frames only on the success arm")
    # the worker's own Err (and a panic of the blocking task) reaches execute_command's caller: `.await??`
    ec = None
    for b in run.facts.bodies_under(MOD + "::execute_command"):
        if b.is_coroutine and q.live_calls(b, C.TOKIO_SPAWN_BLOCKING):
            ec = b
    if ec is None:
        run.missing(MOD + "::execute_command|body", "execute_command (spawn_blocking) not found")
    else:
        run.touch(ec)
        for sb in q.live_calls(ec, C.TOKIO_SPAWN_BLOCKING):
            layers = []
            for bb, si in ec.switches():
                cond = strip(si["cond"])
                if si["kind"] == "variant" and cond[0] == "call" and cond[1].fn.endswith("Try::branch") and any(q.same_call(cc, sb) for cc in q.calls_in(cond)):
                    brk = [(bb, t, lab) for (t, lab, m) in si["edges"] if (set(m) if isinstance(m, tuple) else {m}) == {"Break"}]
                    to_err = False
                    for (_, t, _) in brk:
                        reach = ec.reachable_blocks([t])
                        to_err = to_err or any(rb in reach and strip(e)[0] == "call" and strip(e)[1].fn.endswith("from_residual") for (rb, e, raw) in ec.return_defs())
                    if to_err:
                        layers.append(bb)
            # `spawn_blocking(..).await?` as the tail expression hands the worker's own Result to the caller unchanged
            passthrough = False
            for (rb, e, raw) in ec.return_defs():
                x = strip(e)
                if x[0] == "field" and isinstance(x[1], tuple) and x[1][0] == "downcast" and x[1][2] == "Continue" and any(q.same_call(cc, sb) for cc in q.calls_in(x)):
                    passthrough = True
            run.ob(MOD + "::execute_command|worker-result-propagated", len(layers) >= 2 or (len(layers) >= 1 and passthrough), sb.sp,
                   "both the join error and the worker's own Err are propagated to the caller (%d `?` layer(s) on the awaited task): a failure before the terminal event is never swallowed" % len(layers),
                   reason="call-without-terminal-event")
    # dispatcher: Err from execute_command => exactly one .error
    for b in run.facts.closures_under(MOD + "::serve"):
        ex = [c for c in b.calls() if c.bb in b.live_blocks() and c.fn == MOD + "::execute_command"]
        if not ex:
            continue
        run.touch(b)
        errs_ap = [a for a in F.appends_in(b) if a.has_suffix(".error")]
        for c in ex:
            ee = q.call_result_edges(b, c, ok=False)
            oe = q.call_result_edges(b, c, ok=True)
            reach = b.reachable_blocks([t for (_, t, _) in ee]) if ee else set()
            hit = [a for a in errs_ap if a.call.bb in reach]
            silent = b.reachable_blocks([t for (_, t, _) in ee], removed_blocks=[a.call.bb for a in hit]) if ee else set()
            run.ob(MOD + "::serve|dispatch|err-yields-one-error", len(hit) == 1 and not [r for r in b.return_blocks() if r in silent], c.sp,
                   "when execute_command fails before a terminal event the dispatcher appends exactly one .error", reason="call-without-terminal-event")
            reach_o = b.reachable_blocks([t for (_, t, _) in oe]) if oe else set()
            run.ob(MOD + "::serve|dispatch|ok-yields-none", bool(oe) and not [a for a in errs_ap if a.call.bb in reach_o], c.sp, "and none when it succeeded", reason="two-terminal-events")


def r2(run):
    w = worker(run)
    if w is None:
        run.missing(MOD + "::execute_command|worker", "worker not found")
        return
    for a in F.appends_in(w):
        k = classify(a)
        m = a.meta or {}
        cid = F.json_src(m["command_id"]) if "command_id" in m else None
        fid = F.json_src(m["frame_id"]) if "frame_id" in m else None
        ok_c = cid is not None and (any(y[0] == "field" and y[1][0] == "env" and "command" in str(y[2]) and str(y[2]).endswith("id") for y in walk(cid)) or
                                    (q.last_field(cid) == "id" and any(y[0] == "field" and y[1][0] == "env" and str(y[2]) == "command" for y in walk(cid))))
        ok_f = fid is not None and q.last_field(fid) == "id" and any(y[0] == "field" and y[1][0] == "env" and y[2] == "frame" for y in walk(fid))
        run.ob(MOD + "::execute_command|worker|stamps|%s" % k, ok_c and ok_f, a.call.sp, ".%s carries command_id = definition id and frame_id = call id (%s)" % (k, sorted(m)),
               reason="unstamped-command-frame")
        ctx = a.context
        run.ob(MOD + "::execute_command|worker|context|%s" % k, ctx is not None and q.last_field(ctx) == "context_id" and any(y[0] == "field" and y[1][0] == "env" and y[2] == "frame" for y in walk(ctx)),
               a.call.sp, ".%s lands in the caller's context (the .call frame's)" % k, reason="wrong-context")
    # recv: configured suffix | ".recv", configured ttl, CAS hash
    for a in F.appends_in(w):
        if classify(a) != "recv":
            continue
        suf = a.topic_args[1] if len(a.topic_args) > 1 else None
        ok = suf is not None and any(y[0] == "call" and y[1].fn.endswith("unwrap_or") and ".recv" in q.const_strs(y[2][1]) for y in walk(suf))
        base = a.topic_args[0] if a.topic_args else None
        okb = base is not None and any(y[0] == "call" and y[1].fn == "core::str::<impl str>::strip_suffix" and ".call" in q.const_strs(y[2][1]) for y in walk(base))
        run.ob(MOD + "::execute_command|worker|recv-topic", ok and okb, a.call.sp, "recv topic = <name> ++ (configured suffix | \".recv\")", reason="command-frame-shape")
        ttl = a.setters.get("ttl")
        run.ob(MOD + "::execute_command|worker|recv-ttl", ttl is not None and any(y[0] == "field" and "return_options" in str(y[2]) for y in walk(ttl)), a.call.sp,
               "recv ttl comes from the definition's return options", reason="command-frame-shape")
        srcs = F.content_sources(a.setters.get("hash"), run.facts)
        run.ob(MOD + "::execute_command|worker|recv-content", bool(srcs) and all(c.fn.startswith("xs::store::Store::cas_insert") for c in srcs), a.call.sp,
               "each recv frame references the CAS entry of the value it reports (%s)" % [c.fn.split("::")[-1] for c in srcs], reason="command-output-lost")
        # a value whose content could not be stored does not end in `.complete`: the failure edge of that CAS write reaches no `.complete` append
        completes = [x for x in F.appends_in(w) if classify(x) == "complete"]
        for c in srcs:
            if c.body is not w or not c.fn.startswith("xs::store::Store::cas_insert"):
                continue
            ee = q.call_result_edges(w, c, ok=False)
            reach = w.reachable_blocks([t for (_, t, _) in ee]) if ee else set()
            hit = [x.call.sp for x in completes if x.call.bb in reach]
            run.ob(MOD + "::execute_command|worker|recv-store-failure-is-not-complete", bool(ee) and not hit, c.sp,
                   "when storing a value's content fails, no `.complete` follows (the call ends in the one `.error`): %s" % hit, reason="command-output-lost")
    # the unbuffered .append handed to the closure: call's context + base stamps
    ctor = [c for c in w.calls() if c.bb in w.live_blocks() and c.fn == "xs::nu::commands::append_command::AppendCommand::new"]
    run.exact("unbuffered AppendCommand constructions in the worker", len(ctor), 1, w.sp)
    for c in ctor:
        mk = F.meta_keys(w, c.arg(2))
        run.ob(MOD + "::execute_command|worker|append-command-base-meta", mk is not None and {"command_id", "frame_id"} <= set(mk), c.sp,
               "the .append available to the closure is constructed with base meta {command_id, frame_id}: %s" % (sorted(mk) if mk else mk), reason="unstamped-command-frame")
        run.ob(MOD + "::execute_command|worker|append-command-context", q.last_field(c.arg(1)) == "context_id", c.sp, "and the call's context as default")
    # the command merges base meta into every frame it appends
    for b in run.facts.all_bodies():
        if b.def_.startswith("<xs::nu::commands::append_command::AppendCommand as") and b.def_.endswith("::run"):
            run.touch(b)
            for a in F.appends_in(b):
                m = a.setters.get("meta")
                ok = m is not None and any(y[0] == "field" and y[2] == "base_meta" for y in walk(m))
                run.ob("xs::nu::commands::append_command::AppendCommand::run|meta-from-base", ok, a.call.sp, "appended meta starts from self.base_meta (user meta merged into it)",
                       reason="unstamped-command-frame")
                srcs = F.content_sources(a.setters.get("hash"), run.facts)
                run.ob("xs::nu::commands::append_command::AppendCommand::run|content", bool(srcs) and all(c.fn.endswith("write_pipeline_to_cas") for c in srcs), a.call.sp,
                       "an explicit .append references the CAS entry of the piped-in content (%s)" % [c.fn.split("::")[-1] for c in srcs], reason="append-argument-dropped")
                t = a.setters.get("ttl")
                flagged = t is not None and any(y[0] == "call" and y[1].fn.endswith(("::get_flag", "::opt", "::req")) and "ttl" in q.const_strs(y[2][-1]) for o in list(q.origins(t)) + [t] for y in walk(o))
                run.ob("xs::nu::commands::append_command::AppendCommand::run|ttl", flagged, a.call.sp, "and carries the script's --ttl argument", reason="append-argument-dropped")


def r3(run):
    sv = c17.serve_body(run, MOD)
    if sv is None:
        run.missing(MOD + "::serve|body", "commands::serve not found")
        return
    n = 0
    for c in q.live_calls(sv, C.TOKIO_SPAWN):
        x = strip(c.arg(0))
        if x[0] == "agg" and x[1].get("def"):
            tb = run.facts.body(x[1]["def"])
            if tb is None or not any(cc.fn == MOD + "::execute_command" for cc in tb.calls()):
                continue
            n += 1
            caps = {cap["name"]: x[2][i] for i, cap in enumerate(tb.captures) if i < len(x[2])}
            cmd = caps.get("command")
            cloned = cmd is not None and any(y[0] == "call" and y[1].fn == "core::clone::Clone::clone" and ("commands::serve::Command" in y[1].fnx or "nu::engine::Engine" in y[1].fnx)
                                             for y in walk(cmd))
            capd = [cap for cap in tb.captures if cap["name"] == "command"]
            cloned = cloned and bool(capd) and not capd[0]["by_ref"] and tb.types.s(capd[0]["ty"]) == "xs::commands::serve::Command"
            run.ob(MOD + "::serve|dispatch|fresh-clone-per-call", cloned, c.sp, "each call runs on its own clone of the stored Command (engine included)", reason="state-shared-between-calls")
            looked = cmd is not None and any(y[0] == "call" and y[1].fn.endswith("HashMap::<K, V, S, A>::get") for y in walk(cmd))
            run.ob(MOD + "::serve|dispatch|latest-definition", looked, c.sp, "the command is the current registry entry for (context, name)", reason="stale-definition")
    run.exact("call dispatch sites", n, 1, sv.sp)
    w = worker(run)
    if w is not None:
        eng = [cap for cap in w.captures if "engine" in cap["name"]]
        run.ob(MOD + "::execute_command|worker|engine-moved", len(eng) == 1 and not eng[0]["by_ref"], w.sp, "the command's engine is moved into the blocking worker (not shared)",
               reason="state-shared-between-calls")
    # invalid definition => .error with command_id ; valid => insert (latest wins)
    hb = None
    for b in run.facts.bodies_under(MOD + "::handle_define"):
        if b.is_coroutine:
            hb = b
    if hb is not None:
        run.touch(hb)
        rc = [c for c in hb.calls() if c.bb in hb.live_blocks() and c.fn == MOD + "::register_command"]
        for c in rc:
            ee, oe = q.call_result_edges(hb, c, ok=False), q.call_result_edges(hb, c, ok=True)
            errs = [a for a in F.appends_in(hb) if a.has_suffix(".error") and a.meta and "command_id" in a.meta]
            reach = hb.reachable_blocks([t for (_, t, _) in ee]) if ee else set()
            run.ob(MOD + "::handle_define|invalid-definition-reported", len([a for a in errs if a.call.bb in reach]) == 1, c.sp, "an invalid definition yields one .error naming the definition",
                   reason="silent-definition-failure")
            ins = [i for i in hb.calls() if i.bb in hb.live_blocks() and i.fn.endswith("HashMap::<K, V, S, A>::insert")]
            run.ob(MOD + "::handle_define|valid-definition-replaces", len(ins) == 1 and bool(oe) and q.dominated(hb, ins[0].bb, via_edges=oe), c.sp,
                   "a valid definition is inserted under its (context, name) key, replacing the previous one", reason="stale-definition")


def r6(run):
    """Replay registers EVERY historical .define in stream order (no compaction): the definition in force after a restart is the
    latest VALID one, exactly as it was while the server kept running."""
    sv = c17.serve_body(run, MOD)
    if sv is None:
        run.missing(MOD + "::serve|body", "commands::serve not found")
        return
    replay, exits = F.replay_phase(sv)
    if replay is None:
        run.missing(MOD + "::serve|replay", "replay phase not found", sv.sp)
        return
    defs = [c for c in sv.calls() if c.bb in sv.live_blocks() and c.fn == MOD + "::handle_define"]
    run.floor("handle_define call sites in commands::serve", len(defs), 2, sv.sp)
    during = []
    for c in defs:
        # (whichever parameter carries the frame: private signatures get reordered)
        direct = False
        for a in c.arg_exprs():
            src = [y[1] for y in walk(a) if y[0] == "call" and y[1].fn == C.MPSC_RECV]
            if src and q.same_call(src[0], replay) and not any(y[0] == "call" and "hash::map::HashMap" in y[1].fn for y in walk(a)):
                direct = True
        if direct and not q.dominated(sv, c.bb, via_edges=exits):
            during.append(c)
    run.ob(MOD + "::serve|replay-registers-each-define", len(during) >= 1, sv.sp,
           "during replay handle_define is called with the replayed frame itself (definitions are not compacted first): %d such call(s)" % len(during),
           reason="definitions-compacted-before-validation")
    edges = F.suffix_tests(sv, ".define")
    for c in during:
        mine = [e for e in edges if q.dominated(sv, c.bb, via_edges=[e])]
        reach = sv.reachable_blocks([t for (_, t, _) in mine], removed_blocks=[c.bb]) if mine else {replay.bb}
        run.ob(MOD + "::serve|replay-every-define-reaches-handle_define", bool(mine) and replay.bb not in reach, c.sp,
               "from a replayed `.define` frame the next recv is reached only through handle_define", reason="definitions-compacted-before-validation")
    # no other place builds Commands from stored frames
    regs = C.callers_of(run.facts, MOD + "::register_command")
    run.ob(MOD + "|single-registration-path", {run.facts.enclosing_fn(b) for (b, c) in regs} == {MOD + "::handle_define"}, "<commands>",
           "commands are only compiled by handle_define (%s)" % sorted({run.facts.enclosing_fn(b) for (b, c) in regs}), reason="definitions-compacted-before-validation")


RULES = [
    ("R-C19-1", "exactly one terminal event per call: Ok returns pass one of {.complete,.error}, nothing follows it; Err returns pass none and the dispatcher adds one .error", r1),
    ("R-C19-2", "every recv / complete / error frame carries command_id and frame_id in the caller's context; .append gets the same base meta", r2),
    ("R-C19-3", "each call runs on a fresh clone of the current definition; invalid definitions are reported, valid ones replace", r3),
    ("R-C19-6", "replay registers every historical .define in order, so the latest VALID definition is in force after a restart", r6),
    ("R-C19-4", "calls are dispatched only after the replay phase (shared with R-C17-2)", c17.r2),
    ("R-C19-5", "registry keyed by (context, name): the latest definition of that key wins (shared with R-C17-1)", c17.r1),
    ("R-C19-7", "the command dispatcher keeps serving: following subscription, threshold ends replay, the live loop ends only with the stream (shared with R-C17-6)", lambda run: __import__("rules.C17", fromlist=["x"]).rule_dispatcher_shape(run, ("xs::commands::serve",))),
]
