"""Anchors shared by several properties (resolved external API call sites and test-pinned names)."""
from xsvlib.facts import FactError, walk
from xsvlib import q

BROADCAST_SEND = "tokio::sync::broadcast::Sender::<T>::send"
BROADCAST_SUBSCRIBE = "tokio::sync::broadcast::Sender::<T>::subscribe"
BROADCAST_RECV = "tokio::sync::broadcast::Receiver::<T>::recv"
MPSC_SEND = "tokio::sync::mpsc::bounded::Sender::<T>::send"
MPSC_BLOCKING_SEND = "tokio::sync::mpsc::bounded::Sender::<T>::blocking_send"
MPSC_RECV = "tokio::sync::mpsc::bounded::Receiver::<T>::recv"
ONESHOT_SEND = "tokio::sync::oneshot::Sender::<T>::send"
UNBOUNDED_SEND = "tokio::sync::mpsc::unbounded::UnboundedSender::<T>::send"
SCRU_NEW = "scru128::global_gen::new"
BATCH_COMMIT = "fjall::batch::Batch::commit"
BATCH_INSERT = "fjall::batch::Batch::insert"
BATCH_REMOVE = "fjall::batch::Batch::remove"
KEYSPACE_BATCH = "fjall::keyspace::Keyspace::batch"
KEYSPACE_PERSIST = "fjall::keyspace::Keyspace::persist"
PARTITION_RANGE = "fjall::partition::PartitionHandle::range"
PARTITION_PREFIX = "fjall::partition::PartitionHandle::prefix"
PARTITION_GET = "fjall::partition::PartitionHandle::get"
HASHSET_INSERT = "std::collections::hash::set::HashSet::<T, S, A>::insert"
HASHSET_REMOVE = "std::collections::hash::set::HashSet::<T, S, A>::remove"
HASHSET_CONTAINS = "std::collections::hash::set::HashSet::<T, S, A>::contains"
# the context registry may be any std set: an ordered BTreeSet serves `contains / insert / remove` the same way
BTREESET = "alloc::collections::btree::set::BTreeSet::<T, A>::"
SET_PREFIXES = ("std::collections::hash::set::HashSet::<T, S, A>::", BTREESET)
SET_INSERT = (HASHSET_INSERT, BTREESET + "insert")
SET_REMOVE = (HASHSET_REMOVE, BTREESET + "remove")
SET_CONTAINS = (HASHSET_CONTAINS, BTREESET + "contains")
THREAD_SPAWN = "std::thread::functions::spawn"
THREAD_BUILDER_SPAWN = "std::thread::builder::Builder::spawn"      # Builder::new().name(..).spawn(f): the closure is argument 1
THREAD_SPAWNS = (THREAD_SPAWN, THREAD_BUILDER_SPAWN)
TOKIO_SPAWN = "tokio::task::spawn::spawn"
TOKIO_SPAWN_BLOCKING = "tokio::task::blocking::spawn_blocking"

STORE = "xs::store::Store"
APPEND = "xs::store::Store::append"
INSERT_FRAME = "xs::store::Store::insert_frame"
REMOVE = "xs::store::Store::remove"
READ = "xs::store::Store::read"
READ_SYNC = "xs::store::Store::read_sync"
HEAD = "xs::store::Store::head"
GET = "xs::store::Store::get"
ITER_FRAMES = "xs::store::Store::iter_frames"
NEW = "xs::store::Store::new"
FRAME = "xs::store::Frame"
TTL = "xs::store::ttl::TTL"


def frame_typed(call):
    """Is this channel call instantiated at T = Frame?"""
    return "xs::store::Frame" in call.fnx


def body_or_fail(run, def_):
    b = run.facts.body(def_)
    if b is None:
        raise FactError("anchor body %s not found" % def_)
    run.touch(b)
    return b


def bodies_under_with_call(run, prefix, *callee, frame_only=False):
    out = []
    for b in run.facts.bodies_under(prefix):
        cs = q.live_calls(b, *callee)
        if frame_only:
            cs = [c for c in cs if frame_typed(c)]
        if cs:
            out.append((b, cs))
            run.touch(b)
    return out


def site(c):
    return "%s" % c.sp


def publishers(facts):
    """[Body]: Store::append and every other inherent Store method whose (spliced) body publishes frames on the broadcast channel
    (a batched `append_all` running the append steps per frame under the same lock).  Siblings owe what append owes."""
    out = []
    ab = facts.body(APPEND)
    if ab is not None:
        out.append(ab)
    for b in facts.all_bodies():
        if b.def_ == APPEND or not b.def_.startswith("xs::store::Store::") or b.kind != "AssocFn" or "::tests::" in b.def_:
            continue
        if any(c.fn == BROADCAST_SEND and frame_typed(c) and c.bb in b.live_blocks() for c in b.calls()):
            out.append(b)
    return out


def publisher_names(facts):
    return tuple(b.def_ for b in publishers(facts))


def iteration_cut(b):
    """Blocks that start the next round of a per-frame loop in a publisher (`for frame in frames { <append steps> }`): the
    `next()` calls whose item is the frame that is published.  'Afterwards' in a per-frame obligation means: before this block."""
    sends = [c for c in b.calls() if c.fn == BROADCAST_SEND and frame_typed(c) and c.bb in b.live_blocks()]
    out = []
    for n in b.calls():
        if n.bb in b.live_blocks() and n.fn == "core::iter::traits::iterator::Iterator::next" and not any("tracing" in str(m) for m in (n.exp or [])):
            if any(y[0] == "call" and q.same_call(y[1], n) for s_ in sends for a in s_.arg_exprs() for y in walk(a)):
                out.append(n.bb)
    return out


def append_sites(facts, b):
    """Call sites in b that hand ONE frame to the stream: calls of Store::append (the frame is argument 1) and - when b hands a
    vector of frames to a batch publisher (`store.append_all(frames)`, a sibling of append taking `Vec<Frame>`) - the `push` calls
    that fill that vector (the frame is argument 1 there too; every pushed frame is published by the batch call, in push order)."""
    out = list(q.live_calls(b, APPEND))
    batch = [p for p in publishers(facts) if p.def_ != APPEND and p.argc >= 2 and p.local_tystr(2).startswith("alloc::vec::Vec<xs::store::Frame")]
    for p in batch:
        for bc in q.live_calls(b, p.def_):
            prods = [y[1] for y in walk(bc.arg(1)) if y[0] == "call" and (y[1].fn.startswith("alloc::vec::Vec::<T>::") or "collect" in y[1].fn)]
            pushed = []
            for pu in q.live_calls(b, "alloc::vec::Vec::<T, A>::push"):
                if any(y[0] == "call" and any(q.same_call(y[1], pr) for pr in prods) for y in walk(pu.arg(0))) and q.reaches(b, pu.bb, bc.bb):
                    pushed.append(pu)
            # a vector that was collected (not pushed into) is handed over whole: the batch call itself is the site, its
            # argument 1 the collection - per-frame obligations then have to hold for every element (see C15.prepass_covers)
            out += pushed if pushed else [bc]
    return out


def is_batch_publish(facts, c):
    return c.fn != APPEND and c.fn in publisher_names(facts)


def delegates_of(facts, fn):
    """Functions whose body was looked through at `fn` (spliced there) and that stay visible because they are public / have other
    callers: `read_sync(a, b, c)` = `read_sync_topic(a, b, c, None)`.  What holds for fn's spliced body holds for them."""
    out = []
    for (a, h) in getattr(facts, "inlined", []) or []:
        if (a == fn or a.startswith(fn + "::{")) and "{closure" not in h and h not in out:
            hb = facts.body(h)
            if hb is not None and not getattr(hb, "hidden", False):
                out.append(h)
    return tuple(out)


def param_index(facts, fn, name, default):
    """Position (1-based, as in call arguments: 0 = self) of the parameter called `name` of crate function fn."""
    b = facts.body(fn)
    if b is None:
        return default
    for i in range(1, b.argc + 1):
        if b.lname(i) == name:
            return i - 1
    return default


def insert_wrappers(facts):
    """Store methods that hand their own `&Frame` parameter on to Store::insert_frame (e.g. a `Store::import_frame(&self, &Frame)`
    that looks at what is stored first): for the who-may-insert and keep-ephemeral-out rules the obligation lies with THEIR
    callers, exactly as for insert_frame itself."""
    out = []
    for b in facts.all_bodies():
        if not b.def_.startswith("xs::store::Store::") or b.kind != "AssocFn" or b.def_ in (INSERT_FRAME, APPEND) or "::tests::" in b.def_:
            continue
        cs = [c for c in b.calls() if c.fn == INSERT_FRAME and c.bb in b.live_blocks()]
        if not cs:
            continue
        ok = True
        for c in cs:
            rl = q.root_local(b, c.args[1]) if len(c.args) > 1 else None
            if rl is None or not (1 <= rl <= b.argc) or b.local_tystr(rl).startswith("&mut"):
                ok = False
        if ok:
            out.append(b.def_)
    return tuple(out)


def removers(facts):
    """Store::remove and every other function of xs::store that fills a batch with removals (a private `remove_frame(&Frame)`
    that Store::remove and the GC share): the functions whose call takes a frame out of the store."""
    out = [REMOVE]
    for b in facts.all_bodies():
        if b.def_.startswith("xs::store::") and "::tests::" not in b.def_ and b.def_ != REMOVE and b.kind in ("Fn", "AssocFn"):
            if any(c.fn == BATCH_REMOVE and c.bb in b.live_blocks() for c in b.calls()):
                out.append(b.def_)
    return tuple(out)


def callers_of(facts, def_):
    """[(body, callsite)] of all live calls to a crate-local function."""
    out = []
    for b in facts.all_bodies():
        for c in q.live_calls(b, def_):
            out.append((b, c))
    return out
