"""Rules over the store core that are shared by several properties."""
from xsvlib.facts import FactError, fmt, strip, place_path, walk
from xsvlib import q
from . import common as C


def read_bodies(run):
    """Locate the bodies below Store::read by content (closure indices are not stable):
    main = calls broadcast subscribe; history = plain closure reaching iter_frames;
    live = coroutine polling broadcast recv; heartbeat = coroutine calling tokio sleep."""
    out = {"main": None, "history": None, "live": None, "heartbeat": None}
    for b in run.facts.bodies_under(C.READ):
        if b.kind != "Closure":
            continue
        if [c for c in q.live_calls(b, "tokio::sync::mpsc::bounded::channel") if C.frame_typed(c)]:
            out["main"] = b   # the body that creates the per-subscriber delivery channel
        if q.live_calls(b, C.ITER_FRAMES):
            out["history"] = b
        if q.live_calls(b, C.BROADCAST_RECV):
            out["live"] = b
        if q.live_calls(b, "tokio::time::sleep::sleep"):
            out["heartbeat"] = b
    for k, b in out.items():
        run.touch(b)
    return out


def arg_local_of(e):
    """If e is (a projection of) a function argument return its local index."""
    e = strip(e)
    while e[0] in ("field", "downcast", "deref", "ref", "index"):
        e = e[1]
    if e[0] == "arg":
        return e[1]
    return None


def mentions_arg(e, argl):
    for x in walk(e):
        if x[0] == "arg" and x[1] == argl:
            return True
    return False


def bound_payload_info(body, bound_expr):
    """For a Bound aggregate expr return (variant, segments|None, raw_exprs) where segments is the symbolic
    byte content when the payload is a locally built Vec."""
    info = bound_expr[1]
    variant = info["variant"]
    if variant == "Unbounded":
        return variant, [], []
    raw_op = info["ops"][0]
    payload = bound_expr[2][0]
    exprs = [payload]
    segs = None
    l = q.root_local(body, raw_op)
    if l is not None and not (1 <= l <= body.argc):
        try:
            segs = q.vec_segments(body, l)
            exprs = [s[1] for s in segs]
        except FactError:
            segs = None
    return variant, segs, exprs


def range_calls(run):
    it = C.body_or_fail(run, C.ITER_FRAMES)
    calls = q.live_calls(it, C.PARTITION_RANGE)
    return it, calls


def rule_range_bounds(run):
    """R-C01-1 / R-C02-3 / R-C06-6: kinds and provenance of the range bounds in iter_frames."""
    it, calls = range_calls(run)
    run.floor("Partition::range call sites in Store::iter_frames", len(calls), 2, it.sp)
    # parameter roles are pinned by the tests' calls: iter_frames(&self, context_id: Option<Scru128Id>, last_id: Option<&Scru128Id>)
    if it.argc != 3:
        run.unrecognised("%s|signature" % it.def_, "iter_frames no longer takes (self, context_id, last_id)", it.sp)
        return
    CTX, LAST = 2, 3
    for c in calls:
        part = place_path(strip(c.arg(0)))
        part_name = part[-1] if part else "?"
        alts = q.flatten_phi(strip(c.arg(1)))
        n_last = 0
        for alt in alts:
            alt = strip(alt)
            if not (alt[0] == "agg" and alt[1].get("agg") == "tuple" and len(alt[2]) == 2):
                run.unrecognised("%s|range(%s)|bounds" % (it.def_, part_name), "range argument is not a (Bound, Bound) tuple: %s" % fmt(alt), c.sp)
                continue
            for side, be in (("lower", alt[2][0]), ("upper", alt[2][1])):
                for b in q.flatten_phi(strip(be)):
                    b = strip(b)
                    if not (b[0] == "agg" and b[1].get("adt", "").endswith("ops::range::Bound")):
                        run.unrecognised("%s|range(%s)|%s" % (it.def_, part_name, side), "bound is not a Bound aggregate: %s" % fmt(b), c.sp)
                        continue
                    variant, segs, exprs = bound_payload_info(it, b)
                    uses_last = any(mentions_arg(x, LAST) for x in exprs)
                    uses_ctx = any(mentions_arg(x, CTX) for x in exprs)
                    desc = "%s bound of %s.range = %s(%s)" % (side, part_name, variant, ", ".join(fmt(x) for x in exprs))
                    if uses_last:
                        n_last += 1
                        run.ob("%s|range(%s)|%s|last_id" % (it.def_, part_name, side), variant == "Excluded" and side == "lower", c.sp,
                               "a bound built from last_id must be the lower bound and Excluded (resume strictly after last-id): " + desc,
                               reason="inclusive-or-misplaced-last-id-bound")
                    if side == "upper":
                        run.ob("%s|range(%s)|upper|kind" % (it.def_, part_name), variant in ("Excluded", "Unbounded"), c.sp,
                               "upper bound must be Excluded or Unbounded: " + desc, reason="inclusive-upper-bound")
                    if part_name == "idx_context":
                        if side == "lower":
                            # must start with the context id bytes
                            first = exprs[0] if exprs else None
                            ok = first is not None and mentions_arg(first, CTX)
                            run.ob("%s|range(idx_context)|lower|ctx-prefix%s" % (it.def_, "|last_id" if uses_last else ""), ok, c.sp,
                                   "lower bound of the context index must start with the context id: " + desc,
                                   reason="context-range-not-anchored")
                            if not uses_last:
                                run.ob("%s|range(idx_context)|lower|included" % it.def_, variant == "Included" and len(exprs) == 1, c.sp,
                                       "without last_id the context scan starts at Included(ctx bytes): " + desc, reason="context-range-start")
                        else:
                            # Excluded(helper(ctx)) : a crate-local function of the context id only
                            ok = variant == "Excluded" and len(exprs) == 1 and uses_ctx and not uses_last
                            pe = strip(exprs[0]) if exprs else None
                            helper = pe[1].fn if pe is not None and pe[0] == "call" else None
                            run.ob("%s|range(idx_context)|upper|ctx+1" % it.def_, ok and helper is not None and pe[1].local, c.sp,
                                   "upper bound of the context index is Excluded(<range-end helper>(ctx)): " + desc, reason="context-range-end")
                            run.range_end_helper = helper
                            if helper is not None and pe[1].local:
                                check_range_end_helper(run, helper)
        if part_name in ("idx_context", "frame_partition"):
            run.ob("%s|range(%s)|last_id-used" % (it.def_, part_name), n_last >= 1, c.sp,
                   "the %s scan honours last_id (one alternative lower bound is built from it)" % part_name, reason="last-id-ignored")


ADD_ONE = ("core::num::<impl u128>::saturating_add", "core::num::<impl u128>::wrapping_add", "core::num::<impl u128>::checked_add",
           "core::num::<impl u128>::overflowing_add")


def check_range_end_helper(run, helper):
    """The exclusive end of a context scan is the key of the NEXT context: bytes of (ctx as u128) + 1.  Without the increment
    the range [ctx, ctx) is empty and every context-scoped read returns nothing."""
    hb = run.facts.body(helper)
    if hb is None:
        run.missing("%s|body" % helper, "range-end helper has no body")
        return
    run.touch(hb)
    incs = []
    for c in hb.calls():
        if c.bb in hb.live_blocks() and c.fn in ADD_ONE and q.const_int(c.arg(1)) == 1 and \
                any(y[0] == "call" and y[1].fn.endswith("Scru128Id::to_u128") for y in walk(c.arg(0))) or \
                (c.bb in hb.live_blocks() and c.fn in ADD_ONE and q.const_int(c.arg(1)) == 1 and any(y[0] == "arg" for y in walk(c.arg(0)))):
            incs.append(("call", c.bb, c.sp))
    for bi, si, st in hb.stmt_points():
        if st["k"] == "assign" and bi in hb.live_blocks() and st["rv"].get("bin") in ("Add", "AddWithOverflow", "AddUnchecked"):
            e = hb.rvalue_expr(st["rv"])
            if q.const_int(e[3]) == 1 or q.const_int(e[2]) == 1:
                incs.append(("bin", bi, st["sp"]))
    rets = [bb for (bb, e, raw) in hb.return_defs()]
    ok = bool(incs) and bool(rets) and all(any(q.dominated(hb, rb, via_blocks=[i[1]]) or rb == i[1] for i in incs) for rb in rets)
    uses_ctx = all(any(y[0] == "arg" and y[1] == 1 for y in walk(e)) for (bb, e, raw) in hb.return_defs())
    run.ob("%s|ctx-plus-one" % helper, ok and uses_ctx, hb.sp,
           "the range end is built from the context id incremented by exactly one on every path (%d increment site(s))" % len(incs), reason="context-range-end")


def store_points(body):
    """[(call, ok_edges)]: where a frame becomes part of the partitions in `body` - a call to Store::insert_frame, or the batch
    commit of a writer helper that was spliced into this body (e.g. `commit_frame` shared by append and insert_frame)."""
    pts = []
    for c in q.live_calls(body, C.INSERT_FRAME):
        pts.append((c, q.call_result_edges(body, c, ok=True)))
    for c in q.live_calls(body, C.BATCH_COMMIT):
        pts.append((c, q.call_result_edges(body, c, ok=True)))
    return pts


# ------------------------------------------------------------------ batches (C04 / C05)

def batch_bodies(run):
    """Bodies that create a fjall batch, with their operations."""
    out = []
    for b in run.facts.all_bodies():
        mk = q.live_calls(b, C.KEYSPACE_BATCH)
        if not mk:
            continue
        run.touch(b)
        ops = q.live_calls(b, C.BATCH_INSERT, C.BATCH_REMOVE)
        commits = q.live_calls(b, C.BATCH_COMMIT)
        out.append({"body": b, "make": mk, "ops": ops, "commits": commits})
    return out


def partition_field(call, argi=1):
    p = place_path(strip(call.arg(argi)))
    if p and len(p) >= 2 and p[0] in ("self", "store"):
        return p[1]
    if p and p[0] == "<env>":
        return p[-1]
    return None


BYTES_VIEWS = ("alloc::slice::<impl [T]>::to_vec", "alloc::borrow::ToOwned::to_owned", "core::convert::AsRef::as_ref", "core::convert::Into::into",
               "core::convert::From::from", "core::clone::Clone::clone", "alloc::vec::Vec::<T, A>::as_slice", "core::ops::deref::Deref::deref")


def key_constructor(e):
    """Identity of the key expression of a batch operation: ('id-bytes', place) | ('fn', callee, args) | ('other', fmt)."""
    x = q.peel(e)
    # the same bytes handed over as a Vec, a full slice or a plain reference: `id.as_bytes().to_vec()`, `&id.as_bytes()[..]`
    n = 0
    while n < 6:
        n += 1
        if x[0] == "call" and x[1].fn in BYTES_VIEWS and x[2]:
            x = q.peel(x[2][0])
        elif x[0] == "call" and x[1].fn == "core::ops::index::Index::index" and len(x[2]) == 2 and "RangeFull" in fmt(strip(x[2][1])):
            x = q.peel(x[2][0])
        elif x[0] in ("ref", "deref", "cast") and len(x) > 1 and isinstance(x[1], tuple):
            x = q.peel(x[1])
        else:
            break
    if x[0] == "call" and x[1].fn == "scru128::id::Scru128Id::as_bytes":
        return ("id-bytes", fmt(strip(x[2][0])))
    if x[0] == "call" and x[1].local:
        return ("fn", x[1].fn, [fmt(strip(a)) for a in x[2]])
    return ("other", fmt(x))


def is_direct_partition_mutator(fn):
    return fn.startswith("fjall::partition::PartitionHandle::") and fn.split("::")[-1] in (
        "insert", "remove", "remove_weak", "ingest", "bulk_ingest")


def rule_no_direct_mutators(run):
    # engine self-check (positive control): the predicate must recognise fjall's mutators and reject readers
    assert is_direct_partition_mutator("fjall::partition::PartitionHandle::insert")
    assert is_direct_partition_mutator("fjall::partition::PartitionHandle::remove")
    assert not is_direct_partition_mutator("fjall::partition::PartitionHandle::get")
    facts = run.facts
    siblings = [c for c in facts.all_calls() if c.fn.startswith("fjall::partition::PartitionHandle::")]
    run.floor("PartitionHandle method call sites seen by the extractor (range/prefix/get: naming sanity)", len(siblings), 5)
    direct = [c for c in siblings if is_direct_partition_mutator(c.fn) and c.bb in c.body.live_blocks()]
    run.ob("crate|direct-partition-mutators", not direct, direct[0].sp if direct else "<crate>",
           "no direct PartitionHandle::insert/remove outside a Batch (%d found: %s)" % (len(direct), [c.sp for c in direct]),
           reason="write-outside-batch")


# ------------------------------------------------------------------ expiry / GC (C01, C08, C09)

GCTASK = "xs::store::GCTask"


def gc_requests(run):
    """[(body, send_call, variant, agg_expr)] for every GCTask constructed and sent."""
    out = []
    for b in run.facts.all_bodies():
        for c in q.live_calls(b, C.UNBOUNDED_SEND):
            if GCTASK not in c.fnx:
                continue
            a = strip(c.arg(1))
            if a[0] == "agg" and a[1].get("adt") == GCTASK:
                out.append((b, c, a[1]["variant"], a))
                run.touch(b)
            else:
                # the task was built earlier and kept in an Option (`let task = match ttl { Head(n) => Some(CheckHeadTTL{..}), _ => None }`)
                inner = [y for o in list(q.origins(c.arg(1))) + [c.arg(1)] for y in walk(o) if y[0] == "agg" and y[1].get("adt") == GCTASK]
                seen = set()
                for y in inner:
                    k = (y[1].get("variant"), fmt(y)[:200])
                    if k not in seen:
                        seen.add(k)
                        out.append((b, c, y[1]["variant"], y))
                        run.touch(b)
    return out


def _is_frame_predicate(call):
    """A crate-local `fn(&Frame) -> bool`: the frame-level spelling of the expiry predicate (TTL guard inside the callee)."""
    hb = call.body.crate.bodies.get(call.fn) if hasattr(call.body, "crate") else None
    if hb is None or hb.argc < 1:
        return False
    return "xs::store::Frame" in hb.local_tystr(1) and hb.local_tystr(0) == "bool"


def expiry_tests(body):
    """[(bb, call, true_edges, false_edges)] switches whose condition is a crate-local bool predicate over (&x.id, ttl-of-x), or
    over the frame itself (`is_time_expired(&frame)`, the TTL::Time guard then lives in the predicate)."""
    out = []
    for bb, si in body.switches():
        if si["kind"] != "bool":
            continue
        cond = si["cond"]
        if cond[0] == "call" and cond[1].local and len(cond[2]) >= 2 and q.last_field(cond[2][0]) == "id":
            out.append((bb, cond, q.edge_triples(body, bb, lambda m: m is True), q.edge_triples(body, bb, lambda m: m is False)))
        elif cond[0] == "call" and cond[1].local and len(cond[2]) == 1 and _is_frame_predicate(cond[1]):
            out.append((bb, cond, q.edge_triples(body, bb, lambda m: m is True), q.edge_triples(body, bb, lambda m: m is False)))
    return out


def expiry_test_subject(run, cond):
    """(id_base, ttl_base) - which frame's id and which frame's TTL::Time payload an expiry test is about.  For the frame-level
    predicate both are the argument frame, provided the callee itself pairs `frame.id` with `frame.ttl`'s Time payload."""
    if len(cond[2]) >= 2:
        return frame_base_of(cond[2][0]), ttl_time_payload_base(cond[2][1])
    hb = run.facts.body(cond[1].fn)
    base = fmt(strip(cond[2][0]))
    x = strip(cond[2][0])
    while x[0] in ("ref", "deref"):
        x = x[1]
    base = fmt(x)
    if hb is None:
        return None, None
    run.touch(hb)
    uses_id = any(y[0] == "call" and y[1].fn == "scru128::id::Scru128Id::timestamp" and q.last_field(y[2][0]) == "id" and any(z[0] == "arg" and z[1] == 1 for z in walk(y[2][0]))
                  for bb2, st2, st in hb.stmt_points() for y in ()) or any(
        c.fn == "scru128::id::Scru128Id::timestamp" and q.last_field(c.arg(0)) == "id" and any(z[0] == "arg" and z[1] == 1 for z in walk(c.arg(0))) for c in hb.calls() if c.bb in hb.live_blocks()) or any(
        c.local and c.args and q.last_field(c.arg(0)) == "id" and any(z[0] == "arg" and z[1] == 1 for z in walk(c.arg(0))) for c in hb.calls() if c.bb in hb.live_blocks())
    uses_ttl = any(si["kind"] == "variant" and (si.get("adt") or "").endswith("ttl::TTL") and any(z[0] == "arg" and z[1] == 1 for z in walk(si["cond"])) and q.has_field(si["cond"], "ttl")
                   for bb2, si in hb.switches())
    return (base if uses_id else None), (base if uses_ttl else None)


def frame_base_of(e):
    """fmt of the place the `.id` / `.ttl` projection is taken from (used to say 'the same frame')."""
    x = strip(e)
    n = 0
    while n < 20:
        n += 1
        if x[0] == "field" and x[2] in ("id", "ttl", "topic", "context_id"):
            return fmt(strip(x[1]))
        if x[0] in ("field", "downcast", "deref", "ref"):
            x = x[1]
            continue
        if x[0] == "call" and x[2]:
            x = strip(x[2][0])
            continue
        break
    return None


def ttl_time_payload_base(e):
    """If e is the payload of (<frame>.ttl as Some -> Time).0 return fmt(frame base)."""
    x = strip(e)
    seen_time = False
    n = 0
    while n < 30:
        n += 1
        if x[0] == "downcast" and x[2] == "Time":
            seen_time = True
        if x[0] == "field" and x[2] == "ttl":
            return fmt(strip(x[1])) if seen_time else None
        if x[0] in ("field", "downcast", "deref", "ref"):
            x = x[1]
            continue
        if x[0] == "call" and x[2]:
            x = strip(x[2][0])
            continue
        break
    return None


CLOCK = "std::time::SystemTime::now"
CLOCKS = ("std::time::SystemTime::now", "std::time::SystemTime::elapsed", "std::time::Instant::now", "std::time::Instant::elapsed")


def clock_fns(run, depth=3):
    """Crate-local functions that read the wall clock (directly or through local callees)."""
    out = set()
    for _ in range(depth):
        for b in run.facts.all_bodies():
            if b.def_ in out or b.kind not in ("Fn", "AssocFn"):
                continue
            for c in b.calls():
                if c.bb in b.live_blocks() and (c.fn in CLOCKS or c.fn in out):
                    out.add(b.def_)
    return out


def reads_clock(run, e, cfns=None):
    cfns = cfns if cfns is not None else clock_fns(run)
    return [y[1] for y in walk(e) if y[0] == "call" and (y[1].fn in CLOCKS or y[1].fn in cfns)]


def rule_clock_freshness(run):
    """Every expiry decision uses a clock reading taken for THAT decision: inside the predicate, or in the same per-item
    body after the item was obtained (a reading hoisted out of the scan makes frames that expire during the scan live forever)."""
    cfns = clock_fns(run)
    n = 0
    for (b, c, variant, agg) in gc_requests(run):
        if variant != "Remove":
            continue
        for (bb, cond, t_edges, f_edges) in expiry_tests(b):
            if not (t_edges and q.dominated(b, c.bb, via_edges=t_edges)):
                continue
            n += 1
            pred = cond[1].fn
            fn = b.def_
            if pred in cfns:
                run.ob("%s|expiry-clock" % fn, True, cond[1].sp, "the expiry predicate %s reads the clock itself at every decision" % pred.split("::")[-1])
                continue
            # the clock value is an argument: find where it was read
            srcs = []
            for a in cond[2]:
                srcs += reads_clock(run, a, cfns)
            stale_capture = any(y[0] == "field" and y[1][0] == "env" and ("now" in str(y[2]) or "clock" in str(y[2])) for a in cond[2] for y in walk(a))
            if not srcs:
                run.ob("%s|expiry-clock" % fn, False, cond[1].sp,
                       "the expiry decision uses no clock reading taken in this per-frame body (%s): a reading captured / passed from outside the scan goes stale while the scan runs" % (
                           "captured value" if stale_capture else "no SystemTime::now in the predicate or its arguments"), reason="stale-clock-in-expiry")
                continue
            # per-item freshness: in a loop body the reading must follow the iterator step; in a per-item closure any position is fresh
            nxt = [x for x in b.calls() if x.bb in b.live_blocks() and x.fn.endswith("Iterator::next") and not any("tracing" in str(m) for m in (x.exp or []))]
            fresh = True
            for sc in srcs:
                if nxt and not any(q.dominated(b, sc.bb, via_blocks=[x.bb]) and q.reaches(b, x.bb, sc.bb) for x in nxt):
                    fresh = False
            run.ob("%s|expiry-clock" % fn, fresh, cond[1].sp, "the clock is read after the frame was obtained from the iterator (per decision)", reason="stale-clock-in-expiry")
    run.floor("expiry decisions guarding GCTask::Remove", n, 2)


# ------------------------------------------------------------------ name-independent roles of captured values

def capture_origin(run, body, cap_name):
    """(parent_body, expr) moved / copied into capture `cap_name` of the closure / coroutine `body` at its construction site."""
    names = [c["name"] for c in body.captures]
    if cap_name not in names:
        return None
    idx = names.index(cap_name)
    home = run.facts.enclosing_fn(body)
    spliced_into = {a for (a, h) in getattr(run.facts, "inlined", []) if h == home}
    found = []
    for pb in run.facts.all_bodies():
        lexical = body.def_.startswith(pb.def_) or pb.def_.startswith(home)
        if not (lexical or pb.def_ in spliced_into):
            continue
        for bi, si, st in pb.stmt_points():
            if st["k"] == "assign" and st["rv"].get("agg") in ("closure", "coroutine") and st["rv"].get("def") == body.def_ and bi in pb.live_blocks():
                e = pb.rvalue_expr(st["rv"])
                if idx < len(e[2]):
                    found.append((0 if pb.def_ in spliced_into else 1, pb, e[2][idx]))
    if found:
        # the copy of the construction site spliced into an anchor sees what the anchor passed in (the helper's own parameters are
        # opaque in the helper itself)
        found.sort(key=lambda x: x[0])
        return found[0][1], found[0][2]
    return None


def subst_env(run, cb, e):
    """Rewrite the captured-environment places of closure `cb` inside expression `e` into the expressions the parent captured."""
    if isinstance(e, tuple):
        if len(e) == 3 and e[0] == "field" and isinstance(e[1], tuple) and (e[1] == ("env",) or (e[1][0] in ("deref", "ref") and e[1][1:] and e[1][1] == ("env",))):
            po = capture_origin(run, cb, str(e[2]))
            if po is not None:
                return po[1]
        return tuple(subst_env(run, cb, x) for x in e)
    if isinstance(e, list):
        return [subst_env(run, cb, x) for x in e]
    return e


def comparison_through_option(run, body, cond):
    """`opt.is_some_and(|c| a <rel> c)` (or is_none_or) as a comparison of the parent's terms: (rel, lhs, rhs, kind) where the
    closure parameter is replaced by `(opt as Some).0` and captured places by what the parent captured.  kind = 'some_and' (the
    switch's true edge means Some and rel) or 'none_or' (true edge means None or rel).  None when `cond` has another shape."""
    c = strip(cond)
    if not (c[0] == "call" and c[1].fn in ("core::option::Option::<T>::is_some_and", "core::option::Option::<T>::is_none_or") and len(c[2]) == 2):
        return None
    clo = strip(c[2][1])
    cb = run.facts.body(clo[1].get("def")) if clo[0] == "agg" and clo[1].get("def") else None
    if cb is None:
        return None
    rets = cb.return_defs()
    if len(rets) != 1:
        return None
    cm = q.comparison(rets[0][1])
    if not cm:
        return None
    rel, l, r = cm
    payload = ("field", ("downcast", c[2][0], "Some"), "0")
    def lift(x):
        if any(y[0] == "arg" and y[1] == 2 for y in walk(x)):
            return payload
        return subst_env(run, cb, x)
    return (rel, lift(l), lift(r), "some_and" if c[1].fn.endswith("is_some_and") else "none_or")


def denotes_field(run, body, e, field, depth=0):
    """Does expression `e` (in `body`) carry the value of a struct field called `field` (e.g. ReadOptions.limit), directly,
    through a precise capture (`options__limit`) or through a capture of a local copy (`let limit = options.limit`)?"""
    for y in walk(e):
        if y[0] == "field" and y[1][0] != "env" and str(y[2]) == field:
            return True
        if y[0] == "field" and y[1][0] == "env":
            name = str(y[2])
            if name.split("__")[-1] == field:
                return True
            if depth < 3:
                po = capture_origin(run, body, name)
                if po is not None and denotes_field(run, po[0], po[1], field, depth + 1):
                    return True
        if y[0] == "arg" and y[2] == field:
            return True
    return False


def is_oneshot_await(e):
    """The value obtained by awaiting a tokio oneshot receiver (the history -> live hand-off)."""
    return any(y[0] == "call" and y[1].fn.endswith("Future::poll") and "tokio::sync::oneshot::Receiver" in y[1].fnx for y in walk(e))


def capture_type_contains(body, e, needle):
    """Is `e` (a place rooted in the closure environment) a capture whose type mentions `needle`?"""
    x = strip(e)
    while x[0] in ("downcast", "deref", "ref") or (x[0] == "field" and x[1][0] != "env"):
        x = x[1]
    if x[0] == "field" and x[1][0] == "env":
        for c in body.captures:
            if c["name"] == str(x[2]):
                return needle in body.types.s(c["ty"])
    return False


def is_follow_flag(run, body, cond):
    """Is `cond` (in `body`) a bool that is true exactly when the read follows: a captured / local bool whose definitions in the
    parent are `true` under the On / WithHeartbeat arms of a switch on the `follow` option and `false` under Off?"""
    c = strip(cond)
    src = None
    if c[0] == "field" and c[1][0] == "env":
        src = capture_origin(run, body, str(c[2]))
    elif c[0] == "phi":
        src = (body, c)
    if src is None:
        return False
    pb, e = src
    e = strip(e)
    if e[0] != "phi":
        return False
    local = e[1]
    ok = True
    n = 0
    for d in pb.defs().get(local, []):
        if d[0] != "assign" or "use" not in d[3] or "const" not in d[3]["use"] or "bool" not in d[3]["use"]["const"]:
            ok = False
            continue
        val = d[3]["use"]["const"]["bool"]
        # find a variant switch on the follow option with an edge dominating this definition
        found = False
        for sb, ss in pb.switches():
            if ss["kind"] == "variant" and denotes_field(run, pb, ss["cond"], "follow"):
                on_edges = [(sb, t, lab) for (t, lab, m) in ss["edges"] if (set(m) if isinstance(m, tuple) else {m}) <= {"On", "WithHeartbeat"} and m]
                off_edges = [(sb, t, lab) for (t, lab, m) in ss["edges"] if (set(m) if isinstance(m, tuple) else {m}) <= {"Off"} and m]
                grp = on_edges if val else off_edges
                if grp and q.dominated(pb, d[1], via_edges=grp):
                    found = True
        ok = ok and found
        n += 1
    return ok and n >= 2


def flag_implications(run, body, cond, depth=0):
    """Facts that hold whenever the bool `cond` (in `body`) is true: subset of {"follow", "nolimit"}.  Covers the follow flag itself,
    `limit.is_none()`, and a bool computed up front (`let send_threshold = should_follow && options.limit.is_none();`, possibly
    captured by a task closure): each definition that is not the constant `false` lies behind - or is itself - such a test."""
    c = strip(cond)
    out = set()
    if is_follow_flag(run, body, cond):
        out.add("follow")
    if c[0] == "call" and c[1].fn == "core::option::Option::<T>::is_none" and denotes_field(run, body, c, "limit"):
        out.add("nolimit")
    if out or depth > 2:
        return out
    src = None
    if c[0] == "field" and c[1][0] == "env":
        src = capture_origin(run, body, str(c[2]))
    elif c[0] == "phi":
        src = (body, c)
    if src is None:
        return out
    pb, e = src
    e = strip(e)
    if e[0] != "phi":
        return flag_implications(run, pb, e, depth + 1) if pb is not body or e != c else out
    local = e[1]
    common = None
    n_true = 0
    for d in pb.defs().get(local, []):
        if d[0] == "yield":
            return set()
        if d[0] == "assign":
            rv = d[3]
            if "use" in rv and "const" in rv["use"] and rv["use"]["const"].get("bool") is False:
                continue
        n_true += 1
        here = set()
        try:
            val = pb.rvalue_expr(d[3]) if d[0] == "assign" else ("call", d[2], d[2].arg_exprs())
            here |= flag_implications(run, pb, val, depth + 1)
        except FactError:
            pass
        for sb, ss in pb.switches():
            if ss["kind"] != "bool":
                continue
            te = q.edge_triples(pb, sb, lambda m: m is True)
            if te and q.dominated(pb, d[1], via_edges=te):
                here |= flag_implications(run, pb, ss["cond"], depth + 1)
        common = here if common is None else (common & here)
    return common if (common and n_true) else set()


def follow_flag_edges(run, body, value=True):
    """Edges (true ones by default) of the switches on the follow flag (see is_follow_flag)."""
    out = []
    for bb, si in body.switches():
        if si["kind"] == "bool" and (is_follow_flag(run, body, si["cond"]) or (value is True and "follow" in flag_implications(run, body, si["cond"]))):
            out += q.edge_triples(body, bb, lambda m: m is value)
    return out
