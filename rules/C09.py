"""C09 - TTL policies are enforced: ephemeral, time:N, head:N."""
from xsvlib.facts import fmt, strip, place_path, walk
from xsvlib import q
from . import common as C
from . import C01 as c01
from . import C08 as c08

EXPLANATION = ("Every call chain to the primary-partition insert passes a 'ttl != Ephemeral' edge while every Ok path of append still "
               "broadcasts; both read paths filter expired frames (shared with C01); TTL::Head is constructed at one site dominated by n >= 1; "
               "head eviction order (shared with C08); synthetic frames are built Ephemeral.")
NOT_DECIDED = ["physical removal after a drain and at-most-N after a drain (GC queue semantics, timing)",
               "delivery of ephemeral frames to exactly the followers subscribed at that moment (tokio broadcast)"]


def ephemeral_guards(body):
    """Edges on which `<x>.ttl != Some(Ephemeral)` is known."""
    edges = []
    for bb, si in body.switches():
        if si["kind"] != "bool":
            continue
        cmp_ = q.comparison(si["cond"])
        if not cmp_:
            continue
        rel, l, r = cmp_
        if rel not in ("eq", "ne"):
            continue
        sides = [strip(l), strip(r)]
        has_ttl = any(q.last_field(s) == "ttl" for s in sides)
        eph = False
        for s in sides:
            for x in walk(s):
                if x[0] == "agg" and x[1].get("adt") == C.TTL and x[1].get("variant") == "Ephemeral":
                    eph = True
        if has_ttl and eph:
            edges += q.edge_triples(body, bb, lambda m: m is (rel == "ne"))
    # match / matches! forms: discriminant switch on (<x>.ttl as Some).0
    for bb, si in body.switches():
        if si["kind"] != "variant" or si.get("adt") != C.TTL:
            continue
        if not any(x[0] == "field" and x[2] == "ttl" for x in walk(si["cond"])):
            continue
        for (t, lab, m) in si["edges"]:
            ms = m if isinstance(m, tuple) else (m,)
            if "Ephemeral" not in ms:
                edges.append((bb, t, lab))
    # ... and the `None` edge of the Option test that precedes it (`matches!(x.ttl, Some(TTL::Ephemeral))`): no ttl is not ephemeral
    for bb, si in body.switches():
        if si["kind"] == "variant" and "option::Option" in (si.get("adt") or "") and q.last_field(si["cond"]) == "ttl":
            for (t, lab, m) in si["edges"]:
                ms = m if isinstance(m, tuple) else (m,)
                if ms == ("None",):
                    edges.append((bb, t, lab))
    return edges


def rule_ttl_decision_final(run):
    for pb in C.publishers(run.facts):
        run.touch(pb)
        rule_ttl_decision_final_for(run, pb, pb.def_)


def rule_ttl_decision_final_for(run, ab0, AP):
    # the decision is taken on the frame's final ttl: no write to `<frame>.ttl` follows the point where the ttl is read for it
    cut = C.iteration_cut(ab0)
    ab0.defs()
    ttl_writes = [(bi, sp) for (bi, si, lhs, rv, sp) in ab0.field_writes
                  if lhs["p"] and isinstance(lhs["p"][-1], dict) and lhs["p"][-1].get("n") == "ttl" and lhs["p"][-1].get("adt") == C.FRAME and bi in ab0.live_blocks()]
    reads = []
    for bb, si in ab0.switches():
        cond = strip(si["cond"])
        if si["kind"] == "bool":
            cm = q.comparison(cond)
            if cm and any(q.last_field(x) == "ttl" for x in (cm[1], cm[2])) and any(
                    y[0] == "agg" and y[1].get("adt") == C.TTL and y[1].get("variant") == "Ephemeral" for x in (cm[1], cm[2]) for y in walk(x)):
                # the comparison is evaluated where its call sits (a `let durable = ..` may be far from the `if durable`)
                site = cond[1].bb if cond[0] == "call" else bb
                reads.append((site, ab0.blocks[site]["term"]["sp"]))
        elif si["kind"] == "variant" and si.get("adt") == C.TTL and q.has_field(si["cond"], "ttl"):
            reads.append((bb, ab0.blocks[bb]["term"]["sp"]))
    stale = [(rs, ws) for (rb, rs) in reads for (wb, ws) in ttl_writes if q.reaches(ab0, rb, wb, removed_blocks=cut)]
    run.ob("%s|ephemeral-test-on-final-ttl" % AP, bool(reads) and not stale, ab0.sp,
           "append decides `store or not` on the ttl the frame ends up with: no assignment to frame.ttl (the xs.context branch forces Forever) follows the test (%s)" % stale,
           reason="ephemeral-decision-on-stale-ttl")


def r1(run):
    wrappers = C.insert_wrappers(run.facts)
    callers = [(b, c) for (b, c) in C.callers_of(run.facts, C.INSERT_FRAME) if run.facts.enclosing_fn(b) not in wrappers]
    for w in wrappers:
        callers += C.callers_of(run.facts, w)    # the frame a forwarding wrapper stores is its caller's: the guard is owed there
    spliced_writers = [b0 for b0 in run.facts.all_bodies() if b0.def_ != C.INSERT_FRAME and q.live_calls(b0, C.BATCH_INSERT)]
    run.floor("Store::insert_frame call sites", len(callers) + len(spliced_writers), 2)
    for (b, c) in callers:
        fn = run.facts.enclosing_fn(b)
        run.touch(b)
        ok = never_for_ephemeral(b, c.bb)
        run.ob("%s|call:Store::insert_frame" % fn, ok, c.sp,
               "the frame reaches Store::insert_frame only through a `ttl != Ephemeral` edge in %s" % fn, reason="ephemeral-may-be-stored")
    rule_ttl_decision_final(run)
    # the batch insert itself lives only in insert_frame
    holders = set()
    for b in run.facts.all_bodies():
        for c in q.live_calls(b, C.BATCH_INSERT):
            holders.add(run.facts.enclosing_fn(b))
    run.ob("crate|primary-insert-holder", C.INSERT_FRAME in holders, "<crate>", "Store::insert_frame inserts into the partitions: %s" % sorted(holders))
    # any other body that inserts (a writer helper spliced into it) must itself keep ephemeral frames out
    for b in run.facts.all_bodies():
        fn = run.facts.enclosing_fn(b)
        if fn == C.INSERT_FRAME:
            continue
        for c in q.live_calls(b, C.BATCH_INSERT):
            run.ob("%s|batch-insert|not-ephemeral" % fn, never_for_ephemeral(b, c.bb), c.sp,
                   "a partition insert outside Store::insert_frame is reached only through a `ttl != Ephemeral` edge", reason="ephemeral-may-be-stored")
    # every Ok return of append is preceded by the broadcast
    for ab in C.publishers(run.facts):
      AP = ab.def_
      sends = [c for c in q.live_calls(ab, C.BROADCAST_SEND) if C.frame_typed(c)]
      for (bb, e, raw) in ab.return_defs():
          x = strip(e)
          if x[0] == "agg" and x[1].get("variant") == "Ok":
              run.ob("%s|ok-implies-broadcast" % AP, bool(sends) and q.dominated(ab, bb, via_blocks=[s.bb for s in sends]), ab.blocks[bb]["term"]["sp"],
                     "append returns Ok only after broadcasting the frame (ephemeral frames are still delivered)", reason="ephemeral-not-delivered")
    # the ephemeral edge must not be an early return: the broadcast is reachable from it
    g = ephemeral_guards(ab)
    for bb, si in ab.switches():
        pass


def derived_bodies(run):
    out = set()
    for c in run.facts.crates:
        for im in c.impls:
            if im["derived"]:
                for it in im["items"]:
                    out.add(it)
    return out


def r3(run):
    derived = derived_bodies(run)
    sites = []
    for b in run.facts.all_bodies():
        if b.def_ in derived:
            continue
        for bi, si, st in b.stmt_points():
            if st["k"] == "assign" and "agg" in st["rv"] and st["rv"].get("adt") == C.TTL and st["rv"].get("variant") == "Head" and bi in b.live_blocks():
                sites.append((b, bi, st))
    run.floor("TTL::Head construction sites outside derives", len(sites), 1)
    # the variant constructor used as a function value (`.map(TTL::Head)`) builds a Head from whatever flows in: no `n >= 1` test
    # can stand between the number and the value
    for b in run.facts.all_bodies():
        if b.def_ in derived:
            continue
        for c in b.calls():
            if c.bb not in b.live_blocks():
                continue
            as_value = [a for a in c.args if "const" in a and str(a["const"].get("s", "")).endswith("TTL::Head") and "TTL::Head" in c.fnx]
            direct = c.fn.endswith("ttl::TTL::Head")
            if as_value or direct:
                run.ob("%s|Head-constructor-as-function" % run.facts.enclosing_fn(b), False, c.sp,
                       "TTL::Head is built through the bare constructor function (%s): the count is not checked against 0 on the way" % c.fn.split("::")[-1],
                       reason="head-zero-accepted")
    for (b, bi, st) in sites:
        run.touch(b)
        run.ob("%s|is-parse_ttl" % b.def_, b.def_ == "xs::store::ttl::parse_ttl", st["sp"], "TTL::Head is built in parse_ttl (test-pinned): %s" % b.def_)
        n = strip(b.operand_expr(st["rv"]["ops"][0]))
        edges = []
        too_strict = []
        for bb, si in b.switches():
            if si["kind"] != "bool":
                continue
            cmp_ = q.comparison(si["cond"])
            if not cmp_:
                # `match n { 0 => Err(..), n => Ok(TTL::Head(n)) }`: a switch on the (unsigned) value itself, whose `otherwise`
                # edge is n != 0 and whose other edge is exactly n = 0
                if fmt(strip(si["cond"])) == fmt(n):
                    edges += q.edge_triples(b, bb, lambda m: m is True)
                continue
            rel, l, r = cmp_
            k = q.const_int(r)
            if k is None and q.const_int(l) is not None:
                rel, l, r, k = q.SWAP[rel], r, l, q.const_int(l)
            if k is None or fmt(strip(l)) != fmt(n):
                continue
            # on which edge is n >= 1 known?
            for truth in (True, False):
                rr = q.rel_on_edge(rel, truth)
                known = (rr == "ge" and k >= 1) or (rr == "gt" and k >= 0) or (rr == "ne" and k == 0) or (rr == "eq" and k >= 1)
                if known:
                    edges += q.edge_triples(b, bb, lambda m, t=truth: m is t)
                    # ... and the other edge must reject nothing but zero (head:1 is a value the writer emits)
                    ro = q.rel_on_edge(rel, not truth)
                    only_zero = (ro == "lt" and k <= 1) or (ro == "le" and k <= 0) or (ro == "eq" and k == 0)
                    if not only_zero:
                        too_strict.append("%s %s" % (ro, k))
        raw_n = b.operand_expr(st["rv"]["ops"][0])
        narrowing = [y for y in walk(raw_n) if y[0] == "cast" and len(y) > 2 and y[2] == "IntToInt"]
        run.ob("%s|head-n-uncast" % b.def_, not narrowing, st["sp"], "the N stored in TTL::Head is the value that was range-checked, not a narrowed copy of it (%d integer cast(s))" % len(narrowing),
               reason="head-zero-constructible")
        run.ob("%s|head-n-accepts-one" % b.def_, bool(edges) and not too_strict, st["sp"],
               "the range check rejects only n = 0: head:1 (and every N >= 1 the writer can emit) parses back (rejecting edge: %s)" % (too_strict or "n < 1"), reason="valid-head-rejected")
        run.ob("%s|head-n>=1" % b.def_, bool(edges) and q.dominated(b, bi, via_edges=edges), st["sp"],
               "TTL::Head(n) is constructed only on an edge where n >= 1 is known (head:0 unconstructible)", reason="head-zero-constructible")
    # both deserialisers go through that function
    for d in ("<xs::store::ttl::TTL as serde::de::Deserialize<'de>>::deserialize", "xs::store::ttl::TTL::from_query"):
        b = run.facts.body(d)
        if b is None:
            cands = [x for x in run.facts.all_bodies() if x.def_.startswith("<xs::store::ttl::TTL as serde::de::Deserialize") and x.def_.endswith("::deserialize")]
            b = cands[0] if cands else None
        if b is None:
            run.missing("%s|via-parse_ttl" % d, "TTL reader %s not found" % d)
            continue
        run.touch(b)
        calls = q.live_calls(b, "xs::store::ttl::parse_ttl")
        run.ob("%s|via-parse_ttl" % d.split("::")[-1], len(calls) >= 1, b.sp, "%s builds TTL values only through parse_ttl" % d, reason="ttl-reader-bypasses-validation")


def r5(run):
    n = 0
    for b in run.facts.bodies_under(C.READ):
        for c in b.calls():
            if c.fn == "xs::store::Frame::builder" and c.bb in b.live_blocks():
                topic = q.const_strs(c.arg(0))
                if not topic or topic[0] not in ("xs.threshold", "xs.pulse"):
                    continue
                n += 1
                # find the build() whose chain starts from this builder call
                eph = False
                for c2 in b.calls():
                    if c2.fn.endswith("FrameBuilder::<(__Id, __Hash, __Meta, __Ttl)>::build") or (c2.fn.startswith("xs::store::FrameBuilder") and c2.fn.endswith("::build")):
                        e = ("call", c2, c2.arg_exprs())
                        start, chain = q.builder_chain(e)
                        if start is not None and q.same_call(start[1], c):
                            for (name, arg, cc) in chain:
                                if name in ("ttl", "maybe_ttl") and arg is not None and any(
                                        x[0] == "agg" and x[1].get("adt") == C.TTL and x[1].get("variant") == "Ephemeral" for x in walk(arg)):
                                    eph = True
                run.ob("%s|synthetic(%s)|ephemeral" % (run.facts.enclosing_fn(b), topic[0]), eph, c.sp, "synthetic frame %s is built with TTL::Ephemeral" % topic[0],
                       reason="synthetic-frame-not-ephemeral")
    run.floor("synthetic frame construction sites under Store::read", n, 2)


def ephemeral_edges(body):
    """Edges on which `<x>.ttl == Some(Ephemeral)` is known."""
    edges = []
    for bb, si in body.switches():
        if si["kind"] == "bool":
            cmp_ = q.comparison(si["cond"])
            if not cmp_ or cmp_[0] not in ("eq", "ne"):
                continue
            sides = [strip(cmp_[1]), strip(cmp_[2])]
            if any(q.last_field(s2) == "ttl" for s2 in sides) and any(x[0] == "agg" and x[1].get("adt") == C.TTL and x[1].get("variant") == "Ephemeral" for s2 in sides for x in walk(s2)):
                edges += q.edge_triples(body, bb, lambda m, rel=cmp_[0]: m is (rel == "eq"))
        elif si["kind"] == "variant" and si.get("adt") == C.TTL and any(x[0] == "field" and x[2] == "ttl" for x in walk(si["cond"])):
            for (t, lab, m) in si["edges"]:
                ms = set(m) if isinstance(m, tuple) else {m}
                if ms == {"Ephemeral"}:
                    edges.append((bb, t, lab))
    return edges


def never_for_ephemeral(body, bb):
    """Is block `bb` unreachable for an ephemeral frame?  Every path from the entry to it passes an edge on which the ttl is known
    NOT to be Ephemeral (dominance is path-sensitive through `matches!` flags)."""
    g = ephemeral_guards(body)
    return bool(g) and q.dominated(body, bb, via_edges=g)


GC_WORKER = "xs::store::spawn_gc_worker"
UNBOUNDED_CHANNEL = "tokio::sync::mpsc::unbounded::unbounded_channel"
BLOCKING_RECV = "tokio::sync::mpsc::unbounded::UnboundedReceiver::<T>::blocking_recv"


def r7(run):
    """Removal requests have a consumer: Store::new hands the receiving half of the queue whose sender lives in Store.gc_tx to the
    GC worker, and the worker serves each kind of request (Remove -> Store::remove(id), Drain -> signal) and keeps looping."""
    nb = C.body_or_fail(run, C.NEW)
    chans = [c for c in q.live_calls(nb, UNBOUNDED_CHANNEL) if "GCTask" in c.fnx]
    run.exact("GC queue creation sites in Store::new", len(chans), 1, nb.sp)
    spawns = q.live_calls(nb, GC_WORKER)
    run.exact("GC worker launches in Store::new", len(spawns), 1, nb.sp)
    if chans and spawns:
        ch, sp = chans[0], spawns[0]
        from_ch = any(o[0] == "call" and q.same_call(o[1], ch) for o in q.origins(sp.arg(0))) or any(y[0] == "call" and q.same_call(y[1], ch) for y in walk(sp.arg(0)))
        run.ob("%s|gc-worker|receiver" % C.NEW, from_ch, sp.sp, "the GC worker is given the receiving half of the queue created in Store::new: %s" % fmt(strip(sp.arg(0)))[:100],
               reason="gc-requests-unserved")
        rets = nb.return_blocks()
        run.ob("%s|gc-worker|always-launched" % C.NEW, bool(rets) and all(q.dominated(nb, r, via_blocks=[sp.bb]) for r in rets), sp.sp,
               "every path through Store::new launches the GC worker", reason="gc-requests-unserved")
        # the sender half is the one stored in the Store
        stored = False
        for bi, si, st in nb.stmt_points():
            if st["k"] == "assign" and st["rv"].get("agg") == "adt" and st["rv"].get("adt") == "xs::store::Store" and bi in nb.live_blocks():
                e = nb.rvalue_expr(st["rv"])
                names = st["rv"].get("fields") or []
                for i, op in enumerate(e[2]):
                    if any(y[0] == "call" and q.same_call(y[1], ch) for y in walk(op)) or any(o[0] == "call" and q.same_call(o[1], ch) for o in q.origins(op)):
                        stored = True
        run.ob("%s|gc-worker|sender-stored" % C.NEW, stored, ch.sp, "the sending half of that queue is stored in the Store (gc_tx)", reason="gc-requests-unserved")
    worker = None
    for b in run.facts.bodies_under(GC_WORKER):
        if q.live_calls(b, BLOCKING_RECV):
            worker = b
    if worker is None:
        run.missing("%s|loop" % GC_WORKER, "GC worker loop (blocking_recv) not found")
        return
    run.touch(worker)
    recv = q.live_calls(worker, BLOCKING_RECV)[0]
    arms = {}
    for bb, si in worker.switches():
        if si["kind"] == "variant" and si.get("adt") == "xs::store::GCTask":
            for (t, lab, m) in si["edges"]:
                if isinstance(m, str):
                    arms[m] = (bb, t, lab)
    run.ob("%s|arms" % GC_WORKER, set(arms) >= {"Remove", "CheckHeadTTL", "Drain"}, worker.sp, "the worker dispatches on every GCTask kind: %s" % sorted(arms), reason="gc-requests-unserved")
    for name, edge in sorted(arms.items()):
        reach = worker.reachable_blocks([edge[1]], removed_blocks=[recv.bb])
        if name == "Remove":
            rm = [c for c in q.live_calls(worker, *C.removers(run.facts)) if c.bb in reach and any(y[0] == "downcast" and y[2] == "Remove" for y in walk(c.arg(1)))]
            run.ob("%s|Remove|removes-that-id" % GC_WORKER, len(rm) >= 1 and all(q.dominated(worker, c.bb, via_edges=[edge]) for c in rm), worker.blocks[edge[0]]["term"]["sp"],
                   "a Remove request leads to Store::remove of the id it carries", reason="gc-requests-unserved")
        elif name == "Drain":
            sg = [c for c in q.live_calls(worker, C.ONESHOT_SEND) if c.bb in reach]
            run.ob("%s|Drain|signals" % GC_WORKER, len(sg) >= 1, worker.blocks[edge[0]]["term"]["sp"], "a Drain request is answered on its oneshot channel", reason="gc-requests-unserved")
        elif name == "CheckHeadTTL":
            rm = [c for c in q.live_calls(worker, *C.removers(run.facts)) if c.bb in reach]
            run.ob("%s|CheckHeadTTL|evicts" % GC_WORKER, len(rm) >= 1, worker.blocks[edge[0]]["term"]["sp"], "a CheckHeadTTL request reaches Store::remove (eviction)", reason="gc-requests-unserved")
        run.ob("%s|%s|loops" % (GC_WORKER, name), q.reaches(worker, edge[1], recv.bb) or edge[1] == recv.bb, worker.blocks[edge[0]]["term"]["sp"],
               "after serving a %s request the worker waits for the next one" % name, reason="gc-worker-stops")


RULES = [
    ("R-C09-1", "ephemeral frames never reach the primary-partition insert on any call chain; append still broadcasts them", r1),
    ("R-C09-2", "both read paths drop expired time:N frames before they escape (shared with R-C01-2/3/4)", lambda run: (c01.r2(run), c01.r3(run), c01.r4(run))),
    ("R-C09-6", "time:N expiry is judged against the clock at decision time in both read paths (shared with R-C08-5)", lambda run: __import__("rules.store_shared", fromlist=["x"]).rule_clock_freshness(run)),
    ("R-C09-3", "TTL::Head(n) is constructed at one site dominated by n >= 1; every TTL reader goes through it", r3),
    ("R-C09-4", "newest-N eviction: Skip<Rev<prefix>> with skip = keep (shared with R-C08-3)", c08.r3),
    ("R-C09-7", "GC requests have a consumer: Store::new launches the worker on the queue behind Store.gc_tx; Remove / CheckHeadTTL / Drain are each served and the worker keeps looping", r7),
    ("R-C09-5", "synthetic xs.threshold / xs.pulse frames are built Ephemeral", r5),
    ("R-C09-8", "time:N frames expire exactly at created + N ms (expiry predicate, shared with R-C08-4)", lambda run: __import__("rules.C08", fromlist=["x"]).r4(run)),
]
