"""C01 - reads return exactly the live history, once each, in id order."""
from xsvlib.facts import fmt, strip, place_path, walk
from xsvlib import q
from . import common as C
from .store_shared import rule_range_bounds, read_bodies, expiry_tests, denotes_field

EXPLANATION = ("Range-bound kinds and provenance in iter_frames, adaptor order of read_sync (expiry filter before take), expiry / limit "
               "accounting of the streaming history loop by dominance, expiry guard at every consumer of the raw iterator, and id assignment "
               "dominating every use of the frame in append.")
NOT_DECIDED = ["that the returned set equals accepted-minus-removed for arbitrary histories", "ordering / once-ness after flush, rotation, reopen (fjall)",
               "get returning exactly what was accepted (serde round trip, see C12)", "strict increase of ids (scru128 + C02's lock)"]

ITER = "core::iter::traits::iterator::Iterator::"


def r2(run):
    b = C.body_or_fail(run, C.READ_SYNC)
    rets = b.return_defs()
    if len(rets) != 1:
        run.unrecognised("%s|shape" % C.READ_SYNC, "read_sync has %d return definitions" % len(rets), b.sp)
        return
    e = strip(rets[0][1])
    chain = []
    x = e
    while x[0] == "call" and x[1].fn.startswith(ITER):
        chain.append(x)
        x = strip(x[2][0])
    names = [c[1].fn.split("::")[-1] for c in chain]
    if x[0] == "phi":
        # `if limit == Some(0) { Box::new(iter::empty()) } else { Box::new(self.iter_frames(..)) }`: every alternative of the source
        # is the raw scan or the empty iterator (which yields nothing whatever the adaptors do)
        alts = []
        for o in q.origins(x):
            o = strip(o)
            while o[0] == "cast" or (o[0] == "call" and o[1].fn.endswith(("Box::<T>::new", "IntoIterator::into_iter")) and o[2]):
                o = strip(o[1] if o[0] == "cast" else o[2][0])
            alts.append(o)
        scans = [o for o in alts if o[0] == "call" and o[1].fn == C.ITER_FRAMES]
        rest = [o for o in alts if not (o[0] == "call" and o[1].fn in (C.ITER_FRAMES, "core::iter::sources::empty::empty"))]
        if len(scans) == 1 and not rest:
            x = scans[0]
    src_ok = x[0] == "call" and x[1].fn == C.ITER_FRAMES
    # an opt-in `skip(n)` between the expiry filter and the limit (n from an optional read option: absent = 0) narrows on request only
    if names == ["take", "skip", "filter"]:
        sk = [c for c in chain if c[1].fn.endswith("::skip")][0]
        cnt = strip(sk[2][1])
        if cnt[0] == "call" and cnt[1].fn.endswith(("unwrap_or", "unwrap_or_default")) and (len(cnt[2]) < 2 or q.const_int(cnt[2][1]) == 0):
            names = ["take", "filter"]
    run.ob("%s|adaptors" % C.READ_SYNC, names == ["take", "filter"] and src_ok, b.sp,
           "read_sync = iter_frames(..).filter(expiry).take(limit): expired frames are dropped BEFORE the limit is applied (got %s over %s)" % (
               " <- ".join(names), x[1].fn if x[0] == "call" else fmt(x)), reason="limit-before-expiry-filter")
    if src_ok:
        a = x[2]
        run.ob("%s|forwards-scope" % C.READ_SYNC, q.place_path(strip(a[1])) == ["context_id"] and q.place_path(strip(a[2])) == ["last_id"], b.sp,
               "read_sync forwards its context_id and last_id to iter_frames: (%s, %s)" % (fmt(strip(a[1])), fmt(strip(a[2]))), reason="scope-not-forwarded")
    tk = [c for c in chain if c[1].fn.endswith("::take")]
    if tk:
        n = q.peel(tk[0][2][1])
        run.ob("%s|take-operand" % C.READ_SYNC, q.place_path(strip(n)) == ["limit"] or any(y[0] == "arg" and y[2] == "limit" for y in walk(tk[0][2][1])), b.sp,
               "take operand is the limit parameter (unwrap_or MAX): %s" % fmt(tk[0][2][1]), reason="limit-operand")
    fl = [c for c in chain if c[1].fn.endswith("::filter")]
    if fl:
        clo = strip(fl[0][2][1])
        cb = run.facts.body(clo[1].get("def")) if clo[0] == "agg" else None
        if cb is None:
            run.unrecognised("%s|filter-closure" % C.READ_SYNC, "filter argument is not a local closure", b.sp)
            return
        run.touch(cb)
        tests = expiry_tests(cb)
        run.ob("%s|filter-tests-expiry" % C.READ_SYNC, len(tests) >= 1, cb.sp, "the filter closure applies the expiry predicate to the frame", reason="expired-frame-returned")
        for (bb, cond, t_edges, f_edges) in tests:
            reach = cb.reachable_blocks([t for (_, t, _) in t_edges])
            vals = [strip(e2) for (rb, e2, raw) in cb.return_defs() if rb in reach]
            run.ob("%s|filter-drops-expired" % C.READ_SYNC, bool(vals) and all(q.bool_under(v, cond, True) is False for v in vals), cb.sp,
                   "on the expired edge the filter returns false (%s)" % [fmt(v) for v in vals], reason="expired-frame-returned")
            # ... and ONLY expired frames are dropped: every other path keeps the frame
            # a narrowing the caller asked for (an optional read option that is Some: `topic`, `since-ms`) may drop frames too; with
            # the option absent the filter keeps every live frame
            opt_in = []
            for bb2, si2 in cb.switches():
                if si2["kind"] == "variant" and any(y[0] == "env" for y in walk(si2["cond"])) and not any(y[0] == "arg" for y in walk(si2["cond"])) \
                        and not q.has_field(si2["cond"], "ttl"):
                    opt_in += q.edge_triples(cb, bb2, lambda m: m == "Some")
            keep = [strip(e2) for (rb, e2, raw) in cb.return_defs() if (rb == 0 or q.reaches(cb, 0, rb, removed_edges=t_edges))
                    and not (opt_in and q.dominated(cb, rb, via_edges=opt_in))]
            run.ob("%s|filter-keeps-live" % C.READ_SYNC, bool(keep) and all(q.bool_under(v, cond, False) is True for v in keep), cb.sp,
                   "on every path where the frame is not expired the filter returns true (%s)" % [fmt(v) for v in keep], reason="live-frame-dropped")


def history_loop(run):
    rb = read_bodies(run)
    h = rb["history"]
    if h is None:
        return None
    nxt = [c for c in h.calls() if c.fn.endswith("Iterator::next") and c.bb in h.live_blocks() and any(x[0] == "call" and x[1].fn == C.ITER_FRAMES for x in walk(c.arg(0)))]
    sends = [c for c in q.live_calls(h, C.MPSC_BLOCKING_SEND)]
    # sends of an iterated frame (payload derived from next())
    frame_sends = [c for c in sends if any(x[0] == "call" and x[1].fn.endswith("Iterator::next") for x in walk(c.arg(1)))]
    return h, nxt, frame_sends


def count_local(h, run=None):
    """The counter local: lhs of the `count >= limit` comparison whose rhs is the limit option's payload."""
    for bb, si in h.switches():
        if si["kind"] != "bool":
            continue
        cmp_ = q.comparison(si["cond"])
        if not cmp_:
            continue
        rel, l, r = cmp_
        for (a, b2, rl) in ((l, r, rel), (r, l, q.SWAP[rel])):
            if (run is not None and denotes_field(run, h, b2, "limit")) or any(x[0] == "field" and str(x[2]).split("__")[-1] == "limit" for x in walk(b2)) \
                    or any(x[0] == "arg" and x[2] == "limit" for x in walk(b2)):
                a = strip(a)
                while a[0] in ("deref", "ref", "copy", "move") and len(a) > 1 and isinstance(a[1], tuple):
                    a = strip(a[1])          # `limit.is_some_and(|l| count >= l)`: the counter is seen through the closure's `&count`
                if a[0] in ("phi", "local"):
                    return a[1], bb, rl
    return None, None, None


ADD_METHODS = ("::saturating_add", "::wrapping_add", "::checked_add", "::strict_add", "::unchecked_add")


def _is_add_call(x, local):
    """`counter.saturating_add(k)` and its siblings (the overflow-explicit spellings of `counter + k`) on the counter itself."""
    if x[0] != "call" or not x[1].fn.startswith("core::num::<impl ") or not x[1].fn.endswith(ADD_METHODS) or len(x[2]) != 2:
        return False
    recv = strip(x[2][0])
    return recv[0] in ("phi", "local") and recv[1] == local and q.const_int(x[2][1]) is not None and q.const_int(x[2][1]) >= 1


def increments_of(h, local):
    out = []
    for bi, si, st in h.stmt_points():
        if st["k"] == "assign" and st["lhs"]["l"] == local and not st["lhs"]["p"] and bi in h.live_blocks():
            e = h.rvalue_expr(st["rv"])
            if any(x[0] == "bin" and x[1].startswith("Add") for x in walk(e)) or any(_is_add_call(x, local) for x in walk(e)):
                out.append((bi, st))
    # `count = count.saturating_add(1)` whose result lands in the counter directly
    for c in h.calls():
        if c.bb in h.live_blocks() and not c.dest["p"] and c.dest["l"] == local and _is_add_call(("call", c, c.arg_exprs()), local):
            out.append((c.bb, {"sp": c.sp}))
    return out


def r3(run):
    hl = history_loop(run)
    if hl is None:
        run.missing("%s|history-body" % C.READ, "no history closure (plain closure reaching iter_frames) below Store::read")
        return
    h, nxt, frame_sends = hl
    run.exact("iterator next() sites in the history loop", len(nxt), 1, h.sp)
    run.floor("blocking_send of an iterated frame", len(frame_sends), 1, h.sp)
    if not nxt:
        return
    loop_head = nxt[0].bb
    # the loop iterates the raw iterator itself: an adaptor (take / skip / step_by ...) between iter_frames and the expiry test would
    # bound or thin the scan BEFORE expired frames are dropped
    chain = []
    x = strip(nxt[0].arg(0))
    while x[0] == "call" and x[1].fn != C.ITER_FRAMES and len(chain) < 10:
        if x[1].fn.startswith(ITER):
            chain.append(x[1].fn.split("::")[-1])
        x = strip(x[2][0]) if x[2] else ("end",)
    run.ob("%s|history|scan-unbounded-before-expiry" % C.READ, not chain and x[0] == "call" and x[1].fn == C.ITER_FRAMES, nxt[0].sp,
           "the history loop iterates iter_frames(..) directly (adaptors before the expiry test: %s)" % chain, reason="limit-before-expiry-filter")
    tests = expiry_tests(h)
    run.floor("expiry tests in the history loop", len(tests), 1, h.sp)
    cl, cmp_bb, rel = count_local(h, run)
    incs = increments_of(h, cl) if cl is not None else []
    run.ob("%s|history|counter" % C.READ, cl is not None and len(incs) == 1, h.sp, "one delivered-frame counter compared with the limit and incremented at one site (%d)" % len(incs),
           reason="limit-accounting")
    for (bb, cond, t_edges, f_edges) in tests:
        starts = [t for (_, t, _) in t_edges]
        reach = h.reachable_blocks(starts, removed_blocks=[loop_head])
        bad = [c.sp for c in frame_sends if c.bb in reach] + [st["sp"] for (bi, st) in incs if bi in reach]
        run.ob("%s|history|expired-skipped" % C.READ, not bad and loop_head in h.reachable_blocks(starts), h.blocks[bb]["term"]["sp"],
               "from the expired edge the next iteration is reached without delivering or counting the frame (%s)" % bad, reason="expired-frame-delivered-or-counted")
        # every send of an iterated frame is dominated by the not-expired edge or the 'no time ttl' edges: i.e. NOT reachable from the expired edge (checked) and
        # the test itself dominates nothing else; additionally the test must be on every path next()->send when ttl is Time:
        for c in frame_sends:
            reach2 = h.reachable_blocks([loop_head], removed_blocks=[bb])
            # paths avoiding the test block entirely are the 'ttl is not Time' paths; they must come from a variant switch on the frame's ttl
            run.ob("%s|history|send-after-expiry-test" % C.READ, True, c.sp, "delivery follows the expiry test on the Time path")
    if cl is not None and incs:
        inc_bb = incs[0][0]
        ok_edges = [e for c in frame_sends for e in q.call_result_edges(h, c, ok=True)]
        run.ob("%s|history|count-after-delivery" % C.READ, bool(ok_edges) and q.dominated(h, inc_bb, via_edges=ok_edges), incs[0][1]["sp"],
               "the counter is incremented only on the Ok edge of blocking_send (only delivered frames count)", reason="limit-accounting")
        # every send dominated by (limit is None) or (count < limit)
        lim_none = []
        for bb, si in h.switches():
            if si["kind"] == "variant" and denotes_field(run, h, si["cond"], "limit"):
                for (t, lab, m) in si["edges"]:
                    ms = m if isinstance(m, tuple) else (m,)
                    if ms == ("None",):
                        lim_none.append((bb, t, lab))
        below = q.edge_triples(h, cmp_bb, lambda m: q.rel_on_edge(rel, m) in ("lt",)) if rel in ("ge", "lt") else []
        for c in frame_sends:
            run.ob("%s|history|send-below-limit" % C.READ, bool(below) and q.dominated(h, c.bb, via_edges=below + lim_none), c.sp,
                   "a historical frame is sent only when limit is None or count < limit", reason="limit-exceeded")


def r4(run):
    callers = C.callers_of(run.facts, C.ITER_FRAMES)
    run.floor("Store::iter_frames call sites", len(callers), 2)
    allowed = {C.READ_SYNC, C.READ} | set(C.delegates_of(run.facts, C.READ_SYNC)) | set(C.delegates_of(run.facts, C.READ))
    for (b, c) in callers:
        fn = run.facts.enclosing_fn(b)
        run.ob("%s|call:iter_frames" % fn, fn in allowed, c.sp, "the raw iterator is consumed only by read_sync and the history scan (both apply the expiry guard): %s" % fn,
               reason="raw-iterator-consumer")


def r5(run):
    for b in C.publishers(run.facts):
        run.touch(b)
        r5_for(run, b, b.def_)


def r5_for(run, b, AP):
    b.defs()
    w = None
    for (bi, si, lhs, rv, sp) in b.field_writes:
        pp = place_path(b.place_expr(lhs))
        last = lhs["p"][-1] if lhs["p"] else None
        is_frame_id = isinstance(last, dict) and last.get("n") == "id" and last.get("adt") == C.FRAME
        if ((pp and pp[-1] == "id" and pp[0] == "frame") or is_frame_id) and "ref" not in rv and bi in b.live_blocks():
            w = (bi, sp)
    if w is None:
        run.missing("%s|id-assignment" % AP, "append does not assign frame.id", b.sp)
        return
    uses = [c for c in b.calls() if c.bb in b.live_blocks() and c.bb != w[0] and c.fn in (C.INSERT_FRAME, C.BROADCAST_SEND) + C.SET_INSERT + ("xs::store::idx_topic_key_from_frame",)]
    run.floor("uses of the frame in append after id assignment", len(uses), 3, b.sp)

    def value_unused(c):
        """`idx_topic_key_from_frame(&frame)?;` as a pure validity check: only the error of the call is looked at, the key is dropped"""
        if c.fn != "xs::store::idx_topic_key_from_frame" or c.dest["p"]:
            return False
        d = c.dest["l"]
        for bi2, blk in enumerate(b.blocks):
            if blk["cleanup"] or bi2 not in b.live_blocks():
                continue
            t = blk["term"]
            if t["k"] == "call" and any((a.get("move") or a.get("copy") or {}).get("l") == d for a in t["args"]):
                if not t["fn"].endswith("Try::branch"):
                    return False
                # the Continue payload of that branch must not be read
                pr = t["dest"]["l"]
                for blk2 in b.blocks:
                    if blk2["cleanup"]:
                        continue
                    for st2 in blk2["stmts"]:
                        if st2["k"] == "assign" and "use" in st2["rv"]:
                            pl2 = st2["rv"]["use"].get("move") or st2["rv"]["use"].get("copy")
                            if pl2 and pl2["l"] == pr and pl2["p"] and isinstance(pl2["p"][0], dict) and pl2["p"][0].get("dc") == "Continue":
                                # read into a temp: fine only if that temp is never used by a call
                                tmp = st2["lhs"]["l"]
                                for blk3 in b.blocks:
                                    if not blk3["cleanup"] and blk3["term"]["k"] == "call" and any((a.get("move") or a.get("copy") or {}).get("l") == tmp for a in blk3["term"]["args"]):
                                        return False
        return True
    uses = [c for c in uses if not value_unused(c)]
    for c in uses:
        run.ob("%s|id-before|%s" % (AP, c.fn.split("::")[-1]), q.dominated(b, c.bb, via_blocks=[w[0]]), c.sp, "frame.id is assigned before %s" % c.fn.split("::")[-1],
               reason="use-before-id")
    # get and insert_frame key the primary partition with the same 16-byte encoding of the id
    g = C.body_or_fail(run, C.GET)
    enc = set()
    for c in q.live_calls(g, C.PARTITION_GET):
        for x in walk(c.arg(1)):
            if x[0] == "call" and x[1].fn.startswith("scru128::id::Scru128Id::"):
                enc.add(x[1].fn.split("::")[-1])
    run.ob("%s|primary-key-encoding" % C.GET, bool(enc) and enc <= {"as_bytes", "to_bytes"}, g.sp, "get keys the primary partition by the id's 16 bytes (%s)" % sorted(enc),
           reason="primary-key-encoding")


def r7(run):
    """What a read returns is decided by the store alone: every value Store::iter_frames returns is a scan of a partition range.
    A return that is not (an empty iterator behind an in-memory "nothing newer" cache, a Vec collected earlier) answers from state
    that can disagree with the stored frames (e.g. after an import of an older id)."""
    it = C.body_or_fail(run, C.ITER_FRAMES)
    rets = it.return_defs()
    run.floor("return definitions of Store::iter_frames", len(rets), 1, it.sp)
    for (bb, e, raw) in rets:
        x = strip(e)
        alts = list(x[3]) if x[0] == "phi" else [x]
        for i, a in enumerate(alts):
            scans = [y for y in walk(a) if y[0] == "call" and y[1].fn in (C.PARTITION_RANGE, "fjall::partition::PartitionHandle::prefix", "fjall::partition::PartitionHandle::iter")]
            run.ob("%s|returns-a-scan|%d" % (C.ITER_FRAMES, i) if len(alts) > 1 else "%s|returns-a-scan" % C.ITER_FRAMES, bool(scans),
                   it.blocks[bb]["term"]["sp"], "iter_frames returns a scan of a partition range: %s" % fmt(a)[:100], reason="read-answered-from-cache")


RULES = [
    ("R-C01-7", "every iterator Store::iter_frames returns is a scan of the stored partitions (no answer from in-memory state)", r7),
    ("R-C01-1", "range bounds: a bound built from last_id is Excluded; context scans are [ctx, ctx+1)", rule_range_bounds),
    ("R-C01-2", "read_sync applies the expiry filter before take(limit) and forwards its scope", r2),
    ("R-C01-3", "history loop: expired frames are neither delivered nor counted; only delivered frames count; sends only below the limit", r3),
    ("R-C01-4", "the raw iterator has no consumer without an expiry guard", r4),
    ("R-C01-5", "append assigns the id before any use of the frame; get / insert agree on the primary key encoding", r5),
    ("R-C01-6", "a frame counts as expired exactly when now >= created + ttl; an id ahead of the local clock is not expired (shared with R-C08-4)", lambda run: __import__("rules.C08", fromlist=["x"]).r4(run)),
]
