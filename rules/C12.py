"""C12 - wire formats round-trip; nothing accepted can poison later reads."""
from xsvlib.facts import fmt, strip, walk, FactError
from xsvlib import q
from . import common as C
from . import frames as F
from . import C09 as c09

EXPLANATION = ("Writer/reader table agreement extracted from the code itself: TTL keywords, slice offsets and units between Serialize / "
               "to_query and parse_ttl; ReadOptions query keys and literals between to_query_string and the serde field table / option "
               "deserialisers; client request names vs the names match_route and the handlers read; Frame's derived Serialize and "
               "Deserialize field tables; numeric parse failures and decode errors reach Err / BadRequest.")
NOT_DECIDED = ["round trip for every value (deep meta JSON, large numbers, unicode): serde_json's own symmetry",
               "that deserialize_frame never panics on stored bytes (it unwraps by design; only frames serialised by insert_frame are stored)"]

TTL = C.TTL
PARSE = "xs::store::ttl::parse_ttl"
DUR_UNITS = {"core::time::Duration::as_millis": "ms", "core::time::Duration::as_secs": "s", "core::time::Duration::as_micros": "us", "core::time::Duration::as_nanos": "ns",
             "core::time::Duration::from_millis": "ms", "core::time::Duration::from_secs": "s", "core::time::Duration::from_micros": "us", "core::time::Duration::from_nanos": "ns",
             "core::time::Duration::as_secs_f64": "s", "core::time::Duration::from_secs_f64": "s"}


def region(body, edge):
    """Blocks reachable from the edge target that are dominated by the edge."""
    (bb, t, lab) = edge
    reach = body.reachable_blocks([t])
    return {x for x in reach if q.dominated(body, x, via_edges=[edge])}


def strings_in_blocks(body, blocks):
    lits, units = [], set()
    for c in body.calls():
        if c.bb not in blocks:
            continue
        if c.fn in DUR_UNITS:
            units.add(DUR_UNITS[c.fn])
        if c.fn.startswith("core::fmt::Arguments::<'a>::new"):
            t = strip(c.arg(0))
            if t[0] == "const" and "bytes" in t[1]:
                lits += [p[1] for p in F.decode_format_pieces(t[1]["bytes"]) if p[0] == "lit"]
        elif c.fn.startswith("core::fmt") or c.fn in ("alloc::fmt::format", "core::hint::must_use"):
            continue
        else:
            for a in c.arg_exprs():
                x = strip(a)
                if x[0] == "const" and "str" in x[1]:
                    lits.append(x[1]["str"])
    return lits, units


def writer_table(run, body, adt=TTL):
    """{variant: (literals, units)} for a `match self { V => ... }` writer."""
    out = {}
    inside = set()
    for bb, si in body.switches():
        if si["kind"] == "variant" and si.get("adt") == adt:
            for (t, lab, m) in si["edges"]:
                if isinstance(m, str):
                    reg = region(body, (bb, t, lab))
                    inside |= reg
                    out[m] = strings_in_blocks(body, reg)
            break
    # text every variant shares (`format!("ttl={}", self.spelling())`): literals outside the per-variant regions
    out_common = strings_in_blocks(body, set(body.live_blocks()) - inside)[0] if out else []
    writer_table.common = out_common
    return out


def reader_table(run):
    """From parse_ttl: {variant: {'keywords': [(kind, literal)], 'units': set, 'offsets': [int], 'numeric': ty}}"""
    b = C.body_or_fail(run, PARSE)
    tests = []
    for bb, si in b.switches():
        if si["kind"] != "bool":
            continue
        cond = si["cond"]
        if cond[0] == "call" and cond[1].fn == "core::str::<impl str>::starts_with":
            ls = q.const_strs(cond[2][1])
            if ls:
                tests.append((bb, "prefix", ls[0], q.edge_triples(b, bb, lambda m: m is True)))
        elif cond[0] == "call" and cond[1].fn in ("core::option::Option::<T>::is_some", "core::option::Option::<T>::is_none") and \
                strip(cond[2][0])[0] == "call" and strip(cond[2][0])[1].fn == "core::str::<impl str>::strip_prefix":
            ls = q.const_strs(strip(cond[2][0])[2][1])
            pos = cond[1].fn.endswith("is_some")
            if ls:
                tests.append((bb, "prefix-stripped", ls[0], q.edge_triples(b, bb, lambda m, pos=pos: m is pos)))
        else:
            cmp_ = q.comparison(cond)
            ls = q.const_strs(cond)
            if cmp_ and cmp_[0] == "eq" and ls:
                tests.append((bb, "exact", ls[0], q.edge_triples(b, bb, lambda m: m is True)))
    # `if let Some(arg) = s.strip_prefix("time:")` : prefix test whose payload is already sliced at the right offset
    for bb, si in b.switches():
        if si["kind"] == "variant":
            c = strip(si["cond"])
            if c[0] == "call" and c[1].fn == "core::str::<impl str>::strip_prefix":
                ls = q.const_strs(c[2][1])
                if ls:
                    tests.append((bb, "prefix-stripped", ls[0], [(bb, t, lab) for (t, lab, m) in si["edges"] if m == "Some"]))

    def parse_types(e, depth=0):
        out = []
        for y in walk(e):
            if y[0] == "call" and y[1].fn == "core::str::<impl str>::parse" and "parse::<" in y[1].fnx:
                out.append(y[1].fnx.split("parse::<")[1].rstrip(">"))
            elif y[0] == "call" and y[1].local and depth < 2:
                hb = run.facts.body(y[1].fn)
                if hb is not None:
                    for (rb, re_, raw) in hb.return_defs():
                        out += parse_types(re_, depth + 1)
        return out
    out = {}
    for bi, si, st in b.stmt_points():
        if st["k"] == "assign" and st["rv"].get("agg") == "adt" and st["rv"].get("adt") == TTL and bi in b.live_blocks():
            v = st["rv"]["variant"]
            kws = [(k, lit) for (bb, k, lit, te) in tests if q.dominated(b, bi, via_edges=te)]
            e = b.rvalue_expr(st["rv"])
            units, offs, num, casts = set(), [], None, []
            pt = parse_types(e)
            num = pt[0] if pt else None
            for y in walk(e):
                if y[0] == "call" and y[1].fn in DUR_UNITS:
                    units.add(DUR_UNITS[y[1].fn])
                if y[0] == "cast" and len(y) > 2 and y[2] == "IntToInt":
                    casts.append(b.types.s(y[3]) if len(y) > 3 and isinstance(y[3], int) else "?")
                if y[0] == "agg" and y[1].get("adt", "").endswith("RangeFrom") and y[2]:
                    k = q.const_int(y[2][0])
                    if k is not None:
                        offs.append(k)
            if v in out:
                # a second way to spell the same variant (`last:<n>` as an alias of `head:<n>`): what the reader accepts is the union
                prev = out[v]
                out[v] = {"keywords": prev["keywords"] + [k for k in kws if k not in prev["keywords"]], "units": prev["units"] | units,
                          "offsets": prev["offsets"] + offs, "numeric": prev["numeric"] if prev["numeric"] == num else None,
                          "sp": prev["sp"], "casts": prev["casts"] + casts}
            else:
                out[v] = {"keywords": kws, "units": units, "offsets": offs, "numeric": num, "sp": st["sp"], "casts": casts}
    return b, out


def r1(run):
    rb, reader = reader_table(run)
    run.ob(PARSE + "|variants", set(reader) == {"Forever", "Ephemeral", "Time", "Head"}, rb.sp, "parse_ttl constructs all four TTL variants: %s" % sorted(reader), reason="ttl-codec")
    ser = None
    for b in run.facts.all_bodies():
        if b.def_ == "<xs::store::ttl::TTL as serde::ser::Serialize>::serialize":
            ser = b
    tq = run.facts.body("xs::store::ttl::TTL::to_query")
    if ser is None or tq is None:
        run.missing("TTL|writers", "TTL::to_query / Serialize for TTL not found")
        return
    run.touch(ser)
    run.touch(tq)
    for wname, wb, prefix in (("serialize", ser, ""), ("to_query", tq, "ttl=")):
        wt = writer_table(run, wb)
        common = list(writer_table.common)
        run.ob("TTL::%s|variants" % wname, set(wt) == set(reader), wb.sp, "%s writes all variants the reader knows: %s" % (wname, sorted(wt)), reason="ttl-codec")
        for v, (lits, units) in sorted(wt.items()):
            r = reader.get(v)
            if r is None:
                continue
            kw = [l for l in lits if l.startswith(prefix)] if prefix else lits
            word = kw[0][len(prefix):] if kw else None
            if prefix and not kw and common == [prefix] and lits:
                # the key is written once around the per-variant spelling
                kw, word = lits, lits[0]
            accepted = [lit for (k, lit) in r["keywords"]]
            run.ob("TTL::%s|%s|keyword" % (wname, v), word is not None and word in accepted, wb.sp,
                   "%s writes %r for TTL::%s and parse_ttl accepts %s for that variant" % (wname, (prefix + word) if word else lits, v, r["keywords"]), reason="ttl-keyword-mismatch")
            if prefix:
                run.ob("TTL::%s|%s|query-key" % (wname, v), bool(kw), wb.sp, "to_query emits the `ttl` key for TTL::%s" % v, reason="ttl-keyword-mismatch")
            if v == "Time":
                run.ob("TTL::%s|Time|unit" % wname, units == {"ms"} and r["units"] == {"ms"}, wb.sp, "writer unit %s = reader unit %s (milliseconds)" % (sorted(units), sorted(r["units"])),
                       reason="ttl-unit-mismatch")
    for v in ("Time", "Head"):
        r = reader.get(v)
        if not r:
            continue
        pre = [lit for (k, lit) in r["keywords"] if k == "prefix"]
        stripped = [lit for (k, lit) in r["keywords"] if k == "prefix-stripped"]
        # (several spellings of one variant: as many slices as prefixes, each as long as a prefix of that length)
        ok_off = (len(pre) >= 1 and len(r["offsets"]) == len(pre) and sorted(r["offsets"]) == sorted(len(p_) for p_ in pre)) or (len(stripped) >= 1 and not r["offsets"])
        run.ob(PARSE + "|%s|slice-offset" % v, bool(ok_off), r["sp"],
               "the numeric part starts right after the tested prefix (%r sliced at %s / strip_prefix %r)" % (pre, r["offsets"], stripped), reason="ttl-slice-offset")
    # the number is parsed at the width of the field it ends up in: no narrowing cast between parse and construction
    hd, tm = reader.get("Head", {}), reader.get("Time", {})
    run.ob(PARSE + "|numeric-types", tm.get("numeric") == "u64" and hd.get("numeric") == "u32" and not hd.get("casts") and not tm.get("casts"), rb.sp,
           "time:N parses as u64 milliseconds, head:N as u32, with no integer cast in between (time: %s %s, head: %s %s): an out-of-range number is rejected, not wrapped" % (
               tm.get("numeric"), tm.get("casts"), hd.get("numeric"), hd.get("casts")), reason="ttl-number-wraps")
    # from_query reads the key to_query writes
    fq = run.facts.body("xs::store::ttl::TTL::from_query")
    if fq is not None:
        run.touch(fq)
        keys = set()
        for c in fq.calls():
            if c.fn.endswith("HashMap::<K, V, S, A>::get"):
                keys |= set(q.const_strs(c.arg(1)))
        run.ob("TTL::from_query|key", keys == {"ttl"}, fq.sp, "from_query looks up the `ttl` parameter (%s)" % sorted(keys), reason="ttl-keyword-mismatch")


def fields_const(run, owner_prefix):
    for b in run.facts.all_bodies():
        if b.def_.startswith(owner_prefix) and b.def_.endswith("::deserialize::FIELDS"):
            run.touch(b)
            for bi, si, st in b.stmt_points():
                if st["k"] == "assign" and st["rv"].get("agg") == "array":
                    e = b.rvalue_expr(st["rv"])
                    return [c["str"] for op in e[2] for c in [strip(op)[1]] if strip(op)[0] == "const" and "str" in c]
    return None


def literal_outcomes(body, classify):
    """For every literal test (== "lit", is_empty) in `body`: follow its TRUE edge up to the next literal test and
    collect classify(block) results. Returns {literal: set(outcomes)}."""
    tests = {}
    for bb, sw in body.switches():
        if sw["kind"] != "bool":
            continue
        cond = sw["cond"]
        lits = q.const_strs(cond)
        if cond[0] == "call" and cond[1].fn == "alloc::string::String::is_empty":
            lits = [""]
        elif not (q.comparison(cond) and q.comparison(cond)[0] == "eq" and lits):
            continue
        tests[bb] = (lits[0], q.edge_triples(body, bb, lambda m: m is True))
    out = {}
    for bb, (lit, te) in tests.items():
        seen, todo, res = set(), [t for (_, t, _) in te], set()
        while todo:
            x = todo.pop()
            if x in seen or (x in tests and x != bb):
                continue
            seen.add(x)
            r = classify(x)
            if r is not None:
                res.add(r)
                continue
            for (t, lab) in body.succ(x):
                todo.append(t)
        out[lit] = res
    return out


UNK_ARG = ("unk",)


def eval_text_reader(body, text, classify, numeric_ok=None):
    """Abstract run of a hand-written text decoder on the concrete input `text`: literal tests (== / != "lit", is_empty, starts_with)
    take the edge the input selects, `str::parse::<int>` succeeds iff the input is a decimal number, the initial
    `String::deserialize(..)?` is assumed to have succeeded, every other branch is followed both ways.  Returns the set of
    classify(block) results met first on each path, plus the list of tests that could not be interpreted."""
    if numeric_ok is None:
        numeric_ok = text.isdigit()
    outcomes, unknown = set(), []
    seen, todo = set(), [0]
    while todo:
        x = todo.pop()
        if x in seen:
            continue
        seen.add(x)
        r = classify(x)
        if r is not None:
            outcomes.add(r)
            continue
        si = body.switch_info(x) if body.blocks[x]["term"]["k"] == "switch" else None
        if si is None:
            for (t, lab) in body.succ(x):
                todo.append(t)
            continue
        cond = strip(si["cond"])
        truth = None
        if si["kind"] == "bool":
            lits = q.const_strs(cond)
            cm = q.comparison(cond)
            if cond[0] == "call" and cond[1].fn.endswith("::is_empty") and "String" in cond[1].fn:
                truth = (text == "")
            elif cm and cm[0] in ("eq", "ne") and lits:
                truth = (text == lits[0]) if cm[0] == "eq" else (text != lits[0])
            elif cond[0] == "call" and cond[1].fn.endswith("<impl str>::starts_with") and lits:
                truth = text.startswith(lits[0])
            elif cond[0] == "call" and cond[1].fn.endswith("<impl str>::ends_with") and lits:
                truth = text.endswith(lits[0])
            if truth is None:
                unknown.append(fmt(cond)[:80])
            for (t, lab, m) in si["edges"]:
                if truth is None or m is truth:
                    todo.append(t)
            continue
        # variant switches
        x = cond
        via_try = False
        if x[0] == "call" and x[1].fn.endswith("Try::branch"):
            via_try = True
            x = strip(x[2][0])
        while x[0] == "call" and x[1].fn.endswith(("::map_err", "::map")) and x[2]:
            x = strip(x[2][0])
        is_parse = x[0] == "call" and x[1].fn == "core::str::<impl str>::parse"
        is_try = via_try and not is_parse
        for (t, lab, m) in si["edges"]:
            ms = set(m) if isinstance(m, tuple) else {m}
            if is_parse:
                if (numeric_ok and ms & {"Ok", "Continue"}) or (not numeric_ok and ms & {"Err", "Break"}):
                    todo.append(t)
            elif is_try and any(y[0] == "call" and "Deserialize" in y[1].fn for y in walk(cond)):
                if "Continue" in ms:
                    todo.append(t)
            else:
                todo.append(t)
    return outcomes, unknown


def writer_guards(run, tb, pushed):
    """to_query_string: every parameter is written exactly under the condition the reader's defaults assume."""
    follow_sw = None
    for bb, si in tb.switches():
        if si["kind"] == "variant" and si.get("adt") == "xs::store::FollowOption":
            follow_sw = (bb, si)
    if follow_sw is None:
        run.unrecognised("ReadOptions|follow-guard", "to_query_string does not match on self.follow", tb.sp)
    else:
        bb, si = follow_sw
        edges = {}
        for (t, lab, m) in si["edges"]:
            if isinstance(m, str):
                edges[m] = (bb, t, lab)
        for (v, c) in pushed.get("follow", []):
            is_lit = bool(q.const_strs(v))
            want = "On" if is_lit else "WithHeartbeat"
            run.ob("ReadOptions|follow-guard|%s" % want, want in edges and q.dominated(tb, c.bb, via_edges=[edges[want]]), c.sp,
                   "the %s form of `follow` is written exactly for FollowOption::%s" % ("literal" if is_lit else "numeric", want), reason="option-written-under-wrong-condition")
        if "Off" in edges:
            reg = region(tb, edges["Off"])
            bad = [c.sp for k, l in pushed.items() for (v, c) in l if c.bb in reg]
            run.ob("ReadOptions|follow-guard|Off", not bad, tb.blocks[bb]["term"]["sp"], "FollowOption::Off writes nothing (%s)" % bad, reason="option-written-under-wrong-condition")
        run.ob("ReadOptions|follow-guard|both-forms", {bool(q.const_strs(v)) for (v, c) in pushed.get("follow", [])} == {True, False}, tb.sp,
               "both follow forms (literal for On, milliseconds for WithHeartbeat) are written", reason="option-written-under-wrong-condition")
    for k in ("tail", "last-id", "limit", "context-id"):
        field = k.replace("-", "_")
        for (v, c) in pushed.get(k, []):
            ok = False
            for bb, si in tb.switches():
                cond = strip(si["cond"])
                if q.last_field(cond) != field:
                    continue
                if si["kind"] == "bool":
                    te = q.edge_triples(tb, bb, lambda m: m is True)
                elif si["kind"] == "variant":
                    te = [(bb, t, lab) for (t, lab, m) in si["edges"] if m == "Some"]
                else:
                    te = []
                if te and q.dominated(tb, c.bb, via_edges=te):
                    ok = True
            run.ob("ReadOptions|guard|%s" % k, ok, c.sp, "`%s` is written exactly when the field is set (true / Some)" % k, reason="option-written-under-wrong-condition")
    # the collected pairs become the result unless there are none
    pv = None
    for k, l in pushed.items():
        for (v, c) in l:
            pv = q.root_local(tb, c.args[0])
    def empty_test(cond):
        """(is_empty call on the pairs vector, polarity) for `v.is_empty()`, `v.is_empty() == false`, `!v.is_empty()` ..."""
        x, pol = strip(cond), True
        for _ in range(4):
            if x[0] == "un" and x[1] == "Not":
                x, pol = strip(x[2]), not pol
                continue
            cm = q.comparison(x)
            if cm and cm[0] in ("eq", "ne"):
                for a, b2 in ((cm[1], cm[2]), (cm[2], cm[1])):
                    kb = strip(b2)
                    if kb[0] == "const" and "bool" in kb[1]:
                        same = bool(kb[1]["bool"]) == (cm[0] == "eq")
                        x, pol = strip(a), (pol if same else not pol)
                        break
                else:
                    return None
                continue
            break
        if x[0] == "call" and x[1].fn.endswith("::is_empty") and pv is not None and q.root_local(tb, x[1].args[0]) == pv:
            return pol
        return None
    emp_true, emp_false = [], []
    for bb, si in tb.switches():
        if si["kind"] != "bool":
            continue
        pol = empty_test(si["cond"])
        if pol is None:
            continue
        emp_true += q.edge_triples(tb, bb, lambda m, pol=pol: m is pol)
        emp_false += q.edge_triples(tb, bb, lambda m, pol=pol: m is (not pol))
    emp = bool(emp_true or emp_false)
    ok_result = False
    detail = ""
    if pv is not None:
        for (rb2, e, raw) in tb.return_defs():
            uses = [y for y in walk(e) if y[0] == "call" and y[1].fn.endswith("::extend_pairs") and len(y[1].args) > 1 and q.root_local(tb, y[1].args[1]) == pv]
            if uses:
                if not emp:
                    ok_result = True
                else:
                    ok_result = bool(emp_false) and q.dominated(tb, rb2, via_edges=emp_false)
                detail = fmt(strip(e))[:120]
    run.ob("ReadOptions|result-carries-pairs", ok_result, tb.sp, "when any parameter was collected the result is the url-encoding of exactly those pairs: %s" % detail,
           reason="options-dropped-on-the-wire")
    if emp:
        te = emp_true
        others = [fmt(strip(e))[:60] for (rb2, e, raw) in tb.return_defs() if q.dominated(tb, rb2, via_edges=te) and any(y[0] == "call" and y[1].fn.endswith("::extend_pairs") for y in walk(e))]
        run.ob("ReadOptions|empty-result-only-when-empty", not others, tb.sp, "the empty string is returned only when nothing was collected", reason="options-dropped-on-the-wire")


def _flatten_value(v):
    out = [v]
    if isinstance(v, tuple):
        for x in v:
            if isinstance(x, tuple):
                out += _flatten_value(x)
    return out


def r2(run):
    fields = fields_const(run, "xs::store::_::<impl serde::de::Deserialize<'de> for xs::store::ReadOptions>")
    tb = run.facts.body("xs::store::ReadOptions::to_query_string")
    if fields is None or tb is None:
        run.missing("ReadOptions|codec", "ReadOptions FIELDS const or to_query_string not found")
        return
    run.touch(tb)
    pushed = {}
    for c in tb.calls():
        if c.bb in tb.live_blocks() and c.fn == "alloc::vec::Vec::<T, A>::push":
            t = strip(c.arg(1))
            if t[0] == "agg" and t[1].get("agg") == "tuple" and len(t[2]) == 2:
                k = q.const_strs(t[2][0])
                if k:
                    pushed.setdefault(k[0], []).append((t[2][1], c))
    run.ob("ReadOptions|query-keys", set(pushed) == set(fields), tb.sp, "to_query_string writes exactly the serde field names of ReadOptions: %s vs %s" % (sorted(pushed), sorted(fields)),
           reason="option-key-mismatch")
    writer_guards(run, tb, pushed)
    # follow: literal in the reader's On set, heartbeat in ms on both sides
    fd = None
    for b in run.facts.all_bodies():
        if b.def_.startswith("<xs::store::FollowOption as serde::de::Deserialize") and b.def_.endswith("::deserialize"):
            fd = b
    if fd is None:
        run.missing("FollowOption|deserialize", "FollowOption deserialiser not found")
        return
    run.touch(fd)
    on_lits, off_lits, hb_units = set(), set(), set()
    built = {}
    for bi, si, st in fd.stmt_points():
        if st["k"] == "assign" and st["rv"].get("agg") == "adt" and st["rv"].get("adt") == "xs::store::FollowOption" and bi in fd.live_blocks():
            built[bi] = st["rv"]["variant"]
            if st["rv"]["variant"] == "WithHeartbeat":
                for y in walk(fd.rvalue_expr(st["rv"])):
                    if y[0] == "call" and y[1].fn in DUR_UNITS:
                        hb_units.add(DUR_UNITS[y[1].fn])
    for lit, res in literal_outcomes(fd, lambda blk: built.get(blk)).items():
        if res == {"On"}:
            on_lits.add(lit)
        elif res == {"Off"}:
            off_lits.add(lit)
    w_follow = pushed.get("follow", [])
    w_lits = set()
    w_units = set()
    for (v, c) in w_follow:
        for y in walk(v):
            if y[0] == "const" and "str" in y[1]:
                w_lits.add(y[1]["str"])
            if y[0] == "call" and y[1].fn in DUR_UNITS:
                w_units.add(DUR_UNITS[y[1].fn])
    from . import textdec as _td
    lit_out = {l: _td.decode(run.facts, fd, l, args=[("unk",)])[0] for l in sorted(w_lits)}
    run.ob("ReadOptions|follow-literal", bool(w_lits) and all(v == {"On"} for v in lit_out.values()), tb.sp,
           "the follow literal written (%s) is one the reader maps to On: %s" % (sorted(w_lits), {k: sorted(map(str, v)) for k, v in lit_out.items()}), reason="option-literal-mismatch")
    # decision table of the reader for what the writer emits and for the documented spellings
    from . import textdec
    tested = set()
    for b2 in [fd] + [run.facts.body(c.fn) for c in fd.calls() if c.local and run.facts.body(c.fn) is not None]:
        for bb, si in b2.switches():
            if si["kind"] == "bool":
                tested |= set(q.const_strs(si["cond"]))
                c0 = strip(si["cond"])
                if c0[0] == "call" and c0[1].fn.endswith("::is_empty"):
                    tested.add("")
    samples = [(l, "On") for l in sorted(w_lits)] + [("30000", "WithHeartbeat"), ("0", "WithHeartbeat"), ("1", "WithHeartbeat"), ("\u0001not-a-follow-value", "Err")]
    samples += [(l, "On") for l in ("", "yes", "true") if l in tested] + [(l, "Off") for l in ("false", "no") if l in tested]
    done = set()
    for text, want in samples:
        if text in done:
            continue
        done.add(text)
        got, unknown = textdec.decode(run.facts, fd, text, args=[UNK_ARG])
        kind = "number" if text.isdigit() else "spelling"
        run.ob("FollowOption|decode|%r" % text[:12], got == {want}, fd.sp,
               "follow=%r (%s) decodes to %s (got %s%s)" % (text[:12], "what the writer emits for a heartbeat of that many ms" if kind == "number" else kind, want, sorted(map(str, got)),
                                                      "; uninterpreted tests: %s" % unknown[:2] if unknown and got != {want} else ""), reason="option-literal-mismatch")
    # an absent `follow` means Off
    dflt = None
    for b in run.facts.all_bodies():
        if b.def_.startswith("<xs::store::FollowOption as core::default::Default>::default"):
            for (rb2, e, raw) in b.return_defs():
                x = strip(e)
                if x[0] == "agg":
                    dflt = x[1].get("variant")
    run.ob("FollowOption|default", dflt == "Off", fd.sp, "an absent `follow` parameter decodes to Off (Default = %s): what the writer omits for Off" % dflt, reason="option-literal-mismatch")
    tdv = _td.TextDecoder(run.facts, "30000")
    hb_units = set()
    for v in tdv.run(fd, [("unk",)]):
        for y in _flatten_value(v):
            if y[0] == "adt" and y[1] == "Duration":
                hb_units.add(y[2])
                hb_units |= ({"value-kept"} if y[3] and y[3][0] == ("int", 30000) else {"value-changed"})
    hb_ok = hb_units == {"ms", "value-kept"}
    hb_units -= {"value-kept"}
    run.ob("ReadOptions|heartbeat-unit", w_units == {"ms"} and hb_ok, tb.sp, "heartbeat interval: writer %s, reader %s" % (sorted(w_units), sorted(hb_units)),
           reason="option-unit-mismatch")
    # tail literal must not be in the bool reader's false set
    db = run.facts.body("xs::store::deserialize_bool")
    false_set = set()
    if db is not None:
        run.touch(db)
        rets = {}
        for (rb2, e, raw) in db.return_defs():
            x = strip(e)
            if x[0] == "agg" and x[2] and strip(x[2][0])[0] == "const" and "bool" in strip(x[2][0])[1]:
                rets[rb2] = strip(x[2][0])[1]["bool"]
        for lit, res in literal_outcomes(db, lambda blk: rets.get(blk)).items():
            if res == {False}:
                false_set.add(lit)
    t_lits = set()
    for (v, c) in pushed.get("tail", []):
        t_lits |= set(q.const_strs(v))
    if db is not None:
        from . import textdec
        helper_lits = set()
        for b2 in [run.facts.body(c.fn) for c in db.calls() if c.local and run.facts.body(c.fn) is not None]:
            for bb, si in b2.switches():
                if si["kind"] == "bool":
                    helper_lits |= set(q.const_strs(si["cond"]))
        for text in sorted(t_lits):
            got, unknown = textdec.decode(run.facts, db, text, args=[UNK_ARG])
            run.ob("ReadOptions|tail-decode|%r" % text, got == {True}, db.sp, "tail=%r (what the writer emits) decodes to true (got %s)" % (text, sorted(map(str, got))),
                   reason="option-literal-mismatch")
        for text in sorted((false_set | (helper_lits & {"false", "no", "0"}))):
            got, unknown = textdec.decode(run.facts, db, text, args=[UNK_ARG])
            run.ob("ReadOptions|tail-decode|%r" % text, got == {False}, db.sp, "tail=%r decodes to false (got %s)" % (text, sorted(map(str, got))), reason="option-literal-mismatch")
    neg = {l: _td.decode(run.facts, db, l, args=[("unk",)])[0] for l in ("false", "no", "0")} if db is not None else {}
    run.ob("ReadOptions|tail-literal", bool(t_lits) and any(v == {False} for v in neg.values()) and not [l for l in t_lits if neg.get(l) == {False}], tb.sp,
           "the tail literal written (%s) is not one of the reader's false spellings (%s)" % (sorted(t_lits), sorted(l for l, v in neg.items() if v == {False})), reason="option-literal-mismatch")
    # tail is only written when true; Off follow writes nothing
    for k in ("last-id", "limit", "context-id"):
        for (v, c) in pushed.get(k, []):
            ok = any(y[0] == "field" and str(y[2]).replace("_", "-") == k for y in walk(v))
            run.ob("ReadOptions|value|%s" % k, ok, c.sp, "the value written under %r is the field of the same name: %s" % (k, fmt(strip(v))[:80]), reason="option-key-mismatch")


def client_fn(run, name):
    for b in run.facts.bodies_under("xs::client::commands::" + name):
        if b.is_coroutine and b.def_ == "xs::client::commands::%s::{closure#0}" % name:
            run.touch(b)
            return b
    return None


def r3(run):
    facts = run.facts
    mr = C.body_or_fail(run, "xs::api::match_route")
    server_params = set()
    for c in mr.calls():
        if c.bb in mr.live_blocks() and c.fn.startswith("std::collections::hash::map::HashMap::<K, V, S, A>::") and c.fn.split("::")[-1] in ("get", "contains_key"):
            server_params |= set(q.const_strs(c.arg(1)))
    # a hand-written lookup helper (`query_param(query, "follow")`, `context_from_query(query)` -> `query_param(query, "context")`):
    # the key literals it is called with are the keys the server reads
    def keyish(sv):
        return bool(sv) and len(sv) <= 24 and not sv.startswith("/") and " " not in sv and sv.replace("-", "").replace("_", "").isalnum()
    seen_fns, todo = set(), [(mr, 0)]
    while todo:
        fb, depth = todo.pop()
        for c in fb.calls():
            if c.bb not in fb.live_blocks():
                continue
            if c.fn.startswith("std::collections::hash::map::HashMap::<K, V, S, A>::") and c.fn.split("::")[-1] in ("get", "contains_key") and fb is not mr:
                server_params |= {k for k in q.const_strs(c.arg(1)) if keyish(k)}
            if c.local and c.fn.startswith("xs::api::") and not c.fn.startswith(("xs::api::response_", "xs::api::handle")):
                for a in c.arg_exprs():
                    x = strip(a)
                    if x[0] == "const" and "str" in x[1] and keyish(x[1]["str"]):
                        server_params.add(x[1]["str"])
                cb = facts.body(c.fn)
                if cb is not None and c.fn not in seen_fns and depth < 2:
                    seen_fns.add(c.fn)
                    todo.append((cb, depth + 1))
    if q.live_calls(mr, "xs::store::ttl::TTL::from_query"):
        server_params.add("ttl")
    server_paths = set()
    for bb, si in mr.switches():
        if si["kind"] == "bool":
            for l in q.const_strs(si["cond"]):
                if l.startswith("/"):
                    server_paths.add(l)
    # client side
    checks = []
    for name in ("append", "head", "cat", "cas_get", "cas_post", "import", "version", "get", "remove"):
        b = client_fn(run, name)
        if b is None:
            run.missing("xs::client::commands::%s|body" % name, "client command %s not found" % name)
            continue
        keys, paths, headers = set(), set(), set()
        for c in b.calls():
            if c.bb not in b.live_blocks():
                continue
            if c.fn == "alloc::vec::Vec::<T, A>::push":
                t = strip(c.arg(1))
                if t[0] == "agg" and t[1].get("agg") == "tuple" and t[2]:
                    k0 = strip(t[2][0])
                    ks = q.const_strs(k0) if k0[0] != "call" or k0[1].fn.endswith("to_string") else []
                    if len(t[2]) == 2 and ks:
                        keys.add(ks[0])
            if c.fn == "xs::client::request::request":
                lits, args = F.string_pieces(c.arg(2))
                paths.add(lits[0] if lits else "")
            if c.fn.endswith("RequestParts::parse"):
                lits, args = F.string_pieces(c.arg(1))
                paths.add(lits[0] if lits else "")
        for bi, si, st in b.stmt_points():
            if st["k"] == "assign" and st["rv"].get("agg") == "tuple" and bi in b.live_blocks():
                e = b.rvalue_expr(st["rv"])
                if len(e[2]) == 2:
                    ks = q.const_strs(e[2][0])
                    if ks and ks[0] in ("xs-meta", "Accept"):
                        headers.add(ks[0])
        checks.append((name, b, keys, paths, headers))
    for (name, b, keys, paths, headers) in checks:
        if name == "append":
            # the ttl pair is produced by TTL::to_query().split_once('=')
            uses_to_query = bool(q.live_calls(b, "xs::store::ttl::TTL::to_query"))
            run.ob("client::append|ttl-via-to_query", uses_to_query, b.sp, "the client encodes the TTL with TTL::to_query (checked against parse_ttl by R-C12-1)", reason="client-server-name-mismatch")
        for k in sorted(keys):
            run.ob("client::%s|query-key|%s" % (name, k), k in server_params, b.sp, "query key %r sent by the client is read by the server (%s)" % (k, sorted(server_params)),
                   reason="client-server-name-mismatch")
        for p in sorted(paths):
            if name in ("append", "get", "remove"):
                continue   # user supplied topic / id paths
            want = "/" + p
            ok = want in server_paths or (p == "" and "/" in server_paths)
            run.ob("client::%s|path|%s" % (name, p or "<root>"), ok, b.sp, "request path %r matches a literal route test of the server (%s)" % (want, sorted(server_paths)),
                   reason="client-server-name-mismatch")
        for h in sorted(headers):
            srv = set()
            for sb in facts.all_bodies():
                if sb.def_.startswith("xs::api::"):
                    for c in sb.calls():
                        if c.fn.endswith("HeaderMap::<T>::get") or c.fn.endswith("HeaderMap::get"):
                            srv |= set(q.const_strs(c.arg(1)))
                            for y in walk(c.arg(1)):
                                if y[0] == "const" and y[1].get("uneval", "").endswith("::ACCEPT"):
                                    srv.add("Accept")
            run.ob("client::%s|header|%s" % (name, h), h in srv, b.sp, "header %r sent by the client is read by the server (%s)" % (h, sorted(srv)), reason="client-server-name-mismatch")
    # both sides use the same base64 engine for xs-meta
    def b64_engines(prefix):
        s = set()
        for b in facts.all_bodies():
            if b.def_.startswith(prefix):
                for c in b.calls():
                    if c.fn in ("base64::engine::Engine::encode", "base64::engine::Engine::decode"):
                        for y in walk(c.arg(0)):
                            if y[0] == "const" and "uneval" in y[1]:
                                s.add(y[1]["uneval"])
        return s
    ce, se = b64_engines("xs::client::commands::append"), b64_engines("xs::api::handle_stream_append")
    run.ob("xs-meta|base64-engine", bool(ce) and ce == se, "<client/server>", "client encodes and server decodes xs-meta with the same base64 engine (%s / %s)" % (sorted(ce), sorted(se)),
           reason="client-server-name-mismatch")


def r4(run):
    facts = run.facts
    ims = [im for im in facts.lib.impls if im["self_s"] == "xs::store::Frame" and im["trait"] in ("serde::ser::Serialize", "serde::de::Deserialize")]
    traits = {im["trait"]: im for im in ims}
    run.ob("Frame|serde-impls", set(traits) == {"serde::ser::Serialize", "serde::de::Deserialize"} and all(im["derived"] for im in ims), "<struct Frame>",
           "Frame has derived Serialize and Deserialize (%s)" % {k: v["derived"] for k, v in traits.items()}, reason="frame-codec-asymmetry")
    de_fields = fields_const(run, "xs::store::_::<impl serde::de::Deserialize<'de> for xs::store::Frame>")
    ser_fields = []
    for b in facts.all_bodies():
        if b.def_.startswith("xs::store::_::<impl serde::ser::Serialize for xs::store::Frame>::serialize"):
            run.touch(b)
            for c in b.calls():
                if c.bb in b.live_blocks() and c.fn.endswith("SerializeStruct::serialize_field"):
                    ser_fields += q.const_strs(c.arg(1))
    adt = facts.adt(C.FRAME)
    names = [f["name"] for f in adt["variants"][0]["fields"]]
    run.ob("Frame|field-tables", de_fields is not None and ser_fields == de_fields == names, "<struct Frame>",
           "serialised field names %s = deserialised field names %s = struct fields %s (no skip / rename on one side)" % (ser_fields, de_fields, names), reason="frame-codec-asymmetry")
    # no field of Frame has a hand-written codec on one side only (`#[serde(deserialize_with = ..)]`, `serialize_with`): the stored
    # bytes are written by the derived Serialize and must be readable by the derived Deserialize for every value append accepts
    custom = {"serde::de::Deserialize": [], "serde::ser::Serialize": []}
    for b in facts.all_bodies():
        for tr, prefix in (("serde::de::Deserialize", "xs::store::_::<impl serde::de::Deserialize<'de> for xs::store::Frame>"),
                           ("serde::ser::Serialize", "xs::store::_::<impl serde::ser::Serialize for xs::store::Frame>")):
            if prefix in b.def_:     # also the helper types the derive nests in it (`__Visitor`, `__DeserializeWith`, `__SerializeWith`)
                run.touch(b)
                for c in b.calls():
                    if c.bb in b.live_blocks() and c.local and not c.fn.startswith("xs::store::_::") and not c.fn.startswith("<xs::store::_::"):
                        custom[tr].append(c.fn)
    de_c, se_c = sorted(set(custom["serde::de::Deserialize"])), sorted(set(custom["serde::ser::Serialize"]))
    run.ob("Frame|no-one-sided-field-codec", not de_c and not se_c, "<struct Frame>",
           "no Frame field is decoded / encoded by a custom function (decoder side: %s, encoder side: %s): what insert_frame writes, deserialize_frame reads" % (de_c, se_c),
           reason="frame-codec-asymmetry")
    tt = [im for im in facts.lib.impls if im["self_s"] == TTL and im["trait"] in ("serde::ser::Serialize", "serde::de::Deserialize")]
    run.ob("TTL|serde-impls", len(tt) == 2 and not any(im["derived"] for im in tt), "<enum TTL>", "TTL has hand-written Serialize and Deserialize (covered by R-C12-1)", reason="ttl-codec")


def r5(run):
    rb = C.body_or_fail(run, PARSE)
    for c in rb.calls():
        if c.bb in rb.live_blocks() and c.fn == "core::str::<impl str>::parse":
            users = []
            bad = []
            for u in rb.calls():
                if u.bb in rb.live_blocks() and any(y[0] == "call" and q.same_call(y[1], c) for a in u.arg_exprs()[:1] for y in [strip(a)]):
                    users.append(u.fn)
                    if u.fn.endswith(("::unwrap", "::unwrap_or", "::unwrap_or_default", "::expect", "::unwrap_or_else", "::ok")):
                        bad.append(u.fn)
            err_edges = []
            for bb, si in rb.switches():
                if si["kind"] == "variant" and any(y[0] == "call" and q.same_call(y[1], c) for y in walk(si["cond"])):
                    err_edges += [(bb, t, lab) for (t, lab, m) in si["edges"] if m in ("Err", "Break")]
            reach = rb.reachable_blocks([t for (_, t, _) in err_edges]) if err_edges else set()
            rets = [strip(e) for (bb, e, raw) in rb.return_defs() if bb in reach]
            ok = not bad and bool(rets) and all((x[0] == "call" and x[1].fn.endswith("from_residual")) or (x[0] == "agg" and x[1].get("variant") == "Err") for x in rets)
            ty = c.fnx.split("parse::<")[1].rstrip(">") if "parse::<" in c.fnx else "?"
            run.ob(PARSE + "|parse::<%s>|failure-is-error" % ty, ok, c.sp, "a number that does not parse as %s makes parse_ttl return Err (users: %s)" % (ty, sorted(set(users))),
                   reason="malformed-ttl-accepted")
    # unknown keyword => Err
    errs = [(bb, e) for (bb, e, raw) in rb.return_defs() if strip(e)[0] == "agg" and strip(e)[1].get("variant") == "Err"]
    run.floor("Err returns in parse_ttl (unknown keyword, head:0)", len(errs), 2, rb.sp)
    c09.r3(run)
    # match_route: every decode error becomes BadRequest
    mr = C.body_or_fail(run, "xs::api::match_route")
    decoders = [c for c in mr.calls() if c.bb in mr.live_blocks() and c.fn in (
        "xs::store::ReadOptions::from_query", "xs::store::ttl::TTL::from_query", "core::str::<impl str>::parse", "core::str::traits::FromStr::from_str")]
    run.floor("fallible decoders in match_route", len(decoders), 4, mr.sp)
    bad_sites = [bi for bi, si, st in mr.stmt_points() if st["k"] == "assign" and st["rv"].get("adt") == "xs::api::Routes" and st["rv"].get("variant") == "BadRequest"]
    for c in decoders:
        ee = q.call_result_edges(mr, c, ok=False)
        reach = mr.reachable_blocks([t for (_, t, _) in ee], removed_blocks=bad_sites) if ee else set()
        rets = [r for r in mr.return_blocks() if r in reach]
        what = c.fn.split("::")[-1] + ("<%s>" % c.fnx.split("<")[-1].rstrip(">").split("::")[-1] if "<" in c.fnx else "")
        run.ob("xs::api::match_route|decode-error-is-400|%s@%s" % (c.fn.split("::")[-1], c.sp.split(":")[1]), bool(ee) and not rets, c.sp,
               "a failing %s always leads to Routes::BadRequest" % what, reason="malformed-input-accepted")


RULES = [
    ("R-C12-1", "TTL codec: writer keyword / unit / key agree with parse_ttl's table, slice offsets equal the tested prefix length", r1),
    ("R-C12-2", "ReadOptions codec: query keys = serde field names, follow / tail literals and heartbeat unit agree with the option readers", r2),
    ("R-C12-3", "client <-> server names: query keys, literal paths, headers and the base64 engine", r3),
    ("R-C12-4", "Frame: derived Serialize / Deserialize with identical field tables; TTL hand-written on both sides", r4),
    ("R-C12-5", "malformed numbers / keywords / ids / options are rejected (Err, BadRequest); head:0 unconstructible", r5),
]
