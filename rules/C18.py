"""C18 - generator lifecycle: start, ordered output, stop, restart, duplex input."""
from xsvlib.facts import fmt, strip, walk
from xsvlib import q
from . import common as C
from . import frames as F
from . import C06 as c06

EXPLANATION = ("Who-may-append rule for the generators module (only the stamping helper and the spawn-error arm), ordering of start / recv / "
               "stop in the spawn function and its worker thread by reachability, exactly one .spawn.error on the failure edge, the duplex "
               "subscription starting strictly after the start frame and filtering on <name>.send, and the .stop arm re-spawning the stored task.")
NOT_DECIDED = ["one recv per produced string with that string as content, restart timing, exactly-once feeding of .send frames (Nushell + C03)",
               "observation, not claimed: the duplex subscription is not context-scoped (a .send of the same name in another context is fed too)"]

MOD = "xs::generators::serve"
HELPER = MOD + "::append"


def emits(run, body):
    """[(suffix, call_site_in_body)] for emit-helper invocations reachable from `body`, directly or through block_on / awaited async blocks."""
    out = []
    for c in body.calls():
        if c.bb not in body.live_blocks():
            continue
        if c.fn == HELPER:
            s = q.const_strs(c.arg(2))
            out.append((s[0] if s else "?", c))
        else:
            for a in c.arg_exprs():
                for x in walk(a):
                    if x[0] == "agg" and x[1].get("agg") in ("coroutine", "closure") and x[1].get("def"):
                        sub = run.facts.body(x[1]["def"])
                        if sub is not None and sub is not body and c.fn.endswith(("Handle::block_on",)):
                            for cc in sub.calls():
                                if cc.fn == HELPER and cc.bb in sub.live_blocks():
                                    s = q.const_strs(cc.arg(2))
                                    out.append((s[0] if s else "?", c))
                                    run.touch(sub)
    return out


def r1(run):
    facts = run.facts
    sites = []
    for b in facts.all_bodies():
        if b.def_.startswith(MOD) and "::tests::" not in b.def_:
            for a in F.appends_in(b):
                sites.append((b, a))
                run.touch(b)
    run.floor("Store::append sites in the generators module", len(sites), 2)
    for (b, a) in sites:
        fn = facts.enclosing_fn(b)
        if fn == HELPER:
            sid = a.meta.get("source_id") if a.meta else None
            ok = sid is not None and q.last_field(F.json_src(sid)) == "id" and any(y[0] == "field" and y[2] == "task" for y in walk(sid))
            run.ob(HELPER + "|stamp", ok, a.call.sp, "every generator frame carries source_id = task.id (the spawn frame's id)", reason="unstamped-generator-frame")
            run.ob(HELPER + "|context", a.context is not None and q.last_field(a.context) == "context_id" and any(y[0] == "field" and y[2] == "task" for y in walk(a.context)), a.call.sp,
                   "and lands in the task's (= the spawn's) context", reason="wrong-context")
            lits, args = a.topic_lits, a.topic_args
            run.ob(HELPER + "|topic", lits == ["."] and len(args) == 2 and q.last_field(args[0]) == "topic", a.call.sp, "topic = <task.topic>.<suffix>", reason="generator-topic")
            srcs = F.content_sources(a.setters.get("hash"), run.facts)
            from_param = any("content" in fmt(strip(x)) for c in srcs for x in c.arg_exprs()[1:])
            run.ob(HELPER + "|content", bool(srcs) and from_param, a.call.sp,
                   "a frame emitted with content references the CAS entry of exactly that content (hash = cas_insert(content)): %s" % [c.fn.split("::")[-1] for c in srcs],
                   reason="generator-content-lost")
        elif a.has_suffix(".spawn.error"):
            sid = a.meta.get("source_id") if a.meta else None
            ok = sid is not None and q.last_field(F.json_src(sid)) == "id" and a.meta is not None and "reason" in a.meta
            run.ob(fn + "|spawn.error|stamp", ok, a.call.sp, "`.spawn.error` names the spawn frame (source_id = frame.id) and carries the reason", reason="unstamped-generator-frame")
            run.ob(fn + "|spawn.error|context", a.context is not None and q.last_field(a.context) == "context_id", a.call.sp, "in the spawn frame's context", reason="wrong-context")
        else:
            run.ob(fn + "|append", False, a.call.sp, "unexpected direct Store::append in the generators module: %r" % a, reason="unaudited-generator-append")
    # task.id / task.context_id are the spawn frame's
    hb = None
    for b in facts.bodies_under(MOD + "::handle_spawn_event"):
        if b.is_coroutine:
            hb = b
    if hb is not None:
        run.touch(hb)
        ok = False
        for bi, si, st in hb.stmt_points():
            if st["k"] == "assign" and st["rv"].get("adt", "").endswith("GeneratorTask") and bi in hb.live_blocks():
                e = hb.rvalue_expr(st["rv"])
                vals = dict(zip(st["rv"]["fields"], e[2]))
                ok = q.last_field(vals.get("id", ("x",))) == "id" and q.last_field(vals.get("context_id", ("x",))) == "context_id" and \
                    all(any(y[0] == "field" and y[1][0] == "env" and y[2] == "frame" for y in walk(vals[k])) for k in ("id", "context_id"))
        run.ob(MOD + "::handle_spawn_event|task-identity", ok, hb.sp, "GeneratorTask.id / context_id are taken from the spawn frame", reason="generator-identity")


def r2(run):
    sb = None
    for b in run.facts.bodies_under(MOD + "::spawn"):
        if b.is_coroutine and b.def_ == MOD + "::spawn::{closure#0}":
            sb = b
    if sb is None:
        run.missing(MOD + "::spawn|body", "generators::spawn not found")
        return
    run.touch(sb)
    es = emits(run, sb)
    starts = [c for (s, c) in es if s == "start"]
    threads = q.live_calls(sb, *C.THREAD_SPAWNS)
    run.exact("`start` emissions in spawn", len(starts), 1, sb.sp)
    run.exact("worker threads created by spawn", len(threads), 1, sb.sp)
    if starts and threads:
        # the start append has completed (awaited) before the worker exists
        ready = []
        for bb, si in sb.switches():
            if si["kind"] == "variant" and si["cond"][0] == "call" and si["cond"][1].fn.endswith("Future::poll"):
                u = q.unawait(("field", ("downcast", si["cond"], "Ready"), 0))
                if u[0] == "call" and q.same_call(u[1], starts[0]):
                    ready += [(bb, t, lab) for (t, lab, m) in si["edges"] if m == "Ready"]
        run.ob(MOD + "::spawn|start-before-worker", bool(ready) and q.dominated(sb, threads[0].bb, via_edges=ready), threads[0].sp,
               "`<name>.start` is appended (and awaited) before the worker thread is created", reason="recv-before-start")
    # worker
    wb = None
    for c in threads:
        x = strip(c.arg(1) if c.fn == C.THREAD_BUILDER_SPAWN else c.arg(0))
        if x[0] == "agg" and x[1].get("def"):
            wb = run.facts.body(x[1]["def"])
    if wb is None:
        run.missing(MOD + "::spawn|worker", "worker closure not found", sb.sp)
        return
    run.touch(wb)
    we = emits(run, wb)
    stops = [c for (s, c) in we if s == "stop"]
    recvs = [c for (s, c) in we if s == "recv"]
    others = [s for (s, c) in we if s not in ("stop", "recv")]
    run.exact("`stop` emissions in the worker", len(stops), 1, wb.sp)
    run.floor("`recv` emissions in the worker", len(recvs), 1, wb.sp)
    run.ob(MOD + "::spawn|worker|only-recv-and-stop", not others, wb.sp, "the worker emits only recv and stop (%s)" % others, reason="generator-frame-kinds")
    for s in stops:
        late = [r.sp for r in recvs if q.reaches(wb, s.bb, r.bb)]
        run.ob(MOD + "::spawn|worker|nothing-after-stop", not late, s.sp, "no recv is reachable after stop (%s)" % late, reason="recv-after-stop")
        for r in wb.return_blocks():
            run.ob(MOD + "::spawn|worker|stop-on-every-exit", not q.entry_reaches(wb, r, removed_blocks=[s.bb]), wb.blocks[r]["term"]["sp"],
                   "every non-panicking path of the worker ends with stop", reason="missing-stop")
    evals = [c for c in wb.calls() if c.bb in wb.live_blocks() and c.fn.endswith("Engine::eval")]
    for r in recvs:
        run.ob(MOD + "::spawn|worker|recv-from-pipeline", bool(evals) and q.dominated(wb, r.bb, via_blocks=[e.bb for e in evals]), r.sp, "recv frames are produced from the evaluated pipeline")


def r3(run):
    tb = None
    for b in run.facts.bodies_under(MOD + "::try_start_task"):
        if b.is_coroutine:
            tb = b
    if tb is None:
        run.missing(MOD + "::try_start_task|body", "try_start_task not found")
        return
    run.touch(tb)
    hs = [c for c in tb.calls() if c.bb in tb.live_blocks() and c.fn == MOD + "::handle_spawn_event"]
    run.exact("handle_spawn_event call sites", len(hs), 1, tb.sp)
    errs = [a for a in F.appends_in(tb) if a.has_suffix(".spawn.error")]
    for c in hs:
        err_edges = q.call_result_edges(tb, c, ok=False)
        ok_edges = q.call_result_edges(tb, c, ok=True)
        reach_e = tb.reachable_blocks([t for (_, t, _) in err_edges]) if err_edges else set()
        hit = [a for a in errs if a.call.bb in reach_e]
        silent = tb.reachable_blocks([t for (_, t, _) in err_edges], removed_blocks=[a.call.bb for a in hit]) if err_edges else set()
        run.ob(MOD + "::try_start_task|error-announced-once", len(hit) == 1 and not [r for r in tb.return_blocks() if r in silent], c.sp,
               "a spawn that cannot be honoured yields exactly one `.spawn.error` on every failure path", reason="silent-spawn-failure")
        reach_o = tb.reachable_blocks([t for (_, t, _) in ok_edges]) if ok_edges else set()
        run.ob(MOD + "::try_start_task|no-error-on-success", not [a for a in errs if a.call.bb in reach_o], c.sp, "no `.spawn.error` on the success edge", reason="spurious-spawn-error")


def r3b(run):
    """handle_spawn_event: a name already running is refused; otherwise the expression is read from the spawn frame's content,
    the task is recorded under (context, name) and started before Ok is returned."""
    hb = None
    for b in run.facts.bodies_under(MOD + "::handle_spawn_event"):
        if b.is_coroutine:
            hb = b
    if hb is None:
        run.missing(MOD + "::handle_spawn_event|body", "handle_spawn_event not found")
        return
    run.touch(hb)
    fn = MOD + "::handle_spawn_event"
    ck = [c for c in hb.calls() if c.bb in hb.live_blocks() and c.fn.endswith("::contains_key") and "HashMap" in c.fn]
    ins = [c for c in hb.calls() if c.bb in hb.live_blocks() and c.fn.endswith("::insert") and "HashMap" in c.fn and "GeneratorTask" in c.fnx]
    sps = q.live_calls(hb, MOD + "::spawn")
    run.exact("task registrations in handle_spawn_event", len(ins), 1, hb.sp)
    run.exact("spawn calls in handle_spawn_event", len(sps), 1, hb.sp)
    if ins:
        # whatever refuses a spawn does so BEFORE the registry is written: a refused spawn must not replace the running task's record
        late_err = []
        for (rb, e, raw) in hb.return_defs():
            x = strip(e)
            is_err = (x[0] == "agg" and x[1].get("variant") == "Err") or (x[0] == "call" and x[1].fn.endswith("from_residual"))
            if is_err and (q.reaches(hb, ins[0].bb, rb) or rb == ins[0].bb):
                # ... unless the registration is rolled back first (the record this invocation wrote is removed again)
                undo = [c.bb for c in hb.calls() if c.bb in hb.live_blocks() and c.fn.endswith(("::remove", "::remove_entry")) and "HashMap" in c.fn and "GeneratorTask" in c.fnx
                        and q.dominated(hb, c.bb, via_blocks=[ins[0].bb])]
                if undo and q.dominated(hb, rb, via_blocks=undo):
                    continue
                late_err.append(hb.blocks[rb]["term"]["sp"])
        run.ob(fn + "|refusal-precedes-registration", not late_err, ins[0].sp,
               "no Err return is reachable after the registry write: a spawn that is refused (it becomes .spawn.error) leaves the running generator's record untouched (%s)" % late_err,
               reason="running-generator-replaced")
    # the registry is what restarts a generator after its stop: a record leaves it only as the roll-back of this very registration
    # (behind the insert of the same invocation), never on the refusal / error path of some other spawn
    REMOVERS = ("::remove", "::remove_entry", "::clear", "::retain", "::drain", "::extract_if")
    n_mut = 0
    for b2 in run.facts.all_bodies():
        if not b2.def_.startswith(MOD + "::"):
            continue
        own_ins = [c.bb for c in b2.calls() if c.bb in b2.live_blocks() and c.fn.endswith("::insert") and "HashMap" in c.fn and "GeneratorTask" in c.fnx]
        for c in b2.calls():
            if c.bb not in b2.live_blocks() or "GeneratorTask" not in c.fnx or not ("HashMap" in c.fn or "hash::map::" in c.fn):
                continue
            n_mut += 1
            if c.fn.endswith(REMOVERS) or ("Entry" in c.fn and c.fn.endswith(("::remove", "::remove_entry", "::insert"))):
                run.touch(b2)
                run.ob(fn + "|registry|record-removed-only-as-own-rollback|" + run.facts.enclosing_fn(b2).split("::")[-1] + "|" + c.fn.split("::")[-1],
                       bool(own_ins) and q.dominated(b2, c.bb, via_blocks=own_ins), c.sp,
                       "a generator record is taken out of the registry only behind the registration of the same spawn (otherwise a refused or failed "
                       "spawn for a running name would end that generator's restarts)", reason="running-generator-replaced")
    run.floor("operations on the generator registry in the generators module", n_mut, 3, hb.sp)
    member_tests = 0
    for bb, si in hb.switches():
        if any(cc.fn.endswith(("::contains_key", "::get", "::entry", "::insert", "::get_mut")) and "HashMap" in cc.fn for cc in q.calls_in(si["cond"])):
            member_tests += 1
    run.floor("tests of the generator registry in handle_spawn_event (is that name already running?)", member_tests, 1, hb.sp)
    if not (ck and ins and sps):
        return
    c0 = ck[0]
    te, fe = [], []
    for bb, si in hb.switches():
        sc = strip(si["cond"])
        if si["kind"] == "bool" and sc[0] == "call" and q.same_call(sc[1], c0):
            te += q.edge_triples(hb, bb, lambda m: m is True)
            fe += q.edge_triples(hb, bb, lambda m: m is False)
    reach_t = hb.reachable_blocks([t for (_, t, _) in te]) if te else set()
    rets_t = [strip(e) for (rb, e, raw) in hb.return_defs() if rb in reach_t and not q.reaches(hb, 0, rb, removed_edges=te) and rb != 0]
    run.ob(fn + "|already-running|refused", bool(te) and ins[0].bb not in reach_t and sps[0].bb not in reach_t, c0.sp,
           "when a generator of that (context, name) is already recorded nothing is registered or started (the caller turns the Err into .spawn.error)", reason="running-generator-replaced")
    run.ob(fn + "|new-name|accepted", bool(fe) and q.dominated(hb, ins[0].bb, via_edges=fe) and q.dominated(hb, sps[0].bb, via_edges=fe), c0.sp,
           "registration and start happen exactly on the `not yet running` edge", reason="new-generator-refused")
    key_ok = all(any(q.last_field(y) == "context_id" for y in walk(c.arg(1))) and any(y[0] in ("arg", "field") and "topic" in fmt(y) for y in walk(c.arg(1))) for c in (c0, ins[0]))
    run.ob(fn + "|key", key_ok, c0.sp, "the test and the registration use the (frame.context_id, name) key", reason="running-generator-replaced")
    oks = [rb for (rb, e, raw) in hb.return_defs() if strip(e)[0] == "agg" and strip(e)[1].get("variant") == "Ok"]
    run.ob(fn + "|ok-means-started", bool(oks) and all(q.dominated(hb, rb, via_blocks=[ins[0].bb]) and q.dominated(hb, rb, via_blocks=[sps[0].bb]) for rb in oks), sps[0].sp,
           "every Ok return passes the registration and the start of the task", reason="accepted-spawn-not-started")
    # the expression is the content of the spawn frame
    rts = [c for c in hb.calls() if c.bb in hb.live_blocks() and c.fn.endswith("::read_to_string")]
    cas = [c for c in hb.calls() if c.bb in hb.live_blocks() and c.fn in ("xs::store::Store::cas_reader", "xs::store::Store::cas_read", "xs::store::Store::cas_reader_sync")]
    ok = False
    for r in rts:
        from_hash = any(q.last_field(y) == "hash" for c in cas for y in walk(c.arg(1)))
        err = q.call_result_edges(hb, r, ok=False)
        dst = q.root_local(hb, r.args[1]) if len(r.args) > 1 else None
        used = False
        for bi, si2, st in hb.stmt_points():
            if st["k"] == "assign" and st["rv"].get("agg") == "adt" and "GeneratorTask" in st["rv"].get("adt", "") and bi in hb.live_blocks():
                for op in st["rv"].get("ops", []):
                    e = hb.operand_expr(op)
                    for y in walk(e):
                        if y[0] == "call" and y[2] and y[1].fn.endswith("Clone::clone"):
                            if q.root_local(hb, y[1].args[0]) == dst:
                                used = True
                    if q.root_local(hb, op) == dst:
                        used = True
                used = used and q.dominated(hb, bi, via_blocks=[r.bb])
        ok = ok or (from_hash and bool(err) and used)
    run.ob(fn + "|expression-from-content", ok, rts[0].sp if rts else hb.sp,
           "the task's expression is what was read (errors propagated) from the CAS content named by the spawn frame's hash, before the task is built", reason="generator-expression-lost")


def r4(run):
    sb = None
    for b in run.facts.bodies_under(MOD + "::spawn"):
        if b.is_coroutine and b.def_ == MOD + "::spawn::{closure#0}":
            sb = b
    if sb is None:
        run.missing(MOD + "::spawn|body", "generators::spawn not found")
        return
    reads = q.live_calls(sb, C.READ)
    run.exact("duplex subscriptions in spawn", len(reads), 1, sb.sp)
    for c in reads:
        info = c06.options_info(run, sb, c.arg(1))
        if info["kind"] != "builder":
            run.unrecognised(MOD + "::spawn|duplex-options", "cannot interpret the duplex ReadOptions", c.sp)
            continue
        st = dict(zip(c06.read_options_slots(run), info["state"]))
        lid = info["setters"].get("last_id")
        from_start = lid is not None and q.last_field(lid[0]) == "id" and any(y[0] == "call" and y[1].fn == HELPER and "start" in q.const_strs(y[2][2]) for y in walk(lid[0]))
        fv = strip(info["setters"]["follow"][0]) if "follow" in info["setters"] and info["setters"]["follow"][0] is not None else None
        follows = fv is not None and fv[0] == "agg" and fv[1].get("variant") in ("On", "WithHeartbeat")
        run.ob(MOD + "::spawn|duplex|after-start", st.get("last_id") == "Set" and from_start and st.get("follow") == "Set" and follows and st.get("tail") != "Set", c.sp,
               "the duplex feed follows the stream strictly after the `start` frame's id (nothing appended while running is missed or replayed): %s" % st, reason="duplex-start-position")
        # only when duplex is enabled
        edges = []
        for bb, si in sb.switches():
            if si["kind"] == "bool" and any(y[0] == "field" and y[2] == "duplex" for y in walk(si["cond"])):
                edges += q.edge_triples(sb, bb, lambda m: m is True)
        run.ob(MOD + "::spawn|duplex|only-if-enabled", bool(edges) and q.dominated(sb, c.bb, via_edges=edges), c.sp, "the subscription exists only when meta.duplex is true")
    # filter: topic == "<name>.send" and content read from CAS
    ok = False
    for b in run.facts.closures_under(sb.def_):
        for bb, si in b.switches():
            if si["kind"] == "bool":
                cmp_ = q.comparison(si["cond"])
                if cmp_ and cmp_[0] == "eq":
                    lits = []
                    for s in (cmp_[1], cmp_[2]):
                        lits += F.string_pieces(s)[0]
                    if ".send" in lits and any("topic" in str(y[2]) for s in (cmp_[1], cmp_[2]) for y in walk(s) if y[0] == "field"):
                        t_edges = q.edge_triples(b, bb, lambda m: m is True)
                        reads_cas = [c for c in b.calls() if c.fn == "xs::store::Store::cas_read" and c.bb in b.live_blocks()]
                        if reads_cas and all(q.dominated(b, c.bb, via_edges=t_edges) for c in reads_cas):
                            ok = True
                            run.touch(b)
    run.ob(MOD + "::spawn|duplex|send-filter", ok, sb.sp, "only frames whose topic equals `<name>.send` are read from CAS and fed to the pipeline", reason="duplex-filter")


def r5(run):
    sv = None
    for b in run.facts.bodies_under(MOD + "::serve"):
        if b.is_coroutine and b.def_ == MOD + "::serve::{closure#0}":
            sv = b
    if sv is None:
        run.missing(MOD + "::serve|body", "generators::serve not found")
        return
    run.touch(sv)
    stop_edges = F.suffix_tests(sv, ".stop")
    run.ob(MOD + "::serve|stop-arm", len(stop_edges) >= 1, sv.sp, "the live loop recognises `<name>.stop`", reason="mechanism-not-found")
    gets = [c for c in sv.calls() if c.bb in sv.live_blocks() and c.fn.endswith("HashMap::<K, V, S, A>::get") and stop_edges and q.dominated(sv, c.bb, via_edges=stop_edges)]
    run.ob(MOD + "::serve|stop-looks-up-task", len(gets) == 1, sv.sp, "on `.stop` the stored task of that (context, name) is looked up", reason="no-restart")
    respawn = False
    for c in q.live_calls(sv, C.TOKIO_SPAWN):
        if not (stop_edges and q.dominated(sv, c.bb, via_edges=stop_edges)):
            continue
        for x in walk(c.arg(0)):
            if x[0] == "agg" and x[1].get("def"):
                tb = run.facts.body(x[1]["def"])
                if tb is not None and any(cc.fn == MOD + "::spawn" for cc in tb.calls()):
                    # the task handed to spawn is the looked-up one
                    respawn = any(y[0] == "call" and y[1].fn.endswith("HashMap::<K, V, S, A>::get") for op in x[2] for y in walk(op))
                    run.touch(tb)
    run.ob(MOD + "::serve|stop-respawns", respawn, sv.sp, "after a stop the stored task is started again", reason="no-restart")
    spawn_edges = F.suffix_tests(sv, ".spawn")
    starts = [c for c in sv.calls() if c.bb in sv.live_blocks() and c.fn == MOD + "::try_start_task"]
    run.ob(MOD + "::serve|spawn-dispatch", len(starts) >= 2 and all(q.dominated(sv, c.bb, via_edges=spawn_edges) for c in starts), sv.sp,
           "`.spawn` frames (compacted and live) are passed to try_start_task", reason="spawn-ignored")


RULES = [
    ("R-C18-1", "generator frames are appended only by the stamping helper (source_id = spawn id, spawn's context) or the spawn-error arm", r1),
    ("R-C18-2", "start is appended before the worker exists; in the worker nothing follows stop and every exit passes stop", r2),
    ("R-C18-3", "a failing spawn yields exactly one .spawn.error on every failure path and none on success", r3),
    ("R-C18-7", "handle_spawn_event: a running name is refused, a new one is recorded under (context, name) and started before Ok; the expression is the spawn frame's content", r3b),
    ("R-C18-4", "duplex: subscription strictly after the start frame, only if enabled, filtered on <name>.send", r4),
    ("R-C18-5", "the .stop arm re-spawns the stored task; .spawn frames are dispatched to try_start_task", r5),
    ("R-C18-6", "the generator dispatcher keeps serving: following subscription, threshold ends replay, the live loop ends only with the stream (shared with R-C17-6)", lambda run: __import__("rules.C17", fromlist=["x"]).rule_dispatcher_shape(run, ("xs::generators::serve",))),
]
