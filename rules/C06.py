"""C06 - contexts are isolated on every access path."""
from xsvlib.facts import fmt, strip, place_path, walk
from xsvlib import q
from . import common as C
from .store_shared import rule_range_bounds, read_bodies
from . import C03 as c03

EXPLANATION = ("Context provenance: for every Store::read / read_sync / head call site and every script-command constructor the context "
               "argument is traced (through builders, closure captures and crate-local callers) to its origins, which must be the owner's "
               "context_id field, the parsed request/flag value, or ZERO_CONTEXT where that is the specification; the live filter and the "
               "handler's output re-homing are checked by dominance.")
NOT_DECIDED = ["isolation as an end-to-end behaviour for adjacent context ids (range arithmetic at u128::MAX is acknowledged in the source, not claimed)",
               "observation, not claimed: the generator duplex reader subscribes to all contexts (see C18)"]

SCRU = "scru128::id::Scru128Id"
READ_OPTIONS_FIELDS = None


def outer_fn_param_callers(run, body, name):
    """For a capture/arg `name` that is a parameter of the enclosing fn, the argument expressions at every crate call site."""
    facts = run.facts
    fn = facts.enclosing_fn(body)
    fb = facts.body(fn)
    if fb is None:
        return None
    idx = None
    for l in range(1, fb.argc + 1):
        if fb.lname(l) == name:
            idx = l - 1
    if idx is None:
        return None
    out = []
    for (b, c) in C.callers_of(facts, fn):
        if idx < len(c.args):
            out.append((b, c.arg(idx)))
    return out


def ctx_origins(run, body, e, depth=0, seen=None):
    """Set of labels describing where a context-id value comes from."""
    seen = seen or set()
    out = set()
    if depth > 8:
        return {"other:too-deep"}
    for x in q.origins(e):
        x = strip(x)
        if x[0] == "call" and x[1].fn in ("core::option::Option::<T>::unwrap_or", "core::option::Option::<T>::unwrap_or_else") and len(x[2]) == 2:
            out |= ctx_origins(run, body, x[2][0], depth + 1, seen) | ctx_origins(run, body, x[2][1], depth + 1, seen)
            continue
        if x[0] == "const" and x[1].get("uneval", "").endswith("ZERO_CONTEXT"):
            out.add("zero")
            continue
        if x[0] == "agg" and x[1].get("variant") == "None":
            out.add("none")
            continue
        if x[0] == "field" and x[1][0] == "env":
            name = str(x[2])
            if name == "context_id":
                callers = outer_fn_param_callers(run, body, name)
                key = (run.facts.enclosing_fn(body), name)
                if callers and key not in seen:
                    for (cb, ce) in callers:
                        out |= ctx_origins(run, cb, ce, depth + 1, seen | {key})
                else:
                    out.add("param:" + name)
            elif name.endswith("context_id"):
                out.add("field:" + name)
            else:
                out.add("other:capture " + name)
            continue
        if x[0] == "field" and x[2] == "context_id":
            base = strip(x[1])
            out.add("field:%s.context_id" % fmt(base)[:60])
            continue
        if x[0] == "arg" and x[2] == "context_id":
            callers = outer_fn_param_callers(run, body, "context_id")
            key = (run.facts.enclosing_fn(body), "context_id")
            if callers and key not in seen:
                for (cb, ce) in callers:
                    out |= ctx_origins(run, cb, ce, depth + 1, seen | {key})
            else:
                out.add("param:context_id")
            continue
        # parsed from a string flag / request parameter
        parsed = [y for y in walk(x) if y[0] == "call" and y[1].fn == "core::str::<impl str>::parse" and SCRU in y[1].fnx]
        for y in walk(x):
            # `flag.map(|s| s.parse::<Scru128Id>())`: the parse lives in a closure body
            if y[0] == "agg" and y[1].get("agg") == "closure":
                cb = run.facts.body(y[1]["def"])
                if cb is not None:
                    parsed += [c for c in cb.calls() if c.fn == "core::str::<impl str>::parse" and SCRU in c.fnx]
        if parsed:
            keys = set()
            for y in walk(x):
                if y[0] == "const" and "str" in y[1] and y[1]["str"] in ("context", "context-id"):
                    keys.add(y[1]["str"])
            out.add("parsed:%s" % ("/".join(sorted(keys)) or "?"))
            continue
        out.add("other:" + fmt(x)[:80])
    return out


def read_options_slots(run):
    adt = run.facts.adt("xs::store::ReadOptions")
    return [f["name"] for f in adt["variants"][0]["fields"]]


def options_info(run, body, e, depth=0):
    """Describe a ReadOptions argument: dict(kind='builder', state=.., setters={name: (arg, call)}) | 'passthrough' | 'fn'."""
    x = q.peel(e)
    if x[0] == "call" and "ReadOptionsBuilder" in x[1].fn and x[1].fn.endswith("::build"):
        state = q.builder_state(x[1])
        start, chain = q.builder_chain(x)
        setters = {}
        for (name, arg, cc) in chain:
            setters[name.replace("maybe_", "")] = (arg, cc, name.startswith("maybe_"))
        return {"kind": "builder", "state": state, "setters": setters, "body": body, "call": x[1]}
    if x[0] == "call" and x[1].local and depth < 3:
        fb = run.facts.body(x[1].fn)
        # async fn: the value is produced by its coroutine body
        cands = [fb] if fb is not None else []
        cands += [b for b in run.facts.closures_under(x[1].fn)]
        for cb in cands:
            for (bb, re_, raw) in cb.return_defs():
                r = options_info(run, cb, re_, depth + 1)
                if r and r["kind"] == "builder":
                    run.touch(cb)
                    return r
        return {"kind": "fn", "fn": x[1].fn}
    y = x
    while y[0] in ("field", "deref", "ref"):
        y = y[1]
    if x[0] in ("arg",) or (x[0] == "field" and y[0] in ("env", "arg")):
        # a parameter / capture, or a field of one (`let CatRequest { options, .. } = cat;`)
        return {"kind": "passthrough", "name": fmt(x)}
    return {"kind": "other", "expr": fmt(x)[:100]}


def contexts_in_scope(run, body):
    """Context-role parameters visible at a call site: (label, kind)."""
    out = []
    facts = run.facts
    chain = [body]
    fn = facts.enclosing_fn(body)
    fb = facts.body(fn)
    if fb is not None and fb is not body:
        chain.append(fb)
    for b in chain:
        for l in range(1, b.argc + 1):
            name = b.lname(l)
            tys = b.types.s(b.local_ty(l))
            if name == "context_id" and SCRU in tys:
                out.append("param:context_id")
            ad = b.types.adt_name(b.local_ty(l))
            adt = facts.adt(ad) if ad else None
            if adt and adt["variants"] and any(f["name"] == "context_id" for f in adt["variants"][0]["fields"]) and ad != "xs::store::ReadOptions":
                out.append("owner:%s:%s" % (name or "_%d" % l, ad.split("::")[-1]))
        for cap in b.captures:
            if cap["name"] == "context_id":
                out.append("param:context_id")
    return sorted(set(out))


READ_EXEMPT = {
    "xs::generators::serve::spawn": "generator duplex feed subscribes to all contexts and filters by topic only: outside C06's stated access paths (read/follow/head/handlers/script commands); recorded as an observation, see C18",
}


def r1(run):
    facts = run.facts
    slots = read_options_slots(run)
    ci = slots.index("context_id")
    sites = [(b, c) for (b, c) in C.callers_of(facts, C.READ)]
    # floors by role (a total count would alarm when an unrelated all-contexts reader is removed)
    fns = {facts.enclosing_fn(b) for (b, c) in sites}
    for must in ("xs::api::handle_head_get", "xs::api::handle_stream_cat", "xs::handlers::handler::Handler::spawn"):
        run.ob("role-site|%s" % must, must in fns, "<crate>", "the Store::read call site of %s is visible to the rule" % must, reason="instance-count-below-floor")
    run.floor("Store::read call sites", len(sites), 5)
    for (b, c) in sites:
        fn = facts.enclosing_fn(b)
        run.touch(b)
        info = options_info(run, b, c.arg(1))
        scope = contexts_in_scope(run, b)
        cons = "%s|call:Store::read" % fn
        if info["kind"] == "passthrough":
            run.ob(cons, True, c.sp, "options are the caller's own ReadOptions passed through unchanged (%s); in scope: %s" % (info["name"], scope or "none"))
            continue
        if info["kind"] != "builder":
            run.unrecognised(cons, "cannot interpret the ReadOptions argument: %s" % info, c.sp)
            continue
        st = info["state"][ci] if info["state"] else "?"
        if not scope:
            run.ob(cons, True, c.sp, "no context-role value in scope; context slot is %s (all-contexts reader)" % st)
            continue
        if fn in READ_EXEMPT:
            run.ob(cons, True, c.sp, "EXEMPT (%s); context slot is %s" % (READ_EXEMPT[fn], st))
            run.note("%s: %s" % (fn, READ_EXEMPT[fn]))
            continue
        if st != "Set" or "context_id" not in info["setters"]:
            run.ob(cons, False, c.sp, "a context is in scope (%s) but the subscription is built with the context slot %s: frames of other contexts are delivered" % (scope, st),
                   reason="unscoped-read-with-context-in-scope")
            continue
        arg, cc, maybe = info["setters"]["context_id"]
        org = ctx_origins(run, info["body"], arg)
        bad = [o for o in org if o.startswith(("other", "zero", "none"))]
        run.ob(cons, not bad and bool(org), c.sp, "context slot is Set from %s (in scope: %s)" % (sorted(org), scope), reason="read-scoped-to-wrong-context")


def r2(run):
    facts = run.facts
    sites = []
    for (b, c) in C.callers_of(facts, C.READ_SYNC):
        sites.append((b, c, c.arg(3), "read_sync"))
    for d_ in C.delegates_of(facts, C.READ_SYNC):
        # `read_sync_topic(last_id, limit, context_id, topic)`: same leading parameters, the context is still argument 3
        for (b, c) in C.callers_of(facts, d_):
            ci = C.param_index(facts, d_, "context_id", 3)      # the delegate may take extra options before the context
            if facts.enclosing_fn(b) != C.READ_SYNC and len(c.args) > ci:
                sites.append((b, c, c.arg(ci), "read_sync"))
    for (b, c) in C.callers_of(facts, C.HEAD):
        sites.append((b, c, c.arg(2), "head"))
    # floors by role: the script commands' read_sync / head and the HTTP head route must be visible (Store::new's own scan is incidental)
    run.floor("read_sync call sites in script commands", len([1 for (b, c, a, w) in sites if w == "read_sync" and "nu::commands" in b.def_]), 1)
    run.floor("head call sites (HTTP route + script command)", len([1 for (b, c, a, w) in sites if w == "head"]), 2)
    for (b, c, arg, what) in sites:
        fn = facts.enclosing_fn(b)
        run.touch(b)
        org = ctx_origins(run, b, arg)
        cons = "%s|call:Store::%s" % (fn, what)
        if fn == C.NEW:
            run.ob(cons, org == {"zero"}, c.sp, "Store::new scans the zero context: %s" % sorted(org), reason="wrong-context")
            continue
        bad = [o for o in org if o.startswith(("other", "none"))]
        has_owner = any(o.startswith(("field:", "param:")) for o in org)
        flagged = any(o.startswith("parsed:") for o in org)
        ok = not bad and has_owner and "zero" not in org
        run.ob(cons, ok, c.sp, "%s is scoped by the owner's context%s: %s" % (what, " (or an explicit flag)" if flagged else "", sorted(org)), reason="wrong-context")
    # unbuffered .append: default context is the command's own
    for b in facts.all_bodies():
        if b.def_.startswith("<xs::nu::commands::append_command::AppendCommand as") and b.def_.endswith("::run"):
            run.touch(b)
            for c in q.live_calls(b, "xs::store::Frame::builder"):
                org = ctx_origins(run, b, c.arg(1))
                ok = any(o.startswith("field:") for o in org) and "zero" not in org and not [o for o in org if o.startswith("other")]
                run.ob("%s|Frame::builder|context" % "xs::nu::commands::append_command::AppendCommand::run", ok, c.sp,
                       "the unbuffered .append defaults to the command's own context: %s" % sorted(org), reason="wrong-context")


def r3(run):
    ls = c03.live_shape(run)
    if ls is None:
        run.missing("%s|live-body" % C.READ, "live task not found")
        return
    live, recvs, sends = ls
    filt = []
    for bb, si in live.switches():
        if si["kind"] != "bool":
            continue
        cmp_ = q.comparison(si["cond"])
        if not cmp_:
            from .store_shared import comparison_through_option
            cto = comparison_through_option(run, live, si["cond"])
            # `opt.is_some_and(|c| frame.context_id != c)`: the false edge is `no context requested, or equal`
            cmp_ = cto[:3] if cto and cto[3] == "some_and" and cto[0] == "ne" else None
        if not cmp_:
            continue
        rel, l, r = cmp_
        if rel not in ("eq", "ne"):
            continue
        sides = (l, r)
        frame_side = [s for s in sides if q.last_field(s) == "context_id" and c03.is_recv_frame(s)]
        opt_side = [s for s in sides if any(y[0] == "env" for y in walk(s)) and not c03.is_recv_frame(s)]
        if frame_side and opt_side:
            filt.append((bb, q.edge_triples(live, bb, lambda m, rel=rel: m is (rel == "eq")), opt_side[0]))
    run.exact("context comparisons in the live task", len(filt), 1, live.sp)
    none_edges = []
    from .store_shared import subst_env

    def names_ctx_option(e):
        """Does e denote the subscription's context option - directly, or as a capture of a local copy (`let scope = options.context_id`)?"""
        if any(y[0] == "field" and "context_id" in str(y[2]) for y in walk(e)):
            return True
        try:
            e2 = subst_env(run, live, e)
        except Exception:
            return False
        return any(y[0] == "field" and "context_id" in str(y[2]) for y in walk(e2))
    for bb, si in live.switches():
        if si["kind"] == "variant" and names_ctx_option(si["cond"]) and not c03.is_recv_frame(si["cond"]):
            for (t, lab, m) in si["edges"]:
                ms = m if isinstance(m, tuple) else (m,)
                if ms == ("None",):
                    none_edges.append((bb, t, lab))
    for (bb, eq_edges, opt) in filt:
        for s in sends:
            run.ob("%s|live|context-filter" % C.READ, bool(eq_edges) and q.dominated(live, s.bb, via_edges=eq_edges + none_edges), s.sp,
                   "a live frame is delivered only on the `frame.context_id == requested context` edge (or when no context was requested)", reason="live-context-leak")
        run.ob("%s|live|context-filter-operand" % C.READ, names_ctx_option(opt), live.blocks[bb]["term"]["sp"],
               "the comparison is against the subscription's own context option: %s" % fmt(strip(opt)), reason="live-context-leak")
    # the same option value scopes the historical scan
    rb = read_bodies(run)
    h = rb["history"]
    if h is not None:
        for c in q.live_calls(h, C.ITER_FRAMES):
            a = strip(c.arg(1))
            run.ob("%s|history|context-forwarded" % C.READ, any(y[0] == "field" and "context_id" in str(y[2]) for y in walk(a)), c.sp,
                   "the historical scan is scoped by the same option: iter_frames(%s, ..)" % fmt(a), reason="history-context-leak")


def r4(run):
    b = None
    for x in run.facts.bodies_under("xs::handlers::handler::Handler::process_frame"):
        if C.append_sites(run.facts, x):
            b = x
    if b is None:
        run.missing("xs::handlers::handler::Handler::process_frame|append", "process_frame does not append output frames")
        return
    run.touch(b)
    b.defs()
    writes = []
    for (bi, si, lhs, rv, sp) in b.field_writes:
        last = lhs["p"][-1] if lhs["p"] else None
        if isinstance(last, dict) and last.get("n") == "context_id" and last.get("adt") == C.FRAME and bi in b.live_blocks():
            val = b.rvalue_expr(rv)
            org = ctx_origins(run, b, val)
            root = lhs["l"]
            if lhs["p"] and lhs["p"][0] == "*":
                # written through a `&mut Frame` (stamping moved into a helper): the frame the reference points to
                r2 = q.root_local(b, {"copy": {"l": lhs["l"], "p": []}})
                root = r2 if r2 is not None else root
            writes.append((bi, root, org, sp))
    run.floor("writes to <output frame>.context_id in process_frame", len(writes), 1, b.sp)
    for c in C.append_sites(run.facts, b):
        l = q.root_local(b, c.args[1])
        good = [w for w in writes if w[1] == l and all(o.startswith("field:") and "self" in o for o in w[2])]
        ok = bool(good) and q.dominated(b, c.bb, via_blocks=[w[0] for w in good])
        if not ok:
            # re-homing done in a pass over the whole output vector before the first append
            from . import C15 as c15
            pre = [w for w in writes if all(o.startswith("field:") and "self" in o for o in w[2])]
            ok = bool(pre) and c15.prepass_covers(b, c, [w[0] for w in pre])
        run.ob("xs::handlers::handler::Handler::process_frame|append|rehomed", ok, c.sp,
               "every appended output frame has context_id overwritten with self.context_id first (%s)" % [sorted(w[2]) for w in writes], reason="handler-output-escapes-context")


CMD_CTORS = ("xs::nu::commands::cat_command::CatCommand::new", "xs::nu::commands::head_command::HeadCommand::new",
             "xs::nu::commands::append_command::AppendCommand::new")


def r5(run):
    facts = run.facts
    n = 0
    for ctor in CMD_CTORS:
        for (b, c) in C.callers_of(facts, ctor):
            n += 1
            fn = facts.enclosing_fn(b)
            run.touch(b)
            org = ctx_origins(run, b, c.arg(1))
            bad = [o for o in org if not o.startswith("field:")]
            run.ob("%s|%s" % (fn, ctor.split("::")[-2] + "::new"), not bad and bool(org), c.sp,
                   "%s is constructed with the owning frame's context: %s" % (ctor.split("::")[-2], sorted(org)), reason="script-command-wrong-context")
    run.floor("script command constructor sites taking a context", n, 5)
    # the commands keep that value: their struct field is written only by new()
    for ctor in CMD_CTORS:
        cb = C.body_or_fail(run, ctor)
        rets = cb.return_defs()
        ok = False
        for (bb, e, raw) in rets:
            x = strip(e)
            if x[0] == "agg" and "context_id" in x[1].get("fields", []):
                v = x[2][x[1]["fields"].index("context_id")]
                ok = strip(v)[0] == "arg"
        run.ob("%s|stores-argument" % ctor, ok, cb.sp, "the constructor stores its context argument in the command", reason="script-command-wrong-context")


def r7(run):
    facts = run.facts
    slots = read_options_slots(run)
    ci = slots.index("context_id")
    found = False
    for b in facts.bodies_under("xs::handlers::handler::Handler::configure_read_options"):
        for (bb, e, raw) in b.return_defs():
            info = options_info(run, b, e)
            if info["kind"] == "builder":
                found = True
                run.touch(b)
                st = info["state"][ci]
                org = ctx_origins(run, b, info["setters"]["context_id"][0]) if "context_id" in info["setters"] else set()
                run.ob("xs::handlers::handler::Handler::configure_read_options|context", st == "Set" and org and all(o.startswith("field:") and "self" in o for o in org),
                       b.sp, "the handler's subscription is scoped to self.context_id (slot %s from %s)" % (st, sorted(org)), reason="handler-unscoped")
    if not found:
        run.missing("xs::handlers::handler::Handler::configure_read_options|builder", "handler read options builder not found")


RULES = [
    ("R-C06-1", "every Store::read site with a context in scope builds its options with the context slot Set from that context", r1),
    ("R-C06-2", "every read_sync / head call and the unbuffered .append default pass the owner's context (or an explicit flag), never ZERO by default", r2),
    ("R-C06-8", "a live frame of another context is skipped: it never ends the scoped follower's stream (shared with R-C11-8)", lambda run: __import__("rules.C11", fromlist=["r8"]).r8(run)),
    ("R-C06-3", "live filter: delivery only on the frame.context_id == requested edge; the scan uses the same option", r3),
    ("R-C06-4", "handler output is re-homed: context_id := self.context_id dominates every append in process_frame", r4),
    ("R-C06-5", "script commands (.cat/.head/.append) are constructed with the owning frame's context and keep it", r5),
    ("R-C06-6", "the context index range stays inside [ctx, ctx+1) (shared with R-C01-1)", rule_range_bounds),
    ("R-C06-7", "a handler's own subscription is scoped to self.context_id", r7),
    ("R-C06-9", "objects that carry a context (commands with their engine, handlers, generator tasks) are kept only in registries keyed by "
                "(context_id, name): a cache keyed by name or by content hash hands one context's object to another (shared with R-C17-1)",
     lambda run: __import__("rules.C17", fromlist=["r1"]).r1(run)),
]
