"""C02 - the stream is append-only even with concurrent writers."""
from xsvlib.facts import fmt, strip, place_path
from xsvlib import q
from . import common as C
from .store_shared import rule_range_bounds

EXPLANATION = ("Static lock-region, dominance and who-may-call analysis of Store::append over the type-checked MIR: "
               "one shared lock covers id assignment, commit and broadcast on every path; nobody else publishes or assigns ids.")
NOT_DECIDED = ["scru128 monotonicity", "tokio per-receiver FIFO delivery", "fjall snapshot visibility of committed batches",
               "the append-only behaviour itself under real schedules (only its structural necessary conditions are decided)"]


def publisher_body(run):
    sends = [c for c in run.facts.calls_to(C.BROADCAST_SEND) if C.frame_typed(c) and c.bb in c.body.live_blocks()]
    return sends


def r1(run):
    sends = publisher_body(run)
    run.floor("broadcast::Sender<Frame>::send call sites", len(sends), 1)
    if not sends:
        return
    pubs = C.publishers(run.facts)
    run.ob("%s|is-append" % C.APPEND, bool(pubs) and pubs[0].def_ == C.APPEND, pubs[0].sp if pubs else "<crate>",
           "Store::append (test-pinned name) publishes; every other publisher is an inherent Store method and owes the same section: %s" % [x.def_ for x in pubs])
    for b in pubs:
        mine = [c for c in sends if c.body is b]
        if mine:
            r1_for(run, b, mine)


def r1_for(run, b, sends):
    send = sends[0]
    run.touch(b)
    ids = q.live_calls(b, C.SCRU_NEW)
    from .store_shared import store_points
    inserts = [c for (c, es) in store_points(b)]      # Store::insert_frame, or the batch commit of a writer spliced into the publisher
    run.floor("id assignment (scru128::new) in the publishing function", len(ids), 1, b.sp)
    run.floor("Store::insert_frame call in the publishing function", len(inserts), 1, b.sp)
    guards = q.lock_guards(b)
    # the lock must be reachable from self through an Arc field of Store (shared by all clones)
    store = run.facts.adt(C.STORE)
    shared = []
    for (lc, gl, acq, path) in guards:
        if not path or path[0] != "self" or len(path) < 2:
            continue
        fld = [f for f in store["variants"][0]["fields"] if f["name"] == path[1]]
        if not fld:
            continue
        tys = run.facts.lib.types.s(fld[0]["ty"])
        if tys.startswith(q.SHARED_LOCK_TYPES):
            shared.append((lc, gl, acq, path, tys))
    sites = [("id-assignment", c) for c in ids] + [("commit(insert_frame)", c) for c in inserts] + [("broadcast" if i == 0 else "broadcast#%d" % (i + 1), c) for i, c in enumerate([send] + [c for c in sends if c is not send and c.body is b])]
    best = None
    for (lc, gl, acq, path, tys) in shared:
        res = [(name, c, q.held_at(b, acq, gl, c.bb)) for name, c in sites]
        if all(r[2][0] for r in res):
            best = (lc, gl, acq, path, tys, res)
            break
        if best is None:
            best = (lc, gl, acq, path, tys, res)
    if best is None:
        for name, c in sites:
            run.ob("%s|append-section|%s" % (b.def_, name), False, c.sp,
                   "no Mutex/RwLock-write guard reachable from self through an Arc field is taken in %s: id assignment, commit and "
                   "broadcast are not one critical section" % b.def_, reason="no-common-critical-section")
        return
    lc, gl, acq, path, tys, res = best
    for name, c, (ok, why) in res:
        run.ob("%s|append-section|%s" % (b.def_, name), ok, c.sp,
               "guard of self.%s (%s, taken at %s) is held at the %s site on every path%s" % (path[1], tys.split("<")[1].split("::")[-1] if "<" in tys else tys, lc.sp, name, "" if ok else ": " + why),
               reason="site-outside-critical-section")
    # the field write frame.id = <new id> must also be inside
    b.defs()
    for (bi, si, lhs, rv, sp) in b.field_writes:
        pe = b.place_expr(lhs)
        pp = place_path(pe)
        if pp and pp[-1] == "id" and "ref" not in rv:
            ok, why = q.held_at(b, acq, gl, bi)
            run.ob("%s|append-section|write(frame.id)" % b.def_, ok, sp, "frame.id is written under the append guard%s" % ("" if ok else ": " + why),
                   reason="site-outside-critical-section")


def r2(run):
    facts = run.facts
    sends = publisher_body(run)
    for c in sends:
        run.ob("%s|broadcast-send" % c.body.def_, c.body.def_ in C.publisher_names(facts), c.sp,
               "broadcast send only from Store::append (or a sibling Store method that is held to the same obligations)")
    wrappers = C.insert_wrappers(facts)
    callers = C.callers_of(facts, C.INSERT_FRAME)
    for w in wrappers:
        callers += C.callers_of(facts, w)        # a forwarding wrapper is insert_frame under another name: its callers are audited
    spliced_writers = [b0 for b0 in facts.all_bodies() if b0.def_ != C.INSERT_FRAME and q.live_calls(b0, C.BATCH_INSERT)]
    run.floor("Store::insert_frame call sites", len(callers) + len(spliced_writers), 2)
    allowed = {C.APPEND: "the append critical section", "xs::api::handle_import": "import: the property excepts imports"}
    for w in wrappers:
        allowed[w] = "forwards its own &Frame parameter to insert_frame (its callers are audited instead)"
    for pn in C.publisher_names(facts):
        allowed.setdefault(pn, "sibling publisher: the append critical section, verified like Store::append")
    for (b, c) in callers:
        fn = facts.enclosing_fn(b)
        run.ob("%s|call:Store::insert_frame" % fn, fn in allowed, c.sp,
               "Store::insert_frame called from %s (%s)" % (fn, allowed.get(fn, "NOT an audited writer")), reason="unaudited-writer")
    # nobody else writes Frame.id
    n = 0
    for b in facts.all_bodies():
        b.defs()
        for (bi, si, lhs, rv, sp) in b.field_writes:
            if bi not in b.live_blocks():
                continue
            proj = lhs["p"]
            last = proj[-1] if proj else None
            if isinstance(last, dict) and last.get("n") == "id" and last.get("adt") == C.FRAME:
                n += 1
                fn = facts.enclosing_fn(b)
                val = q.peel(b.rvalue_expr(rv))
                ok = fn in C.publisher_names(facts) and val[0] == "call" and val[1].fn == C.SCRU_NEW
                run.ob("%s|write(Frame.id)" % fn, ok, sp, "Frame.id written in %s from %s" % (fn, fmt(val)), reason="id-assigned-elsewhere")
    run.floor("direct writes to Frame.id", n, 1)
    # direct partition mutators: none outside batches (shared with C04)
    direct = [c for c in facts.all_calls() if c.fn.startswith("fjall::partition::PartitionHandle::") and c.fn.split("::")[-1] in
              ("insert", "remove", "remove_weak", "ingest")]
    run.ob("crate|direct-partition-mutators", not direct, direct[0].sp if direct else "<crate>",
           "no direct PartitionHandle::insert/remove outside a Batch (%d found)" % len(direct))


RULES = [
    ("R-C02-1", "one lock shared by all Store clones is held from id assignment through commit to broadcast on every path of Store::append", r1),
    ("R-C02-2", "nobody else publishes on the broadcast channel, inserts frames, or assigns frame ids", r2),
    ("R-C02-3", "resume protocol: a bound built from last-id is Excluded (shared with R-C01-1)", rule_range_bounds),
]
