"""C10 - content store (placeholder for shared rule; full rules added below)."""
from xsvlib.facts import fmt, strip
from xsvlib import q
from . import common as C

NOT_APPLICABLE = None


def rule_hash_provenance(run):
    run.ob("pending", True, "<crate>", "hash provenance rule pending")


RULES = [("R-C10-1", "hash provenance", rule_hash_provenance)]
