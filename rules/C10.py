"""C10 - content store: byte-exact, content-addressed, present before its frame."""
from xsvlib.facts import fmt, strip, place_path, walk
from xsvlib import q
from . import common as C

EXPLANATION = ("Value provenance of every hash that can be put on a frame: it must be the return value of a finished cacache commit "
               "(directly, through Store::cas_insert*, or through the shared pipeline-to-CAS helper) or None, so content precedes the frame by "
               "data dependence on every path and schedule; no body => no hash; every cacache call uses the one CAS directory.")
NOT_DECIDED = ["byte-exact read-back and hash determinism across entry points and restarts (cacache / ssri)",
               "equal renderings of equal values on different entry points", "availability of content after a crash"]

COMMITS = ("cacache::put::Writer::commit", "cacache::put::SyncWriter::commit", "cacache::put::write_hash", "cacache::put::write_hash_sync")


def producer_bodies(run, fn):
    """The body that computes the value a call to `fn` yields: the fn itself, or for an async fn its coroutine body."""
    fb = run.facts.body(fn)
    if fb is None:
        return []
    rets = fb.return_defs()
    if len(rets) == 1 and strip(rets[0][1])[0] == "agg" and strip(rets[0][1])[1].get("agg") == "coroutine":
        inner = run.facts.body(strip(rets[0][1])[1]["def"])
        return [inner] if inner is not None else []
    return [fb]


def classify_hash_origin(run, o, depth=0):
    """'commit' | 'none' | 'param' | 'bad:<why>' for one origin expression of a hash value."""
    o = q.peel(o)
    if o[0] == "agg" and o[1].get("variant") == "None":
        return ["none"]
    if o[0] == "call" and o[1].fn in COMMITS:
        return ["commit:" + o[1].fn.split("::")[-2] + "::" + o[1].fn.split("::")[-1]]
    if o[0] == "call" and o[1].local and depth < 4:
        # crate-local producer: summarise its return origins
        out = []
        cands = producer_bodies(run, o[1].fn)
        found = False
        for cb in cands:
            for (bb, e, raw) in cb.return_defs():
                x = strip(e)
                if x[0] == "call" and x[1].fn == "core::ops::try_trait::FromResidual::from_residual":
                    continue
                if x[0] == "agg" and x[1].get("variant") == "Err":
                    continue
                found = True
                run.touch(cb)
                for oo in q.origins(e):
                    out += classify_hash_origin(run, oo, depth + 1)
        if not found:
            return ["bad:local fn %s has no interpretable return" % o[1].fn]
        return [("via:%s:" % o[1].fn.split("::")[-1]) + x if not x.startswith("bad") else x for x in out]
    if o[0] == "arg":
        return ["param:%s" % (o[2] or o[1])]
    if o[0] == "call" and o[1].fn.startswith("core::ops::try_trait::FromResidual"):
        return []
    return ["bad:" + fmt(o)[:90]]


def hash_setter_sites(run):
    out = []
    for b in run.facts.all_bodies():
        if b.def_.startswith("xs::store::FrameBuilder"):
            continue
        for c in b.calls():
            if c.bb in b.live_blocks() and "FrameBuilder" in c.fn and c.fn.split("::")[-1] in ("hash", "maybe_hash"):
                out.append((b, c))
    return out


def rule_hash_provenance(run):
    sites = hash_setter_sites(run)
    run.floor("FrameBuilder::hash / maybe_hash call sites", len(sites), 4)
    for (b, c) in sites:
        fn = run.facts.enclosing_fn(b)
        run.touch(b)
        labels = []
        for o in q.origins(c.arg(1)):
            labels += classify_hash_origin(run, o)
        bad = [l for l in labels if "bad:" in l or l.startswith("param")]
        has_commit = any("commit:" in l for l in labels)
        run.ob("%s|hash-provenance" % fn, not bad and (has_commit or set(labels) == {"none"}), c.sp,
               "the hash put on the frame in %s originates only from a finished CAS commit or None: %s" % (fn, sorted(set(labels))), reason="hash-without-content")
    # no direct writes to Frame.hash, no Frame struct literals outside the builder / derives
    n = 0
    for b in run.facts.all_bodies():
        b.defs()
        for (bi, si, lhs, rv, sp) in b.field_writes:
            last = lhs["p"][-1] if lhs["p"] else None
            if isinstance(last, dict) and last.get("n") == "hash" and last.get("adt") == C.FRAME and bi in b.live_blocks():
                n += 1
                # a direct write is judged like a builder setter: the value must come from a finished CAS commit (or be None)
                labels = []
                for o in q.origins(b.rvalue_expr(rv)):
                    labels += classify_hash_origin(run, o)
                bad = [l for l in labels if "bad:" in l or l.startswith("param")]
                okw = bool(labels) and not bad and (any("commit:" in l for l in labels) or set(labels) == {"none"})
                run.ob("%s|write(Frame.hash)" % run.facts.enclosing_fn(b), okw, sp,
                       "Frame.hash written directly: the value originates only from a finished CAS commit or None: %s" % sorted(set(labels)), reason="hash-without-content")
    derived = set()
    for cr in run.facts.crates:
        for im in cr.impls:
            if im["derived"]:
                derived |= set(im["items"])
    lits = []
    for b in run.facts.all_bodies():
        for bi, si, st in b.stmt_points():
            if st["k"] == "assign" and "agg" in st["rv"] and st["rv"].get("adt") == C.FRAME and bi in b.live_blocks():
                encl = run.facts.enclosing_fn(b)
                ok = b.def_.startswith("xs::store::FrameBuilder") or any(b.def_.startswith(d.rsplit("::", 1)[0]) for d in derived) or "_::" in b.def_ or "<impl" in b.def_
                lits.append((b.def_, st["sp"], ok))
    bad = [x for x in lits if not x[2]]
    run.ob("crate|Frame-literals", not bad, bad[0][1] if bad else "<crate>", "Frame values are only built by the bon builder or the serde derive (%d sites; others: %s)" % (len(lits), [x[0] for x in bad]),
           reason="hash-without-content")
    # the Store::cas_insert* helpers really are cacache writes
    for h in ("xs::store::Store::cas_insert", "xs::store::Store::cas_insert_sync"):
        labels = []
        cands = producer_bodies(run, h)
        for cb in cands:
            for (bb, e, raw) in cb.return_defs():
                for oo in q.origins(e):
                    labels += classify_hash_origin(run, oo)
        run.ob("%s|is-cas-write" % h, bool(labels) and all(l.startswith("commit:") for l in labels), "<store>", "%s returns the result of a cacache write: %s" % (h, sorted(set(labels))),
               reason="hash-without-content")


def positive_counter_edges(b):
    """(edges on which `<counter> > 0` is known, counter local) for comparisons of a local counter with a constant."""
    edges, counter = [], None
    for bb, si in b.switches():
        if si["kind"] != "bool":
            continue
        cmp_ = q.comparison(si["cond"])
        if not cmp_:
            continue
        rel, l, r = cmp_
        k = q.const_int(r)
        if k is None and q.const_int(l) is not None:
            rel, l, r, k = q.SWAP[rel], r, l, q.const_int(l)
        if k is None or l[0] not in ("phi", "local"):
            continue
        for truth in (True, False):
            rr = q.rel_on_edge(rel, truth)
            if (rr == "gt" and k == 0) or (rr == "ge" and k == 1) or (rr == "ne" and k == 0):
                edges += q.edge_triples(b, bb, lambda m, t=truth: m is t)
                counter = l[1]
    return edges, counter


def lazily_opened_writer(hb, commits):
    """`let mut writer: Option<Writer> = None; .. if data.is_empty() { continue } .. writer.insert(store.cas_writer().await?) ..
    match writer { Some(w) => Some(w.commit()), None => None }`: no bytes, no writer, no commit, no hash.  Returns a description
    when (1) every writer is opened behind the 'chunk is not empty' edge of a test on the data and (2) every commit lies behind the
    Some edge of a test on an `Option<Writer>` local; else None."""
    opens = [c for c in hb.calls() if c.bb in hb.live_blocks() and c.fn in ("xs::store::Store::cas_writer", "xs::store::Store::cas_writer_sync")]
    if not opens or not commits:
        return None
    nonempty = []
    for bb, si in hb.switches():
        if si["kind"] != "bool":
            continue
        cnd = strip(si["cond"])
        if cnd[0] == "call" and cnd[1].fn.endswith("::is_empty") and any(y[0] == "call" and y[1].fn.endswith("::into_data") for y in walk(cnd)):
            nonempty += q.edge_triples(hb, bb, lambda m: m is False)
        else:
            cm = q.comparison(si["cond"])
            if cm and any(y[0] == "call" and y[1].fn.endswith("::len") for x in (cm[1], cm[2]) for y in walk(x)) and q.const_int(cm[2]) == 0 and cm[0] in ("gt", "ne", "eq", "le"):
                nonempty += q.edge_triples(hb, bb, lambda m, rel=cm[0]: isinstance(m, bool) and q.rel_on_edge(rel, m) in ("gt", "ne"))
    if not nonempty or not all(q.dominated(hb, c.bb, via_edges=nonempty) for c in opens):
        return None
    some = []
    for bb, si in hb.switches():
        if si["kind"] == "variant" and "Some" in [m for (t, lab, m) in si["edges"] if isinstance(m, str)]:
            rl = None
            t = hb.blocks[bb]["term"]
            # the switched-on place: a local of type Option<cacache::Writer>
            for y in walk(si["cond"]):
                pass
            d = hb._single_def_rv((t["d"].get("move") or t["d"].get("copy"))["l"]) if (t["d"].get("move") or t["d"].get("copy")) else None
            if d and "discr" in d and "cacache::put::Writer" in hb.local_tystr(d["discr"]["l"]) and hb.local_tystr(d["discr"]["l"]).startswith("core::option::Option<"):
                some += q.edge_triples(hb, bb, lambda m: m == "Some")
    if not some or not all(q.dominated(hb, c.bb, via_edges=some) for c in commits):
        return None
    return "%d open site(s) behind a non-empty test, %d commit(s) behind `Some(writer)`" % (len(opens), len(commits))


def r2(run):
    # every place in the HTTP layer that commits a CAS writer (directly in a handler or in a shared body-to-CAS helper)
    bodies = []
    for b in run.facts.all_bodies():
        if b.def_.startswith("xs::api::") and b.is_coroutine and q.live_calls(b, "cacache::put::Writer::commit"):
            bodies.append(b)
    run.floor("HTTP-layer bodies committing a CAS writer", len(bodies), 1)
    for hb in bodies:
        run.touch(hb)
        fn = run.facts.enclosing_fn(hb)
        commits = q.live_calls(hb, "cacache::put::Writer::commit")
        edges, counter = positive_counter_edges(hb)
        lazy = lazily_opened_writer(hb, commits) if not (edges and all(q.dominated(hb, c.bb, via_edges=edges) for c in commits)) else None
        if lazy:
            for c in commits:
                run.ob("%s|hash-only-with-body" % fn, True, c.sp,
                       "the CAS writer is opened only for a non-empty chunk and committed only if it was opened (%s) in %s" % (lazy, fn), reason="empty-body-gets-hash")
            continue
        for c in commits:
            run.ob("%s|hash-only-with-body" % fn, bool(edges) and q.dominated(hb, c.bb, via_edges=edges), c.sp,
                   "the CAS writer is committed (and a hash produced) only on a `bytes_written > 0` edge in %s" % fn, reason="empty-body-gets-hash")
        if counter is not None:
            incs = []
            for bi, si, st in hb.stmt_points():
                if st["k"] == "assign" and st["lhs"]["l"] == counter and not st["lhs"]["p"] and bi in hb.live_blocks():
                    e = hb.rvalue_expr(st["rv"])
                    if any(x[0] == "bin" and x[1].startswith("Add") for x in walk(e)):
                        incs.append((bi, e, st["sp"]))
            ok = len(incs) == 1 and any(x[0] == "call" and x[1].fn.endswith("::len") for x in walk(incs[0][1]))
            run.ob("%s|counter-is-bytes-written" % fn, ok, incs[0][2] if incs else hb.sp, "the counter is the sum of the chunk lengths written", reason="empty-body-gets-hash")
            writes = [c for c in hb.calls() if c.fn.endswith(("write_all", "AsyncWriteExt::write", "io::Write::write")) and c.bb in hb.live_blocks()]
            if not writes:
                # the chunk may be handed to a crate-local helper that drives the writer (`cas_write_chunk(&mut writer, &data)`)
                for c in hb.calls():
                    if c.bb in hb.live_blocks() and c.local and any("cacache::put::" in hb.types.s(hb.local_ty(l)) for l in [q.root_local(hb, a) for a in c.args] if l is not None):
                        pbs = producer_bodies(run, c.fn)
                        if any(cc.fn.endswith(("write_all", "AsyncWriteExt::write", "io::Write::write")) for pb in pbs for cc in pb.calls()):
                            writes.append(c)
            run.ob("%s|every-chunk-written" % fn, len(writes) >= 1 and all(any(q.reaches(hb, w.bb, i[0]) for i in incs) for w in writes), hb.sp,
                   "each body chunk is written to the CAS writer and then counted", reason="content-not-written")
    # POST /cas answers 400 for an empty body (no hash is reported for nothing)
    for b in run.facts.bodies_under("xs::api::handle_cas_post"):
        if b.is_coroutine and b.def_ == "xs::api::handle_cas_post::{closure#0}":
            run.touch(b)
            r400 = q.live_calls(b, "xs::api::response_400")
            commits = q.live_calls(b, "cacache::put::Writer::commit")
            run.ob("xs::api::handle_cas_post|empty-rejected", len(r400) >= 1 and not any(q.reaches(b, r.bb, c.bb) for r in r400 for c in commits), b.sp,
                   "POST /cas answers 400 for an empty body without committing", reason="empty-body-gets-hash")


def r3(run):
    n = 0
    for c in run.facts.all_calls():
        if c.bb not in c.body.live_blocks() or not c.fn.startswith("cacache::"):
            continue
        if c.fn in ("cacache::put::Writer::commit", "cacache::put::SyncWriter::commit", "cacache::put::WriteOpts::new"):
            continue
        if c.fn in ("cacache::get::Reader::check", "cacache::get::SyncReader::check"):
            continue      # a method of a reader that was opened on a directory already: it takes none
        n += 1
        strs = []
        for a in c.arg_exprs():
            strs += q.const_strs(a)
        fn = run.facts.enclosing_fn(c.body)
        run.touch(c.body)
        run.ob("%s|cas-dir|%s" % (fn, c.fn.split("::")[-1]), "cacache" in strs, c.sp, "%s is given <store path>/\"cacache\" (%s)" % (c.fn, strs), reason="different-cas-directory")
    run.floor("cacache calls taking a directory", n, 8)


def copy_loops(run):
    """[(body, read_call)] for every `Read::read` / `AsyncReadExt::read` call that sits on a CFG cycle (a copy loop)."""
    out = []
    for b in run.facts.all_bodies():
        if "::tests::" in b.def_:
            continue
        for c in b.calls():
            if c.bb in b.live_blocks() and c.fn in ("std::io::Read::read", "tokio::io::util::async_read_ext::AsyncReadExt::read") and q.reaches(b, c.bb, c.bb):
                # a loop that only reads (hash verification of stored content) copies nothing: the obligations are about loops
                # whose bytes end up in a CAS writer
                writes_somewhere = any(cc.bb in b.live_blocks() and (cc.fn.endswith(("write_all", "AsyncWriteExt::write", "io::Write::write")) or cc.fn in COMMITS or
                                                                        (cc.local and any("cacache::put::" in b.local_tystr(l) for l in [q.root_local(b, a) for a in cc.args] if l is not None)))
                                       for cc in b.calls())
                if writes_somewhere:
                    out.append((b, c))
    return out


def r4(run):
    loops = copy_loops(run)
    run.floor("read/write copy loops feeding the CAS", len(loops), 1)
    for (b, rd) in loops:
        run.touch(b)
        fn = run.facts.enclosing_fn(b)
        cyc = {x for x in b.live_blocks() if (x == rd.bb or q.reaches(b, rd.bb, x)) and q.reaches(b, x, rd.bb)}
        # comparisons of the byte count returned by this read with 0
        eof_edges = []
        for bb, si in b.switches():
            if si["kind"] != "bool":
                continue
            cmp_ = q.comparison(si["cond"])
            if not cmp_:
                continue
            rel, l, r = cmp_
            k = q.const_int(r)
            if k is None and q.const_int(l) is not None:
                rel, l, r, k = q.SWAP[rel], r, l, q.const_int(l)
            if k is None:
                continue
            if not any(y[0] == "call" and q.same_call(y[1], rd) for y in walk(l)):
                continue
            for truth in (True, False):
                rr = q.rel_on_edge(rel, truth)
                if (rr == "eq" and k == 0) or (rr == "lt" and k == 1) or (rr == "le" and k == 0):
                    eof_edges += q.edge_triples(b, bb, lambda m, t=truth: m is t)
        # exits of the cycle on normal (non-error) paths
        exits = []
        for x in cyc:
            for (t, lab) in b.succ(x):
                if t in cyc:
                    continue
                # only exits from which the CAS commit is reachable matter (error exits and dead ends are ignored)
                reach = b.reachable_blocks([t])
                if any(cc.bb in reach for cc in b.calls() if cc.fn in COMMITS):
                    exits.append((x, t, lab))
        bad = [e for e in exits if e not in eof_edges]
        run.ob("%s|copy-loop|ends-only-at-eof" % fn, bool(eof_edges) and bool(exits) and not bad, rd.sp,
               "the copy loop around %s is left (towards the CAS commit) only on the `bytes_read == 0` edge: a short read is not end of stream (%d exit edge(s), %d not EOF-guarded)" % (
                   rd.fn.split("::")[-1], len(exits), len(bad)), reason="content-truncated")
        # what is written is exactly buffer[..bytes_read]
        ws = [c for c in b.calls() if c.bb in cyc and c.fn.endswith("write_all")]
        okw = bool(ws)
        for w in ws:
            data = w.arg(1)
            sl = [y for y in walk(data) if y[0] == "agg" and y[1].get("adt", "").endswith("RangeTo") and y[2] and any(z[0] == "call" and q.same_call(z[1], rd) for z in walk(y[2][0]))]
            if not sl:
                okw = False
        run.ob("%s|copy-loop|writes-what-was-read" % fn, okw, rd.sp, "every iteration writes exactly buffer[..bytes_read] (%d write site(s))" % len(ws), reason="content-truncated")


def r5(run):
    """A write into a CAS writer that fails is never followed by the commit of that writer: a frame must not reference content
    that was only partly written."""
    n = 0
    for b in run.facts.all_bodies():
        commits = [c for c in b.calls() if c.bb in b.live_blocks() and c.fn in COMMITS and c.fn.endswith("::commit")]
        if not commits:
            continue
        writes = [c for c in b.calls() if c.bb in b.live_blocks() and c.fn.endswith(("::write_all", "::write")) and ("AsyncWriteExt" in c.fn or "io::Write" in c.fn)
                  and any("cacache::put::" in b.types.s(b.local_ty(l)) for l in [q.root_local(b, c.args[0])] if l is not None)]
        for w in writes:
            n += 1
            run.touch(b)
            err = q.call_result_edges(b, w, ok=False)
            ok = q.call_result_edges(b, w, ok=True)
            reach = b.reachable_blocks([t for (_, t, _) in err]) if err else set()
            bad = [c.sp for c in commits if c.bb in reach]
            run.ob("%s|cas-write|error-stops-commit" % run.facts.enclosing_fn(b), bool(err) and bool(ok) and not bad, w.sp,
                   "the result of writing into the CAS writer is examined and its error edge never reaches commit (%d error edge(s)%s)" % (
                       len(err), ", commit reachable at %s" % bad if bad else ""), reason="partial-content-committed")
    run.floor("writes into a CAS writer that is committed in the same body", n, 3)


RULES = [
    ("R-C10-1", "a frame's hash originates only from a finished CAS commit (directly or through audited helpers) or None", rule_hash_provenance),
    ("R-C10-2", "HTTP append: a hash is produced only when bytes were written; POST /cas rejects empty bodies", r2),
    ("R-C10-3", "every cacache call uses the one CAS directory <store>/cacache", r3),
    ("R-C10-4", "stream-to-CAS copy loops end only at EOF (read == 0) and write exactly the bytes read", r4),
    ("R-C10-5", "a failed write into a CAS writer is never followed by its commit (no hash for partly written content)", r5),
]
