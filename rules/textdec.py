"""Decision tables of hand-written text decoders (C12).

A decoder such as `impl Deserialize for FollowOption`, `deserialize_bool` or `parse_ttl` is a pure function of one input string
that only *compares* that string with literals, tests prefixes, or hands it to `str::parse::<int>`.  For one class of input
(a literal the writer emits, a documented spelling, "a decimal number", "none of these") the function's outcome is therefore
determined by its control flow alone.  This module computes that outcome from the MIR facts: it walks the CFG, decides every switch
whose condition it can evaluate on the class representative, follows both edges otherwise, looks through crate-local helper
functions and the closures handed to Option / Result combinators, and returns the set of values the function can return.
Nothing of xs is executed: this is table extraction over the resolved program, and an undecidable test widens the result set
(which the rule then reports instead of guessing)."""
from xsvlib.facts import strip, walk, fmt

UNK = ("unk",)
PASS = ("::as_str", "::deref", "::as_ref", "::borrow", "::to_string", "::to_owned", "Clone::clone", "::into", "::as_bytes", "String::from", "::trim",
        "hint::must_use", "::as_deref")
INT_TYPES = ("u8", "u16", "u32", "u64", "u128", "usize", "i8", "i16", "i32", "i64", "i128", "isize")
MAXV = {"u8": 2**8 - 1, "u16": 2**16 - 1, "u32": 2**32 - 1, "u64": 2**64 - 1, "usize": 2**64 - 1, "u128": 2**128 - 1}


def opt(v):
    return ("adt", "Option", "None", ()) if v is None else ("adt", "Option", "Some", (v,))


def res(ok, v):
    return ("adt", "Result", "Ok" if ok else "Err", (v,))


class TextDecoder:
    def __init__(self, facts, text):
        self.facts = facts
        self.text = text
        self.unknown = []

    # ------------------------------------------------------------ expressions
    def ev(self, body, e, args, depth=0):
        if depth > 40:
            return UNK
        e = e if isinstance(e, tuple) else UNK
        tag = e[0]
        if tag == "const":
            c = e[1]
            if "bool" in c:
                return ("bool", bool(c["bool"]))
            if "str" in c:
                return ("str", c["str"])
            if "int" in c:
                try:
                    return ("int", int(c["int"]))
                except ValueError:
                    return UNK
            if c.get("zst"):
                return ("unit",)
            return UNK
        if tag == "arg":
            i = e[1]
            return args[i - 1] if args and 1 <= i <= len(args) else UNK
        if tag in ("ref", "deref", "downcast"):
            return self.ev(body, e[1], args, depth + 1)
        if tag == "cast":
            return self.ev(body, e[1], args, depth + 1)
        if tag == "field":
            base = e[1]
            if isinstance(base, tuple) and base[0] == "downcast":
                v = self.ev(body, base[1], args, depth + 1)
                if v[0] == "adt" and v[2] == base[2] and str(e[2]).isdigit() and int(e[2]) < len(v[3]):
                    return v[3][int(e[2])]
                return UNK
            v = self.ev(body, base, args, depth + 1)
            if v[0] == "tuple" and str(e[2]).isdigit() and int(e[2]) < len(v[1]):
                return v[1][int(e[2])]
            return UNK
        if tag == "agg":
            info = e[1]
            ops = tuple(self.ev(body, o, args, depth + 1) for o in e[2])
            if info.get("agg") == "adt":
                name = info.get("adt", "").split("::")[-1]
                return ("adt", name, info.get("variant"), ops)
            if info.get("agg") == "tuple":
                return ("tuple", ops)
            if info.get("agg") == "closure":
                return ("closure", info.get("def"))
            return UNK
        if tag == "un" and e[1] == "Not":
            v = self.ev(body, e[2], args, depth + 1)
            return ("bool", not v[1]) if v[0] == "bool" else UNK
        if tag == "bin":
            a, b = self.ev(body, e[2], args, depth + 1), self.ev(body, e[3], args, depth + 1)
            if a[0] == b[0] and a[0] in ("int", "bool", "str"):
                op = e[1]
                table = {"Eq": a[1] == b[1], "Ne": a[1] != b[1]}
                if a[0] == "int":
                    table.update({"Lt": a[1] < b[1], "Le": a[1] <= b[1], "Gt": a[1] > b[1], "Ge": a[1] >= b[1]})
                if op in table:
                    return ("bool", table[op])
            return UNK
        if tag == "phi":
            env = getattr(self, "_env", {}).get(id(body))
            if env is not None and e[1] in env:
                return env[e[1]]
            vals = {self.ev(body, a, args, depth + 1) for a in e[3]} if len(e) > 3 else set()
            return vals.pop() if len(vals) == 1 else UNK
        if tag == "call":
            return self.call(body, e, args, depth)
        return UNK

    def apply_closure(self, clo, payload, depth):
        if clo[0] != "closure" or not clo[1]:
            return UNK
        cb = self.facts.body(clo[1])
        if cb is None:
            return UNK
        vals = self.run(cb, [UNK, payload], depth + 1)
        return next(iter(vals)) if len(vals) == 1 else UNK

    def call(self, body, e, args, depth):
        cs = e[1]
        fn, fnx = cs.fn, cs.fnx
        av = [self.ev(body, a, args, depth + 1) for a in e[2]]
        a0 = av[0] if av else UNK
        a1 = av[1] if len(av) > 1 else UNK
        if fn == "serde::de::Deserialize::deserialize" and "alloc::string::String" in fnx:
            return res(True, ("str", self.text))
        if fn.endswith("Try::branch"):
            if a0[0] == "adt" and a0[2] in ("Ok", "Some"):
                return ("adt", "ControlFlow", "Continue", a0[3])
            if a0[0] == "adt" and a0[2] in ("Err", "None"):
                return ("adt", "ControlFlow", "Break", (a0,))
            return UNK
        if fn.endswith("FromResidual::from_residual"):
            return res(False, UNK)
        if fn.endswith("serde::de::Error::custom") or fn.endswith("::custom"):
            return ("adt", "Error", "custom", ())
        if fn.endswith("::is_empty") and a0[0] == "str":
            return ("bool", a0[1] == "")
        if "PartialEq" in fn and fn.endswith(("::eq", "::ne")) and a0[0] == a1[0] and a0[0] in ("str", "bool", "int"):
            return ("bool", (a0[1] == a1[1]) == fn.endswith("::eq"))
        if fn == "core::str::<impl str>::parse" and a0[0] == "str":
            ty = fnx.split("parse::<")[1].rstrip(">") if "parse::<" in fnx else "?"
            if ty == "?" and cs.ga:
                ty = str(cs.ga[0])
            s = a0[1]
            if ty in INT_TYPES:
                ok = s.isdigit() if ty.startswith("u") else (s.lstrip("+-").isdigit() and len(s.lstrip("+-")) >= len(s) - 1)
                if ok and ty in MAXV and int(s) > MAXV[ty]:
                    ok = False
                return res(True, ("int", int(s))) if ok else res(False, UNK)
            return UNK
        if fn.endswith("<impl str>::starts_with") and a0[0] == "str" and a1[0] == "str":
            return ("bool", a0[1].startswith(a1[1]))
        if fn.endswith("<impl str>::ends_with") and a0[0] == "str" and a1[0] == "str":
            return ("bool", a0[1].endswith(a1[1]))
        if fn.endswith("<impl str>::strip_prefix") and a0[0] == "str" and a1[0] == "str":
            return opt(("str", a0[1][len(a1[1]):]) if a0[1].startswith(a1[1]) else None)
        if fn.endswith("<impl str>::strip_suffix") and a0[0] == "str" and a1[0] == "str":
            return opt(("str", a0[1][:len(a0[1]) - len(a1[1])]) if a0[1].endswith(a1[1]) else None)
        if fn.endswith(("Option::<T>::unwrap_or", "Result::<T, E>::unwrap_or")) and a0[0] == "adt":
            return a0[3][0] if a0[2] in ("Some", "Ok") else a1
        if fn.endswith(("::is_some", "::is_ok")) and a0[0] == "adt":
            return ("bool", a0[2] in ("Some", "Ok"))
        if fn.endswith(("::is_none", "::is_err")) and a0[0] == "adt":
            return ("bool", a0[2] in ("None", "Err"))
        if fn.endswith(("Option::<T>::map", "Result::<T, E>::map")) and a0[0] == "adt":
            if a0[2] in ("Some", "Ok"):
                return ("adt", a0[1], a0[2], (self.apply_closure(a1, a0[3][0], depth),))
            return a0
        if fn.endswith("Result::<T, E>::map_err") and a0[0] == "adt":
            return a0 if a0[2] == "Ok" else ("adt", a0[1], "Err", (UNK,))
        if fn.endswith(("Option::<T>::ok_or", "Option::<T>::ok_or_else")) and a0[0] == "adt":
            return res(True, a0[3][0]) if a0[2] == "Some" else res(False, UNK)
        if fn.endswith("Result::<T, E>::ok") and a0[0] == "adt":
            return opt(a0[3][0] if a0[2] == "Ok" else None)
        if fn.endswith(("Option::<T>::and_then", "Result::<T, E>::and_then")) and a0[0] == "adt":
            return self.apply_closure(a1, a0[3][0], depth) if a0[2] in ("Some", "Ok") else a0
        if fn.endswith(("Option::<T>::or_else",)) and a0[0] == "adt":
            return a0 if a0[2] == "Some" else self.apply_closure(a1, ("unit",), depth)
        if fn.endswith(PASS) and av:
            return a0
        if fn.endswith("Duration::from_millis"):
            return ("adt", "Duration", "ms", (a0,))
        if fn.endswith("Duration::from_secs"):
            return ("adt", "Duration", "s", (a0,))
        if cs.local:
            hb = self.facts.body(fn)
            if hb is not None and not hb.is_coroutine and depth < 12:
                vals = self.run(hb, av, depth + 1)
                return next(iter(vals)) if len(vals) == 1 else UNK
        return UNK

    # ------------------------------------------------------------ control flow
    def run(self, body, args, depth=0):
        """Set of values `body` can return for the class representative.  The walk is path-sensitive: it remembers which
        definition of a multiply-defined local (`let is_false = a || b || c`, a `mut` flag) the current path executed."""
        rdefs = {}
        for (bb, e, raw) in body.return_defs():
            rdefs.setdefault(bb, []).append(e)
        multi = {l: ds for l, ds in body.defs().items() if len(ds) > 1}
        by_block = {}
        for l, ds in multi.items():
            for d in ds:
                by_block.setdefault(d[1], []).append((l, d))
        out = set()
        if not hasattr(self, "_env"):
            self._env = {}
        seen = set()
        todo = [(0, ())]
        steps = 0
        while todo and steps < 4000:
            steps += 1
            x, envt = todo.pop()
            key = (x, envt)
            if key in seen:
                continue
            seen.add(key)
            env = dict(envt)
            self._env[id(body)] = env
            for (l, d) in by_block.get(x, []):
                env[l] = self.ev(body, body._def_expr(d, frozenset({l}), 1), args, depth + 1)
            self._env[id(body)] = env
            if x in rdefs:
                for e in rdefs[x]:
                    out.add(self.ev(body, e, args, depth))
            envt2 = tuple(sorted(env.items(), key=lambda kv: kv[0]))
            t = body.blocks[x]["term"]
            si = body.switch_info(x) if t["k"] == "switch" else None
            if si is None:
                for (nx, lab) in body.succ(x):
                    todo.append((nx, envt2))
                continue
            v = self.ev(body, si["cond"], args, depth)
            took = False
            if si["kind"] == "bool" and v[0] == "bool":
                for (nx, lab, m) in si["edges"]:
                    if m is v[1]:
                        todo.append((nx, envt2))
                        took = True
            elif si["kind"] == "variant" and v[0] == "adt":
                for (nx, lab, m) in si["edges"]:
                    ms = set(m) if isinstance(m, tuple) else {m}
                    if v[2] in ms:
                        todo.append((nx, envt2))
                        took = True
            if not took:
                if v == UNK or v[0] not in ("bool", "adt"):
                    self.unknown.append(fmt(strip(si["cond"]))[:70])
                for (nx, lab, m) in si["edges"]:
                    todo.append((nx, envt2))
        self._env.pop(id(body), None)
        return out


def classify(v):
    """Short label of a decoder result: the variant of the decoded enum / the bool / 'Err' / '?'."""
    if v[0] == "adt" and v[2] == "Err":
        return "Err"
    if v[0] == "adt" and v[2] == "Ok" and v[3]:
        p = v[3][0]
        if p[0] == "adt":
            return p[2]
        if p[0] == "bool":
            return p[1]
        return "?"
    if v[0] == "adt":
        return v[2]
    if v[0] == "bool":
        return v[1]
    return "?"


def decode(facts, body, text, args=None):
    """(set of outcome labels, uninterpreted tests) of decoder `body` on the input class represented by `text`."""
    td = TextDecoder(facts, text)
    vals = td.run(body, args if args is not None else [("str", text)])
    return {classify(v) for v in vals}, td.unknown
