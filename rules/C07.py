"""C07 - a context accepts appends iff it is registered, across restarts."""
from xsvlib.facts import fmt, strip, place_path, walk
from xsvlib import q
from . import common as C

EXPLANATION = ("Dominance analysis of Store::append (membership check or registration branch dominates every effect), of the registration "
               "branch (zero context only, ttl forced to Forever), of the reload loop in Store::new, a who-may-write rule on Store.contexts, "
               "and sibling agreement: every function that stores / removes the primary record maintains the registry under the same guard.")
NOT_DECIDED = ["equality of the registry before/after reopen for arbitrary histories (fjall recovery)",
               "in-process divergence when a commit fails after the registry was written (I/O failure only)"]

CTX_TOPIC = "xs.context"
MUTATORS = ("insert", "remove", "clear", "extend", "retain", "drain", "take", "replace")


def topic_is_ctx_switches(body):
    """[(bb, true_edges, false_edges)] for switches testing `<x>.topic == "xs.context"`."""
    out = []
    for bb, si in body.switches():
        if si["kind"] != "bool":
            continue
        cmp_ = q.comparison(si["cond"])
        if not cmp_:
            continue
        rel, l, r = cmp_
        if rel not in ("eq", "ne"):
            continue
        sides = [l, r]
        if not any(CTX_TOPIC in q.const_strs(s) for s in sides):
            continue
        if not any(q.has_field(s, "topic") for s in sides):
            continue
        t_edges = q.edge_triples(body, bb, lambda m: m is (rel == "eq"))
        f_edges = q.edge_triples(body, bb, lambda m: m is (rel != "eq"))
        out.append((bb, t_edges, f_edges))
    return out


def filtered_by_ctx_topic(run, e):
    """Does the value `e` come out of an iterator that was `.filter(|f| f.topic == "xs.context")`ed?"""
    for y in walk(e):
        if y[0] == "call" and y[1].fn == "core::iter::traits::iterator::Iterator::filter" and len(y[2]) > 1:
            clo = strip(y[2][1])
            cb = run.facts.body(clo[1].get("def")) if clo[0] == "agg" and clo[1].get("def") else None
            if cb is None:
                continue
            rets = cb.return_defs()
            if len(rets) != 1:
                continue
            cm = q.comparison(rets[0][1])
            if cm and cm[0] == "eq" and any(CTX_TOPIC in q.const_strs(s2) for s2 in (cm[1], cm[2])) and any(q.has_field(s2, "topic") for s2 in (cm[1], cm[2])):
                run.touch(cb)
                return True
    return False


def zero_ctx_switches(body):
    """[(bb, is_zero_edges, non_zero_edges)] for comparisons of a context_id with ZERO_CONTEXT."""
    out = []
    for bb, si in body.switches():
        if si["kind"] != "bool":
            continue
        cmp_ = q.comparison(si["cond"])
        true_only = False
        if not cmp_:
            cmp_ = q.comparison_true_only(si["cond"])    # `let is_reg = topic == .. && ctx == ZERO; if is_reg {..}`
            true_only = True
        if not cmp_:
            continue
        rel, l, r = cmp_
        if rel not in ("eq", "ne"):
            continue
        if not any(q.is_const_named(s, "ZERO_CONTEXT") for s in (l, r)):
            continue
        if not any(q.has_field(s, "context_id") for s in (l, r)):
            continue
        if true_only and rel != "eq":
            continue
        z = q.edge_triples(body, bb, lambda m: m is ((rel == "eq") if not true_only else True))
        nz = [] if true_only else q.edge_triples(body, bb, lambda m: m is (rel != "eq"))
        out.append((bb, z, nz))
    return out


def registry_calls(body):
    """HashSet method calls whose receiver goes through the `contexts` field."""
    out = []
    for c in q.live_calls(body, prefix=C.SET_PREFIXES):
        recv = c.arg(0)
        if q.has_field(recv, "contexts"):
            out.append(c)
    return out


def r1(run):
    for b in C.publishers(run.facts):
        run.touch(b)
        r1_for(run, b, b.def_)


def r1_for(run, b, AP):
    cut = C.iteration_cut(b)
    member = []
    for bb, si in b.switches():
        cond = si["cond"]
        if si["kind"] == "bool" and cond[0] == "call" and cond[1].fn in C.SET_CONTAINS and q.has_field(cond[2][0], "contexts") \
                and q.has_field(cond[2][1], "context_id"):
            member += q.edge_triples(b, bb, lambda m: m is True)
    run.ob("%s|membership-test" % AP, bool(member), b.sp, "append tests contexts.contains(&frame.context_id)", reason="mechanism-not-found")
    reg = []
    for (bb, t, f) in topic_is_ctx_switches(b):
        reg += t
    run.ob("%s|registration-branch" % AP, bool(reg), b.sp, "append has a topic == \"xs.context\" branch", reason="mechanism-not-found")
    via = member + reg
    effects = []
    for c in registry_calls(b):
        if c.fn.split("::")[-1] in MUTATORS:
            effects.append(("registry-" + c.fn.split("::")[-1], c.bb, c.sp))
    for c in q.live_calls(b, C.INSERT_FRAME):
        effects.append(("insert_frame", c.bb, c.sp))
    for c in q.live_calls(b, C.BROADCAST_SEND):
        effects.append(("broadcast", c.bb, c.sp))
    for c in q.live_calls(b, C.UNBOUNDED_SEND):
        effects.append(("gc-request", c.bb, c.sp))
    for (bb, e, raw) in b.return_defs():
        x = strip(e)
        if x[0] == "agg" and x[1].get("variant") == "Ok":
            effects.append(("return-Ok", bb, b.blocks[bb]["term"]["sp"]))
    run.floor("effects of append guarded by the context check", len(effects), 4, b.sp)
    for name, bb, sp in effects:
        run.ob("%s|context-check-dominates|%s" % (AP, name), bool(via) and q.dominated(b, bb, via_edges=via), sp,
               "%s is reachable only through `contexts.contains(frame.context_id)` or the xs.context branch" % name, reason="unregistered-context-accepted")
    # the non-member edge reaches only Err returns
    non_member = []
    for bb, si in b.switches():
        cond = si["cond"]
        if si["kind"] == "bool" and cond[0] == "call" and cond[1].fn in C.SET_CONTAINS and q.has_field(cond[2][0], "contexts"):
            non_member += q.edge_triples(b, bb, lambda m: m is False)
    reach = b.reachable_blocks([t for (_, t, _) in non_member], removed_blocks=cut) if non_member else set()
    leak = [n for (n, bb, sp) in effects if bb in reach]
    run.ob("%s|non-member-rejected" % AP, bool(non_member) and not leak, b.sp, "from the not-registered edge no effect and no Ok return is reachable (%s)" % leak,
           reason="unregistered-context-accepted")


def r2(run):
    for b in C.publishers(run.facts):
        run.touch(b)
        r2_for(run, b, b.def_)


def r2_for(run, b, AP):
    cut = C.iteration_cut(b)
    regs = topic_is_ctx_switches(b)
    if not regs:
        run.missing("%s|registration-branch" % AP, "no topic == \"xs.context\" branch in append", b.sp)
        return
    bb0, t_edges, f_edges = regs[0]
    t_targets = [t for (_, t, _) in t_edges]
    in_branch = b.reachable_blocks(t_targets, removed_blocks=cut)
    # non-zero context => Err before any effect
    from .store_shared import store_points
    after_store = set()
    for (c0, es) in store_points(b):
        after_store |= b.reachable_blocks([c0.bb], removed_blocks=cut)
    # the admission test comes before anything is stored (a spliced writer has its own, later, zero-context test for the registry)
    # (it may sit behind a `topic == "xs.context"` test of its own, e.g. in a spliced admission helper that runs before the branch)
    in_any = b.reachable_blocks([t for (_, te, _) in regs for (_, t, _) in te], removed_blocks=cut)
    zs = [(bb, z, nz) for (bb, z, nz) in zero_ctx_switches(b) if bb in in_any and bb not in after_store]
    run.ob("%s|registration|zero-context-test" % AP, bool(zs), b.sp, "the registration branch compares frame.context_id with ZERO_CONTEXT", reason="mechanism-not-found")
    for (bb, z, nz) in zs:
        reach = b.reachable_blocks([t for (_, t, _) in nz], removed_blocks=cut)
        eff = [c for c in b.calls() if c.bb in reach and (c.fn in (C.INSERT_FRAME, C.BROADCAST_SEND, C.UNBOUNDED_SEND) or
                                                          (c.fn.startswith(C.SET_PREFIXES) and c.fn.split("::")[-1] in MUTATORS))]
        oks = [bb2 for (bb2, e, raw) in b.return_defs() if bb2 in reach and strip(e)[0] == "agg" and strip(e)[1].get("variant") == "Ok"]
        run.ob("%s|registration|non-zero-rejected" % AP, not eff and not oks, b.blocks[bb]["term"]["sp"],
               "an xs.context frame outside the zero context is rejected without any effect", reason="context-frame-outside-zero")
    # ttl forced to Forever on every path from the branch to insert_frame
    b.defs()
    ttl_writes = []
    for (bi, si, lhs, rv, sp) in b.field_writes:
        pp = place_path(b.place_expr(lhs))
        last = lhs["p"][-1] if lhs["p"] else None
        is_frame_ttl = isinstance(last, dict) and last.get("n") == "ttl" and last.get("adt") == C.FRAME
        if ((pp and pp[-1] == "ttl") or is_frame_ttl) and bi in in_branch:
            val = strip(b.rvalue_expr(rv))
            forever = val[0] == "agg" and val[1].get("variant") == "Some" and val[2] and strip(val[2][0])[0] == "agg" and strip(val[2][0])[1].get("variant") == "Forever"
            ttl_writes.append((bi, forever, sp, fmt(val)))
    good = [w for w in ttl_writes if w[1]]
    run.ob("%s|registration|ttl-forced" % AP, bool(good) and len(good) == len(ttl_writes), good[0][2] if good else b.sp,
           "frame.ttl is overwritten with Some(TTL::Forever) in the registration branch (%s)" % [w[3] for w in ttl_writes], reason="context-ttl-not-forced")
    for c in q.live_calls(b, C.INSERT_FRAME):
        reach = b.reachable_blocks(t_targets, removed_blocks=[w[0] for w in good] + cut)
        run.ob("%s|registration|ttl-forced-before-store" % AP, c.bb not in reach, c.sp,
               "every path from the registration branch to insert_frame passes the ttl overwrite", reason="context-ttl-not-forced")
    ins = [c for c in registry_calls(b) if c.fn in C.SET_INSERT and c.bb in in_branch]
    zero_edges = [e for (bb, z, nz) in zs for e in z]
    b.defs()
    topic_written = any(place_path(b.place_expr(lhs)) and place_path(b.place_expr(lhs))[-1] == "topic" for (bi, si, lhs, rv, sp) in b.field_writes)
    if len(regs) > 1 and not topic_written:
        # the admission test may sit behind an earlier `topic == "xs.context"` test of its own (frame.topic is never written here)
        zero_edges = q.implied_by_same_test(b, regs, zero_edges)
    for c in ins:
        run.ob("%s|registration|registers-only-zero-context-frames" % AP, bool(zero_edges) and q.dominated(b, c.bb, via_edges=zero_edges), c.sp,
               "the registry insert in append lies behind the `context_id == ZERO_CONTEXT` edge of the admission test", reason="context-frame-outside-zero")
    for c in ins:
        v = strip(c.arg(1))
        run.ob("%s|registration|registers-own-id" % AP, q.last_field(v) == "id", c.sp, "the id registered is the frame's own id: %s" % fmt(v), reason="wrong-id-registered")


def r3(run):
    b = C.body_or_fail(run, C.NEW)
    ins = [c for c in registry_calls(b) if c.fn in C.SET_INSERT]
    if not ins:
        run.missing("%s|reload" % C.NEW, "Store::new does not feed the context registry from stored frames (reload loop missing)", b.sp)
        return
    regs = topic_is_ctx_switches(b)
    t_edges = [e for (bb, t, f) in regs for e in t]
    for c in ins:
        v = strip(c.arg(1))
        pp = place_path(v)
        src = None
        for x in walk(c.arg(1)):
            if x[0] == "call" and x[1].fn == C.READ_SYNC:
                src = x
        ok_src = False
        d = "no read_sync source"
        if src is not None:
            a = src[2]
            last, lim, ctx = strip(a[1]), strip(a[2]), strip(a[3])
            ok_src = (last[0] == "agg" and last[1].get("variant") == "None" and lim[0] == "agg" and lim[1].get("variant") == "None"
                      and ctx[0] == "agg" and ctx[1].get("variant") == "Some" and q.is_const_named(ctx[2][0], "ZERO_CONTEXT"))
            d = "read_sync(%s, %s, %s)" % (fmt(last), fmt(lim), fmt(ctx))
        run.ob("%s|reload|source" % C.NEW, ok_src, c.sp, "registered ids come from an unbounded scan of the zero context: %s" % d, reason="reload-scope")
        run.ob("%s|reload|own-id" % C.NEW, q.last_field(v) == "id", c.sp, "the reloaded id is the frame's id: %s" % fmt(v)[:120], reason="wrong-id-registered")
        run.ob("%s|reload|topic-guard" % C.NEW, (bool(t_edges) and q.dominated(b, c.bb, via_edges=t_edges)) or filtered_by_ctx_topic(run, c.arg(1)), c.sp,
               "the reload insert is guarded by topic == \"xs.context\"", reason="reload-guard")
    rs = q.live_calls(b, C.READ_SYNC)
    for r in b.return_blocks():
        run.ob("%s|reload|before-return" % C.NEW, bool(rs) and q.dominated(b, r, via_blocks=[c.bb for c in rs]), b.blocks[r]["term"]["sp"],
               "the store is returned only after the reload scan was started", reason="reload-skipped")
    # the zero context itself is always present
    seeds = [c for c in q.live_calls(b, *C.SET_INSERT) if q.is_const_named(c.arg(1), "ZERO_CONTEXT")]
    run.ob("%s|zero-context-seeded" % C.NEW, len(seeds) >= 1, b.sp, "the registry is seeded with ZERO_CONTEXT", reason="zero-context-missing")


ALLOWED_WRITERS = {C.NEW: "seed + reload", C.APPEND: "registration", C.REMOVE: "unregistration", C.INSERT_FRAME: "store path (import included)"}


def allowed_writers(run):
    d = dict(ALLOWED_WRITERS)
    for r in C.removers(run.facts):
        d.setdefault(r, "unregistration (shared removal function)")
    for pn in C.publisher_names(run.facts):
        d.setdefault(pn, "registration (sibling publisher, verified like Store::append)")
    return d


def r4(run):
    n = 0
    for b in run.facts.all_bodies():
        for c in registry_calls(b):
            m = c.fn.split("::")[-1]
            if m not in MUTATORS:
                continue
            n += 1
            fn = run.facts.enclosing_fn(b)
            run.touch(b)
            AW = allowed_writers(run)
            ok_fn = fn in AW and b.def_ == fn
            regs = topic_is_ctx_switches(b)
            t_edges = [e for (bb, t, f) in regs for e in t]
            guarded = (bool(t_edges) and q.dominated(b, c.bb, via_edges=t_edges)) or (len(c.args) > 1 and filtered_by_ctx_topic(run, c.arg(1)))
            v = strip(c.arg(1)) if len(c.args) > 1 else None
            own = v is not None and q.last_field(v) == "id"
            run.ob("%s|registry-%s" % (fn, m), ok_fn and guarded and own and m in ("insert", "remove"), c.sp,
                   "Store.contexts.%s in %s (%s): guarded by topic==\"xs.context\": %s, value is that frame's id: %s" % (
                       m, fn, AW.get(fn, "NOT an audited writer"), guarded, own), reason="unaudited-registry-write")
    run.floor("writes to Store.contexts through the field", n, 4)
    # the field is private (other crates cannot reach it): type-level witness, see W2
    store = run.facts.adt(C.STORE)
    f = [x for x in store["variants"][0]["fields"] if x["name"] == "contexts"]
    run.ob("%s|contexts-private" % C.STORE, bool(f) and "Restricted" in f[0]["vis"], "<struct Store>", "Store.contexts is not public (%s)" % (f[0]["vis"] if f else "missing"),
           reason="registry-exposed")


def r5(run):
    facts = run.facts
    # functions that put / delete the primary record
    for info_fn, op, method in ((C.BATCH_INSERT, "insert", C.SET_INSERT), (C.BATCH_REMOVE, "remove", C.SET_REMOVE)):
        holders = []
        for b in facts.all_bodies():
            for c in q.live_calls(b, info_fn):
                p = place_path(strip(c.arg(1)))
                if p and p[-1] == "frame_partition":
                    holders.append((b, c))
        run.floor("functions that %s the primary record" % op, len(holders), 1)
        for (b, c) in holders:
            run.touch(b)
            regs = topic_is_ctx_switches(b)
            t_edges = [e for (bb, t, f) in regs for e in t]
            upd = [r for r in registry_calls(b) if r.fn in method]
            ok = bool(upd) and bool(t_edges) and all(q.dominated(b, r.bb, via_edges=t_edges) for r in upd)
            run.ob("%s|registry-follows-%s" % (b.def_, op), ok, c.sp,
                   "%s %ss the primary record and maintains the registry under the xs.context guard (%d registry %s)" % (b.def_, op, len(upd), op),
                   reason="registry-not-maintained")
            if ok and op == "insert":
                # same predicate as the reload in Store::new: zero context only
                zs = zero_ctx_switches(b)
                z_edges = [e for (bb, z, nz) in zs for e in z]
                run.ob("%s|registry-insert|zero-context-only" % b.def_, bool(z_edges) and all(q.dominated(b, r.bb, via_edges=z_edges) for r in upd), upd[0].sp,
                       "registration on the store path applies to zero-context frames only, like the reload at open", reason="registry-not-function-of-frames")
                # every path from (topic==ctx && zero) to a return passes the registry insert
                # where both tests have succeeded, whichever comes first (`a && b`, or nested ifs in either order)
                starts = [t for (_, t, _) in z_edges if q.dominated(b, t, via_edges=t_edges)] + \
                         [t for (_, t, _) in t_edges if q.dominated(b, t, via_edges=z_edges)]
                reach = b.reachable_blocks(starts, removed_blocks=[r.bb for r in upd]) if starts else set()
                rets = [r for r in b.return_blocks() if r in reach]
                run.ob("%s|registry-insert|on-every-path" % b.def_, bool(starts) and not rets, upd[0].sp,
                       "once the guard holds, every path to the return registers the id", reason="registry-not-maintained")


RULES = [
    ("R-C07-1", "in Store::append every effect is dominated by the membership test or the xs.context branch; the non-member edge has no effect", r1),
    ("R-C07-2", "registration branch: non-zero context rejected before any effect, ttl forced to Forever before storing, own id registered", r2),
    ("R-C07-3", "Store::new reloads the registry from an unbounded zero-context scan guarded by topic == xs.context before returning", r3),
    ("R-C07-4", "only audited store functions write Store.contexts, each under the xs.context guard with that frame's id", r4),
    ("R-C07-5", "every function that inserts / removes the primary record maintains the registry (imports included)", r5),
    ("R-C07-6", "a registration is stored whatever ttl it was submitted with: append decides `store or not` after the xs.context branch forced the ttl to Forever (shared with R-C09-1)", lambda run: __import__("rules.C09", fromlist=["x"]).rule_ttl_decision_final(run)),
]
