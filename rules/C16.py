"""C16 - handler lifecycle: one active instance per name and context."""
from xsvlib.facts import fmt, strip, walk
from xsvlib import q
from . import common as C
from . import frames as F

EXPLANATION = ("Ordering and pairing analysis of the handler lifecycle: `.registered` is appended in the task that has already completed "
               "the subscription; every exit of the serve loop passes exactly one `.unregistered` append stamped with the handler id; "
               "construction errors are announced; the dispatcher starts a handler for every live `.register`.")
NOT_DECIDED = ["at-most-one active instance per (context, name) as a behaviour under interleavings", "that a stopped instance processes nothing further (task scheduling)"]

HANDLER = "xs::handlers::handler::Handler"


def coroutine_of(run, fn, pred=None):
    for b in run.facts.bodies_under(fn):
        if b.is_coroutine and b.def_ == fn + "::{closure#0}":
            run.touch(b)
            return b
    return None


def r1(run):
    sp = coroutine_of(run, HANDLER + "::spawn")
    if sp is None:
        run.missing(HANDLER + "::spawn|body", "Handler::spawn not found")
        return
    regs = [a for a in F.appends_in(sp) if a.has_suffix(".registered")]
    run.exact("appends of <name>.registered in Handler::spawn", len(regs), 1, sp.sp)
    reads = q.live_calls(sp, C.READ)
    run.ob(HANDLER + "::spawn|subscribes-itself", len(reads) == 1, sp.sp,
           "Handler::spawn itself calls Store::read (the subscription is not left to the spawned serve task): %d call(s)" % len(reads), reason="announce-before-subscribe")
    if not reads or not regs:
        return
    rd = reads[0]
    # the await of that read completed: Ready edge of the poll of its future
    ready = []
    for bb, si in sp.switches():
        if si["kind"] == "variant" and si["cond"][0] == "call" and si["cond"][1].fn.endswith("Future::poll"):
            inner = q.unawait(("field", ("downcast", si["cond"], "Ready"), 0))
            if inner[0] == "call" and q.same_call(inner[1], rd):
                for (t, lab, m) in si["edges"]:
                    if m == "Ready":
                        ready.append((bb, t, lab))
    for a in regs:
        run.ob(HANDLER + "::spawn|registered-after-subscribe", bool(ready) and q.dominated(sp, a.call.bb, via_edges=ready), a.call.sp,
               "`.registered` is appended only after `store.read(..).await` has completed in the same task", reason="announce-before-subscribe")
        run.ob(HANDLER + "::spawn|registered-stamped", a.meta is not None and "handler_id" in a.meta and q.last_field(F.json_src(a.meta["handler_id"])) == "id", a.call.sp,
               "`.registered` carries handler_id = self.id", reason="unstamped-lifecycle-frame")
    # the receiver handed to the serve task is that subscription
    handed = False
    for c in q.live_calls(sp, C.TOKIO_SPAWN):
        for x in walk(c.arg(0)):
            if x[0] == "agg" and x[1].get("agg") == "coroutine":
                for op in x[2]:
                    u = q.unawait(op)
                    if u[0] == "call" and q.same_call(u[1], rd):
                        handed = True
                run.ob(HANDLER + "::spawn|serve-spawned-after-subscribe", bool(ready) and q.dominated(sp, c.bb, via_edges=ready), c.sp,
                       "the serve task is spawned after the subscription exists")
    run.ob(HANDLER + "::spawn|receiver-handed-over", handed, sp.sp, "the serve task receives exactly that subscription's receiver", reason="announce-before-subscribe")
    sv = coroutine_of(run, HANDLER + "::serve")
    if sv is not None:
        run.ob(HANDLER + "::serve|no-late-subscription", not q.live_calls(sv, C.READ), sv.sp, "Handler::serve does not subscribe on its own", reason="announce-before-subscribe")


def r2(run):
    sv = coroutine_of(run, HANDLER + "::serve")
    if sv is None:
        run.missing(HANDLER + "::serve|body", "Handler::serve not found")
        return
    unreg = [a for a in F.appends_in(sv) if a.has_suffix(".unregistered")]
    run.floor("appends of <name>.unregistered in Handler::serve", len(unreg), 3, sv.sp)
    ubbs = [a.call.bb for a in unreg]
    for r in sv.return_blocks():
        run.ob(HANDLER + "::serve|every-exit-announced", not q.entry_reaches(sv, r, removed_blocks=ubbs), sv.blocks[r]["term"]["sp"],
               "every path from the start of serve to its return passes an append of `.unregistered` (stream end, replacement, unregister, processing error)",
               reason="silent-handler-stop")
    for a in unreg:
        twice = [b.call.sp for b in unreg if q.reaches(sv, a.call.bb, b.call.bb)]
        run.ob(HANDLER + "::serve|announced-once|%s" % "+".join(sorted(a.meta or [])), not twice, a.call.sp,
               "after this `.unregistered` no second one is reachable (%s)" % twice, reason="double-unregistered")
        hid = a.meta.get("handler_id") if a.meta else None
        run.ob(HANDLER + "::serve|stamped|%s" % "+".join(sorted(a.meta or [])), hid is not None and q.last_field(F.json_src(hid)) == "id" and any(y[0] == "env" for y in walk(hid)), a.call.sp,
               "`.unregistered` carries handler_id = self.id", reason="unstamped-lifecycle-frame")
        ctx = a.context
        run.ob(HANDLER + "::serve|context|%s" % "+".join(sorted(a.meta or [])), ctx is not None and q.last_field(ctx) == "context_id", a.call.sp,
               "`.unregistered` lands in the handler's context", reason="wrong-context")
        # after the announcement the loop is left: no further recv / process_frame
        again = [c.sp for c in sv.calls() if c.bb in sv.reach_after(a.call.bb) and (c.fn == C.MPSC_RECV or c.fn.endswith("Handler::process_frame"))]
        run.ob(HANDLER + "::serve|stops-after-announce|%s" % "+".join(sorted(a.meta or [])), not again, a.call.sp,
               "after `.unregistered` the instance receives / processes nothing further (%s)" % again, reason="stopped-handler-keeps-running")
    # the error exits carry the error
    pf = [c for c in sv.calls() if c.fn.endswith("Handler::process_frame") and c.bb in sv.live_blocks()]
    run.exact("process_frame call sites in serve", len(pf), 1, sv.sp)
    for c in pf:
        err_edges = q.call_result_edges(sv, c, ok=False)
        reach = sv.reachable_blocks([t for (_, t, _) in err_edges]) if err_edges else set()
        hits = [a for a in unreg if a.call.bb in reach and a.meta and "error" in a.meta]
        silent = sv.reachable_blocks([t for (_, t, _) in err_edges], removed_blocks=[a.call.bb for a in hits]) if err_edges else set()
        run.ob(HANDLER + "::serve|processing-error-announced", len(hits) >= 1 and not [r for r in sv.return_blocks() if r in silent], c.sp, "a failing invocation leads to `.unregistered` carrying the error", reason="silent-handler-stop")


def r3(run):
    sh = coroutine_of(run, "xs::handlers::serve::start_handler")
    if sh is None:
        run.missing("xs::handlers::serve::start_handler|body", "start_handler not found")
        return
    ff = [c for c in sh.calls() if c.fn.endswith("Handler::from_frame") and c.bb in sh.live_blocks()]
    run.exact("Handler::from_frame call sites in start_handler", len(ff), 1, sh.sp)
    unreg = [a for a in F.appends_in(sh) if a.has_suffix(".unregistered")]
    for c in ff:
        err_edges = q.call_result_edges(sh, c, ok=False)
        ok_edges = q.call_result_edges(sh, c, ok=True)
        reach = sh.reachable_blocks([t for (_, t, _) in err_edges]) if err_edges else set()
        hits = [a for a in unreg if a.call.bb in reach and a.meta and "error" in a.meta and "handler_id" in a.meta]
        silent = sh.reachable_blocks([t for (_, t, _) in err_edges], removed_blocks=[a.call.bb for a in hits]) if err_edges else set()
        silent_ret = [r for r in sh.return_blocks() if r in silent]
        run.ob("xs::handlers::serve::start_handler|construction-error-announced", len(hits) == 1 and not silent_ret, c.sp,
               "an invalid handler script yields exactly one `.unregistered` with handler_id and error", reason="silent-handler-stop")
        for a in hits:
            run.ob("xs::handlers::serve::start_handler|construction-error-id", q.last_field(F.json_src(a.meta["handler_id"])) == "id", a.call.sp,
                   "the announced handler_id is the register frame's id")
        spawns = [s for s in sh.calls() if s.fn.endswith("Handler::spawn") and s.bb in sh.live_blocks()]
        run.ob("xs::handlers::serve::start_handler|ok-spawns", len(spawns) == 1 and bool(ok_edges) and q.dominated(sh, spawns[0].bb, via_edges=ok_edges), c.sp,
               "a valid handler is spawned (exactly once)", reason="handler-not-started")


def r4(run):
    sv = coroutine_of(run, "xs::handlers::serve::serve")
    if sv is None:
        run.missing("xs::handlers::serve::serve|body", "handlers::serve not found")
        return
    starts = [c for c in sv.calls() if c.fn.endswith("serve::start_handler") and c.bb in sv.live_blocks()]
    run.floor("start_handler call sites in handlers::serve", len(starts), 2, sv.sp)
    replay, exits = F.replay_phase(sv)
    run.ob("xs::handlers::serve::serve|replay-phase", replay is not None and len(exits) >= 2, sv.sp, "the dispatcher replays history up to xs.threshold first", reason="mechanism-not-found")
    live = []
    for c in starts:
        src = [y[1] for y in walk(c.arg(0)) if y[0] == "call" and y[1].fn == C.MPSC_RECV]
        if src and replay is not None and not q.same_call(src[0], replay):
            live.append(c)
    run.ob("xs::handlers::serve::serve|live-register-starts-handler", len(live) >= 1, sv.sp, "after the replay phase every received `.register` frame is passed to start_handler",
           reason="handler-not-started")
    reg_edges = F.suffix_tests(sv, ".register")
    for c in live:
        run.ob("xs::handlers::serve::serve|live-dispatch-on-register", bool(reg_edges) and q.dominated(sv, c.bb, via_edges=reg_edges), c.sp,
               "the live dispatch is keyed on the `.register` suffix", reason="handler-not-started")
        # from the `.register` edge of a live frame the next recv is reached only through start_handler
        lrecv = [y[1] for y in walk(c.arg(0)) if y[0] == "call" and y[1].fn == C.MPSC_RECV][0]
        mine = [e for e in reg_edges if q.dominated(sv, c.bb, via_edges=[e])]
        reach = sv.reachable_blocks([t for (_, t, _) in mine], removed_blocks=[c.bb])
        run.ob("xs::handlers::serve::serve|every-live-register-dispatched", lrecv.bb not in reach, c.sp,
               "no path from a live `.register` frame back to recv() skips start_handler", reason="handler-not-started")


def threshold_edges(body):
    """True edges of `frame.topic == "xs.threshold"` tests."""
    out = []
    for bb, si in body.switches():
        if si["kind"] != "bool":
            continue
        cmp_ = q.comparison(si["cond"])
        if cmp_ and cmp_[0] in ("eq", "ne") and "xs.threshold" in q.const_strs(si["cond"]):
            out += q.edge_triples(body, bb, lambda m, rel=cmp_[0]: m is (rel == "eq"))
    return out


def id_le_self_edges(sv):
    """Edges on which `frame.id <= self.id` holds (registration traffic that preceded this instance)."""
    out = []
    for bb, si in sv.switches():
        if si["kind"] != "bool":
            continue
        cmp_ = q.comparison(si["cond"])
        if not cmp_ or cmp_[0] in ("eq", "ne"):
            continue
        rel, l, r = cmp_
        fl = q.last_field(l) == "id" and any(y[0] == "call" and y[1].fn == C.MPSC_RECV for y in walk(l))
        fr = q.last_field(r) == "id" and any(y[0] == "call" and y[1].fn == C.MPSC_RECV for y in walk(r))
        sl = q.last_field(l) == "id" and any(y[0] == "field" and y[1][0] == "env" and y[2] == "self" for y in walk(l))
        sr = q.last_field(r) == "id" and any(y[0] == "field" and y[1][0] == "env" and y[2] == "self" for y in walk(r))
        if fl and sr:
            out += q.edge_triples(sv, bb, lambda m, rel=rel: q.rel_on_edge(rel, m) == "le")
        elif fr and sl:
            out += q.edge_triples(sv, bb, lambda m, rel=q.SWAP[rel]: q.rel_on_edge(rel, m) == "le")
    return out


def own_output_tests(run, sv):
    """Switch blocks of the `meta.handler_id == self.id` filter."""
    out = []
    for bb, si in sv.switches():
        if si["kind"] != "bool":
            continue
        cond = si["cond"]
        if not (cond[0] == "call" and cond[1].fn.startswith("core::option::Option::<T>::is_")):
            continue
        if not any(y[0] == "field" and y[2] == "meta" for y in walk(cond)):
            continue
        keys = []
        for y in walk(cond):
            if y[0] == "agg" and y[1].get("agg") == "closure":
                cb = run.facts.body(y[1]["def"])
                if cb is not None:
                    for c in cb.calls():
                        if c.fn.endswith("Value::get"):
                            keys += q.const_strs(c.arg(1))
        if "handler_id" in keys:
            out.append(bb)
    return out


def r5(run):
    sv = coroutine_of(run, HANDLER + "::serve")
    if sv is None:
        run.missing(HANDLER + "::serve|body", "Handler::serve not found")
        return
    unreg = [a for a in F.appends_in(sv) if a.has_suffix(".unregistered")]
    ubbs = [a.call.bb for a in unreg]
    recvs = q.live_calls(sv, C.MPSC_RECV)
    pf = [c for c in sv.calls() if c.bb in sv.live_blocks() and c.fn.endswith("Handler::process_frame")]
    skip = id_le_self_edges(sv)
    for suffix, what in ((".register", "a later `<name>.register` (replacement)"), (".unregister", "a later `<name>.unregister`")):
        edges = F.suffix_tests(sv, suffix)
        # one occurrence of the test must lead, on every path that is not the `frame.id <= self.id` skip, to the announcement
        stopping = []
        for e in edges:
            reach = sv.reachable_blocks([e[1]], removed_blocks=ubbs, removed_edges=skip)
            if not any(c.bb in reach for c in recvs + pf) and not any(r in reach for r in sv.return_blocks()) and any(
                    u in sv.reachable_blocks([e[1]]) for u in ubbs):
                stopping.append(e)
        run.ob(HANDLER + "::serve|stops-on|%s" % suffix, len(stopping) >= 1, sv.sp,
               "%s of its own topic stops this instance: one `topic == <name>%s` test leads on every path (except the id <= self.id skip) to the `.unregistered` announcement "
               "(%d of %d test edges)" % (what, suffix, len(stopping), len(edges)), reason="old-instance-keeps-running")
        # a lifecycle frame can never be swallowed by the own-output filter: that filter is evaluated only after the lifecycle test failed
        false_edges = []
        for bb, si in sv.switches():
            if si["kind"] == "bool":
                for (t, lab, m) in si["edges"]:
                    pass
        f_edges = []
        for e in edges:
            f_edges += q.other_edges(sv, e[0], [e])
        for ob in own_output_tests(run, sv):
            run.ob(HANDLER + "::serve|lifecycle-before-own-output-filter|%s" % suffix, bool(f_edges) and q.dominated(sv, ob, via_edges=f_edges), sv.blocks[ob]["term"]["sp"],
                   "the `meta.handler_id == self.id` filter is reached only after the `<name>%s` test failed: a (un)register frame stamped with this instance's own id still stops it" % suffix,
                   reason="lifecycle-frame-swallowed-by-own-output-filter")
    for e in F.suffix_tests(sv, ".register")[:1]:
        si = sv.switch_info(e[0])
        run.ob(HANDLER + "::serve|stop-test-own-topic", any(y[0] == "field" and y[2] == "topic" and any(z[0] == "field" and z[1][0] == "env" and z[2] == "self" for z in walk(y)) for y in walk(si["cond"])),
               sv.blocks[e[0]]["term"]["sp"], "the stop test is built from self.topic")


RULES = [
    ("R-C16-1", "`.registered` is appended after the subscription completed in the same task; the serve task gets that receiver", r1),
    ("R-C16-2", "every exit of Handler::serve passes exactly one stamped `.unregistered`; nothing is processed afterwards", r2),
    ("R-C16-3", "start_handler: construction error => one `.unregistered` with error; success => spawn", r3),
    ("R-C16-4", "the dispatcher starts a handler for every live `.register` frame", r4),
    ("R-C16-5", "a later .register (replacement) or .unregister of its own name stops the running instance", r5),
    ("R-C16-6", "the handler dispatcher keeps serving: following subscription, threshold ends replay, the live loop ends only with the stream (shared with R-C17-6)", lambda run: __import__("rules.C17", fromlist=["x"]).rule_dispatcher_shape(run, ("xs::handlers::serve",))),
    ("R-C16-7", "`.unregistered` announcements are persistent frames (default TTL), so a stopped instance stays stopped across restarts (shared with R-C17-8)", lambda run: __import__("rules.C17", fromlist=["x"]).rule_lifecycle_frames_persist(run)),
]
