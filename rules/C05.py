"""C05 - all lookups agree; head is the newest frame of exactly that topic."""
from xsvlib.facts import fmt, strip, place_path, FactError, walk
from xsvlib import q
from . import common as C
from .store_shared import batch_bodies, partition_field, key_constructor, mentions_arg, rule_range_bounds

EXPLANATION = ("Sibling agreement of the insert and remove batches, provenance of every idx_topic / idx_context key from one "
               "constructor per key space, symbolic evaluation of the key layout (ctx || topic || 0x00 || id), NUL rejection dominating "
               "every effect, and head as a reverse prefix scan that skips dangling entries.")
NOT_DECIDED = ["the iff between the three access paths at every quiescent moment for arbitrary histories (fjall batch atomicity)",
               "behaviour for adversarial multi-byte topics beyond the layout argument"]

TOPIC_KEY_FN = "xs::store::idx_topic_key_from_frame"   # test-pinned name


def batch_keys(run):
    """{fn: {partition: key_constructor}} for insert_frame / remove."""
    out = {}
    for info in batch_bodies(run):
        b = info["body"]
        m = {}
        for c in info["ops"]:
            m[partition_field(c) or "?"] = (key_constructor(c.arg(2)), c)
        out[b.def_] = (b, m)
    return out


def r1(run):
    # each batch is three operations of ONE kind, one per partition (an insert batch that also removes index entries, or vice versa,
    # lets the primary record and its index entries disagree)
    for info in batch_bodies(run):
        b = info["body"]
        ops = sorted((c.fn.split("::")[-1], partition_field(c) or "?") for c in info["ops"])
        kinds = {k for (k, p) in ops}
        want = [(list(kinds)[0], p) for p in ("frame_partition", "idx_context", "idx_topic")] if len(kinds) == 1 else None
        run.ob("%s|batch-shape" % b.def_, want is not None and ops == sorted(want), b.sp,
               "the batch of %s is exactly one %s per partition: %s" % (b.def_, "/".join(sorted(kinds)), ops), reason="index-and-primary-disagree")
    bk = batch_keys(run)
    ins = bk.get(C.INSERT_FRAME)
    rem = bk.get(C.REMOVE)
    if not rem:
        # the removal batch lives in a function Store::remove shares with the GC
        for r in C.removers(run.facts):
            rem = rem or bk.get(r)
    if not ins or not rem:
        run.missing("crate|insert/remove batches", "Store::insert_frame and Store::remove must both build a batch")
        return
    for part in ("frame_partition", "idx_topic", "idx_context"):
        ki = ins[1].get(part)
        kr = rem[1].get(part)
        if not ki or not kr:
            run.ob("insert<->remove|%s" % part, False, ins[0].sp, "partition %s is not touched by both insert_frame and remove" % part, reason="sibling-disagreement")
            continue
        a, b = ki[0], kr[0]
        if part == "frame_partition":
            ok = a[0] == "id-bytes" and b[0] == "id-bytes"
        else:
            ok = a[0] == "fn" and b[0] == "fn" and a[1] == b[1]
        run.ob("insert<->remove|%s" % part, ok, kr[1].sp,
               "insert_frame and remove key %s with the same constructor (%s vs %s)" % (part, a[:2], b[:2]), reason="sibling-disagreement")
    ti = ins[1].get("idx_topic")
    ci = ins[1].get("idx_context")
    if ti and ci and ti[0][0] == "fn" and ci[0][0] == "fn":
        run.ob("insert|distinct-index-constructors", ti[0][1] != ci[0][1], ins[0].sp, "topic and context index use distinct key constructors")
        run.ob("insert|topic-key-fn", ti[0][1] == TOPIC_KEY_FN, ti[1].sp, "idx_topic keys come from idx_topic_key_from_frame (test-pinned): %s" % ti[0][1])
    # remove: the index keys are built from the frame fetched by the same id that keys the primary tombstone
    rb = rem[0]
    gets = q.live_calls(rb, C.GET)
    ok = len(gets) == 1 and mentions_arg(gets[0].arg(1), 2)
    if not gets and rb.def_ != C.REMOVE:
        # the shared removal function takes the FRAME: its primary tombstone and its index tombstones are keyed from that one parameter
        ops = [c for c in rb.calls() if c.bb in rb.live_blocks() and c.fn == C.BATCH_REMOVE]
        ok = len(ops) == 3 and all(mentions_arg(c.arg(2), 2) for c in ops)
    run.ob("remove|frame-from-get(id)", ok, rb.sp,
           "remove derives the index keys from get(id) of its own id parameter (or, in a shared removal function, all three keys from its frame parameter)")


def prefix_constructor(run):
    """The crate-local function idx_topic_key_from_frame builds its key from (found by provenance, not by name)."""
    kb = C.body_or_fail(run, TOPIC_KEY_FN)
    rets = [strip(e) for (bb, e, raw) in kb.return_defs() if strip(e)[0] == "agg" and strip(e)[1].get("variant") == "Ok"]
    if len(rets) != 1:
        raise FactError("idx_topic_key_from_frame has %d Ok return sites" % len(rets))
    raw_op = rets[0][1]["ops"][0]
    l = q.root_local(kb, raw_op)
    segs = q.vec_segments(kb, l)
    if segs and segs[0][0] != "call":
        segs = same_layout_as_scan_prefix(run, kb, segs) or segs
    if not segs or segs[0][0] != "call":
        raise FactError("idx_topic_key_from_frame does not start from a prefix-constructor call: %s" % [s[0] for s in segs])
    return kb, segs, segs[0][2].fn


class _PrefixShim:
    """Stands for `prefix_constructor(ctx, topic)` when the key function spells the prefix out itself (a helper shared with the
    prefix constructor was spliced into both): same segments, proven equal below."""
    def __init__(self, fn, site):
        self.fn, self.bb, self.sp, self.body = fn, site.bb, site.sp, site.body
        self.res = self.resx = None
        self.fnx, self.local, self.args, self.exp, self.ga, self.dest = fn, True, [], None, [], {"l": 0, "p": []}

    def callee(self):
        return self.fn

    def from_macro(self):
        return False


def seg_tag(seg):
    k, e = seg[0], seg[1]
    if k == "bytes":
        for name in ("context_id", "topic", "id"):
            if q.has_field(e, name) or any(y[0] == "arg" and str(y[2]) == name for y in walk(e)):
                return ("bytes", name)
        return ("bytes", "?")
    if k == "push":
        x = strip(e)
        return ("push", (x[1].get("uneval") or x[1].get("int")) if x[0] == "const" else "?")
    return (k, "?")


def same_layout_as_scan_prefix(run, kb, segs):
    scans = [c for c in run.facts.calls_to(C.PARTITION_PREFIX) if c.bb in c.body.live_blocks()]
    fns = set()
    for c in scans:
        a = q.peel(c.arg(1))
        if a[0] == "call" and a[1].local:
            fns.add(a[1].fn)
    if len(fns) != 1:
        return None
    pfx_fn = fns.pop()
    pb = run.facts.body(pfx_fn)
    if pb is None:
        return None
    psegs = q.returned_vec_segments(run.facts, pb)
    n = len(psegs)
    if n == 0 or len(segs) <= n or [seg_tag(x) for x in psegs] != [seg_tag(x) for x in segs[:n]] or any(t[1] == "?" for t in map(seg_tag, psegs)):
        return None
    ctx_e = [x[1] for x in segs[:n] if seg_tag(x) == ("bytes", "context_id")]
    top_e = [x[1] for x in segs[:n] if seg_tag(x) == ("bytes", "topic")]
    if len(ctx_e) != 1 or len(top_e) != 1:
        return None
    shim = _PrefixShim(pfx_fn, segs[n - 1][2])
    return [("call", ("call", shim, [ctx_e[0], top_e[0]]), shim)] + list(segs[n:])


def r2(run):
    kb, segs, pfx_fn = prefix_constructor(run)
    run.ob("%s|prefix-constructor" % TOPIC_KEY_FN, True, kb.sp, "topic keys are built on the prefix constructor %s" % pfx_fn)
    # every prefix scan of idx_topic uses that constructor
    scans = [c for c in run.facts.calls_to(C.PARTITION_PREFIX) if c.bb in c.body.live_blocks()]
    run.floor("Partition::prefix call sites", len(scans), 2)
    for c in scans:
        part = partition_field(c, 0)
        arg = q.peel(c.arg(1))
        fn = run.facts.enclosing_fn(c.body)
        ok = part == "idx_topic" and arg[0] == "call" and arg[1].fn == pfx_fn
        run.ob("%s|prefix-scan(%s)" % (fn, part), ok, c.sp,
               "prefix scan of %s uses the shared prefix constructor (got %s)" % (part, fmt(arg)), reason="inline-key-layout")
    # every idx_topic batch key comes from the test-pinned constructor; idx_context from one other constructor
    for fn, (b, m) in batch_keys(run).items():
        for part in ("idx_topic", "idx_context"):
            if part in m:
                k, c = m[part]
                run.ob("%s|batch-key(%s)" % (fn, part), k[0] == "fn" and (part != "idx_topic" or k[1] == TOPIC_KEY_FN), c.sp,
                       "%s key of %s comes from a shared constructor: %s" % (part, fn, k[:2]), reason="inline-key-layout")


def seg_desc(seg):
    return "%s(%s)" % (seg[0], fmt(strip(seg[1])))


def r3(run):
    facts = run.facts
    kb, segs, pfx_fn = prefix_constructor(run)
    pb = C.body_or_fail(run, pfx_fn)
    rets = pb.return_defs()
    if len(rets) != 1:
        raise FactError("prefix constructor has %d return definitions" % len(rets))
    l = q.root_local(pb, rets[0][2]["use"]) if isinstance(rets[0][2], dict) and "use" in rets[0][2] else None
    if l is None:
        raise FactError("prefix constructor does not return a local Vec")
    psegs = q.vec_segments(pb, l)
    # expected: bytes(as_bytes(arg1 ctx)), bytes(as_bytes(arg2 topic)), push(D)
    desc = " ++ ".join(seg_desc(s) for s in psegs)
    ok = len(psegs) == 3
    ok = ok and psegs[0][0] == "bytes" and mentions_arg(psegs[0][1], 1) and any(c.fn == "scru128::id::Scru128Id::as_bytes" for c in q.calls_in(psegs[0][1]))
    ok = ok and psegs[1][0] == "bytes" and mentions_arg(psegs[1][1], 2)
    ok = ok and psegs[2][0] == "push"
    run.ob("%s|layout" % pfx_fn, ok, pb.sp, "topic prefix = Bytes16(context_id) ++ Str(topic) ++ Const(delimiter): %s" % desc, reason="key-layout")
    delim = strip(psegs[2][1]) if len(psegs) == 3 else None
    dname = delim[1].get("uneval") if delim is not None and delim[0] == "const" else None
    dval = None
    if dname:
        cv = facts.const(dname)
        dval = cv.get("int") if cv else None
    elif delim is not None and delim[0] == "const":
        dval = delim[1].get("int")
    run.ob("%s|delimiter-is-0x00" % pfx_fn, dval == "0", pb.sp, "the delimiter constant is 0x00 (sorts before every topic byte that could extend a prefix): %s=%s" % (dname, dval),
           reason="key-layout")
    # topic key = prefix ++ Bytes16(frame.id)
    desc = " ++ ".join(seg_desc(s) for s in segs)
    ok = len(segs) == 2 and segs[1][0] == "bytes" and q.has_field(segs[1][1], "id")
    pargs = segs[0][1][2] if segs[0][0] == "call" else []
    ok = ok and len(pargs) == 2 and q.has_field(pargs[0], "context_id") and q.has_field(pargs[1], "topic")
    run.ob("%s|layout" % TOPIC_KEY_FN, ok, kb.sp, "topic key = prefix(frame.context_id, frame.topic) ++ Bytes16(frame.id): %s" % desc, reason="key-layout")
    # the rejection test searches the same delimiter in the topic bytes
    conts = q.live_calls(kb, "core::slice::<impl [T]>::contains")
    okc = False
    for c in conts:
        needle = strip(c.arg(1))
        hay = c.arg(0)
        if needle[0] == "const" and (needle[1].get("uneval") == dname or needle[1].get("int") == dval) and q.has_field(hay, "topic"):
            okc = True
            # Err on the true edge, key construction only on the false edge
            sw = [(bb, si) for bb, si in kb.switches() if strip(si["cond"])[0] == "call" and q.same_call(strip(si["cond"])[1], c)]
            if sw:
                bb, si = sw[0]
                true_edges = q.edge_triples(kb, bb, lambda m: m is True)
                pcall = segs[0][2]
                false_edges = q.edge_triples(kb, bb, lambda m: m is False)
                run.ob("%s|reject-dominates-build" % TOPIC_KEY_FN, bool(false_edges) and q.dominated(kb, pcall.bb, via_edges=false_edges), c.sp,
                       "the key is only built on the 'topic has no delimiter' edge", reason="nul-not-rejected")
                errs = [e for (rb, e, raw) in kb.return_defs() if rb in kb.reachable_blocks([t for (_, t, _) in true_edges])]
                run.ob("%s|reject-returns-err" % TOPIC_KEY_FN, bool(errs) and all((strip(e)[0] == "agg" and strip(e)[1].get("variant") == "Err") or
                                                                                   (strip(e)[0] == "call" and strip(e)[1].fn.endswith("from_residual")) for e in errs), c.sp,
                       "a topic containing the delimiter yields Err", reason="nul-not-rejected")
    if not okc:
        # the same search spelled with an iterator: `topic.bytes().position(|b| b == DELIM)`, `.iter().any(|b| *b == DELIM)`, `.find(..)`
        for c in kb.calls():
            if c.bb not in kb.live_blocks() or c.fn.split("::")[-1] not in ("position", "any", "find") or "Iterator" not in c.fn or len(c.args) != 2:
                continue
            clo = strip(c.arg(1))
            cb = run.facts.body(clo[1].get("def")) if clo[0] == "agg" and clo[1].get("def") else None
            rets = cb.return_defs() if cb is not None else []
            cm = q.comparison(rets[0][1]) if len(rets) == 1 else None
            if not cm or cm[0] != "eq" or not q.has_field(c.arg(0), "topic"):
                continue
            sides = [strip(cm[1]), strip(cm[2])]
            if not any(x[0] == "const" and (x[1].get("uneval") == dname or x[1].get("int") == dval) for x in sides):
                continue
            found = notfound = None
            for bb, si in kb.switches():
                cnd = strip(si["cond"])
                if cnd[0] == "call" and q.same_call(cnd[1], c):
                    if si["kind"] == "bool":
                        found, notfound = q.edge_triples(kb, bb, lambda m: m is True), q.edge_triples(kb, bb, lambda m: m is False)
                    elif si["kind"] == "variant":
                        found = q.edge_triples(kb, bb, lambda m: m == "Some")
                        notfound = q.edge_triples(kb, bb, lambda m: m == "None" or (isinstance(m, tuple) and "None" in m))
            if found is None:
                continue
            okc = True
            pcall = segs[0][2]
            run.ob("%s|reject-dominates-build" % TOPIC_KEY_FN, bool(notfound) and q.dominated(kb, pcall.bb, via_edges=notfound), c.sp,
                   "the key is only built on the 'topic has no delimiter' edge", reason="nul-not-rejected")
            errs = [e for (rb, e, raw) in kb.return_defs() if rb in kb.reachable_blocks([t for (_, t, _) in found])]
            run.ob("%s|reject-returns-err" % TOPIC_KEY_FN, bool(errs) and all(strip(e)[0] == "agg" and strip(e)[1].get("variant") == "Err" or
                                                                               (strip(e)[0] == "call" and strip(e)[1].fn.endswith("from_residual")) for e in errs), c.sp,
                   "a topic containing the delimiter yields Err", reason="nul-not-rejected")
    run.ob("%s|rejects-delimiter" % TOPIC_KEY_FN, okc, kb.sp, "idx_topic_key_from_frame tests the topic bytes for the same delimiter constant", reason="nul-not-rejected")
    # id extraction from a topic key: last 16 bytes
    extractors = set()
    for c in facts.calls_to(C.PARTITION_PREFIX):
        pass
    idfn = None
    for b in facts.bodies_under(C.HEAD):
        for c in q.live_calls(b, C.GET):
            a = q.peel(c.arg(1))
            if a[0] == "call" and a[1].local:
                idfn = a[1].fn
    if idfn is None:
        # the extractor may have been spliced into head (a private helper with a new name): the slicing is then in head's own bodies
        ok = False
        d = ""
        for hb2 in facts.bodies_under(C.HEAD):
            for c in q.live_calls(hb2, "core::ops::index::Index::index"):
                rng = strip(c.arg(1))
                d = fmt(rng)
                if rng[0] == "agg" and (rng[1].get("variant") == "RangeFrom" or rng[1].get("adt", "").endswith("RangeFrom")):
                    x = strip(rng[2][0])
                    while x[0] == "field":
                        x = x[1]
                    if x[0] == "bin" and x[1] in ("Sub", "SubWithOverflow") and q.const_int(x[3]) == 16 and any(cc.fn == "core::slice::<impl [T]>::len" for cc in q.calls_in(x[2])):
                        ok = True
        run.ob("%s|id-extractor" % C.HEAD, ok, "<Store::head>", "head takes the frame id from the LAST 16 bytes of the index key: key[%s]" % d, reason="key-layout")
    else:
        eb = C.body_or_fail(run, idfn)
        idx = q.live_calls(eb, "core::ops::index::Index::index")
        ok = False
        d = ""
        for c in idx:
            rng = strip(c.arg(1))
            d = fmt(rng)
            if rng[0] == "agg" and rng[1].get("variant") == "RangeFrom" or (rng[0] == "agg" and rng[1].get("adt", "").endswith("RangeFrom")):
                start = rng[2][0]
                x = strip(start)
                # (len - 16).0 of a checked subtraction
                while x[0] == "field":
                    x = x[1]
                if x[0] == "bin" and x[1] in ("Sub", "SubWithOverflow") and q.const_int(x[3]) == 16 and \
                        any(cc.fn == "core::slice::<impl [T]>::len" for cc in q.calls_in(x[2])):
                    ok = True
        run.ob("%s|last-16-bytes" % idfn, ok, eb.sp, "the frame id is taken from the LAST 16 bytes of a topic key: key[%s]" % d, reason="key-layout")
    # context key = Bytes16(ctx) ++ Bytes16(id); reader slices [16..]
    bk = batch_keys(run)
    ci = bk.get(C.INSERT_FRAME, (None, {}))[1].get("idx_context")
    if ci and ci[0][0] == "fn":
        cb = C.body_or_fail(run, ci[0][1])
        csegs = q.returned_vec_segments(facts, cb)
        # a constructor that takes the two ids instead of the frame: judge it with the arguments of its call in insert_frame
        kx = q.peel(ci[1].arg(2))
        if kx[0] == "call" and kx[1].fn == ci[0][1]:
            csegs = [(k2, q.subst_args(e2, kx[2]), site2) for (k2, e2, site2) in csegs]
        desc = " ++ ".join(seg_desc(s) for s in csegs)
        ok = len(csegs) == 2 and all(s[0] == "bytes" for s in csegs) and q.has_field(csegs[0][1], "context_id") and q.has_field(csegs[1][1], "id") \
            and not q.has_field(csegs[1][1], "context_id")
        run.ob("%s|layout" % ci[0][1], ok, cb.sp, "context key = Bytes16(frame.context_id) ++ Bytes16(frame.id): %s" % desc, reason="key-layout")
    ok = False
    d = ""
    for b in facts.bodies_under(C.ITER_FRAMES):
        for c in q.live_calls(b, "core::ops::index::Index::index", "core::slice::<impl [T]>::get"):
            rng = strip(c.arg(1))
            d = fmt(rng)
            if rng[0] == "agg" and rng[2] and q.const_int(rng[2][0]) == 16 and "RangeFrom" in rng[1].get("adt", ""):
                ok = True
    run.ob("%s|ctx-key-reader" % C.ITER_FRAMES, ok, "<iter_frames closure>", "the context scan reads the frame id from key[16..]: %s" % d, reason="key-layout")


def delimiter_free_edges(run, b):
    """Edges of b on which the frame's topic is known to contain no key delimiter: the Ok edge of a call to the topic key
    constructor (which rejects such topics), or the 'not found' edge of a search for the delimiter constant in the topic bytes
    (the same test, when a validator shared with the key constructor was spliced in)."""
    edges = []
    for c in q.live_calls(b, TOPIC_KEY_FN):
        edges += q.call_result_edges(b, c, ok=True)

    def is_delim(x):
        x = strip(x)
        return x[0] == "const" and (str(x[1].get("uneval", "")).endswith("NULL_DELIMITER") or x[1].get("int") == "0")
    for c in b.calls():
        if c.bb not in b.live_blocks():
            continue
        found = notfound = None
        if c.fn == "core::slice::<impl [T]>::contains" and len(c.args) == 2 and is_delim(c.arg(1)) and q.has_field(c.arg(0), "topic"):
            kind = "bool"
        elif c.fn.split("::")[-1] in ("position", "any", "find") and "Iterator" in c.fn and len(c.args) == 2 and q.has_field(c.arg(0), "topic"):
            clo = strip(c.arg(1))
            cb = run.facts.body(clo[1].get("def")) if clo[0] == "agg" and clo[1].get("def") else None
            rets = cb.return_defs() if cb is not None else []
            cm = q.comparison(rets[0][1]) if len(rets) == 1 else None
            if not cm or cm[0] != "eq" or not any(is_delim(x) for x in (cm[1], cm[2])):
                continue
            kind = "any"
        else:
            continue
        for bb, si in b.switches():
            cnd = strip(si["cond"])
            if cnd[0] == "call" and q.same_call(cnd[1], c):
                if si["kind"] == "bool":
                    edges += q.edge_triples(b, bb, lambda m: m is False)
                elif si["kind"] == "variant":
                    edges += q.edge_triples(b, bb, lambda m: m == "None" or (isinstance(m, tuple) and "None" in m))
    return edges


def r4(run):
    for fn in C.publisher_names(run.facts) + (C.INSERT_FRAME,):
        b = C.body_or_fail(run, fn)
        ok_edges = delimiter_free_edges(run, b)
        if not ok_edges:
            run.missing("%s|nul-check" % fn, "%s neither calls idx_topic_key_from_frame nor searches the topic for the delimiter" % fn, b.sp)
            continue
        effects = []
        for c in q.live_calls(b, C.BATCH_COMMIT, C.INSERT_FRAME, C.BROADCAST_SEND, C.UNBOUNDED_SEND):
            if c.fn == C.BROADCAST_SEND and not C.frame_typed(c):
                continue
            effects.append((c.fn.split("::")[-1] + "@" + c.fn.split("::")[-2].split("<")[0], c.bb, c.sp))
        for (bb, e, raw) in b.return_defs():
            x = strip(e)
            if x[0] == "agg" and x[1].get("variant") == "Ok":
                effects.append(("return-Ok", bb, b.blocks[bb]["term"]["sp"]))
        run.floor("effects guarded by the NUL check in %s" % fn, len(effects), 2, b.sp)
        for name, bb, sp in effects:
            run.ob("%s|nul-check-dominates|%s" % (fn, name), bool(ok_edges) and q.dominated(b, bb, via_edges=ok_edges), sp,
                   "%s in %s is reached only through the Ok edge of the topic-delimiter check" % (name, fn), reason="nul-topic-leaves-trace")


def head_loop_form(run, hb):
    """`for kv in idx_topic.prefix(..).rev() { match self.get(&id) { Some(f) => { found = Some(f); break } None => .. } }`: the
    explicit spelling of find_map.  Returns True when the loop was found (its obligations are then recorded)."""
    nxt = [c for c in q.live_calls(hb, "core::iter::traits::iterator::Iterator::next") if not any("tracing" in str(m) for m in (c.exp or []))]
    scans = []
    for n in nxt:
        chain, x = [], strip(n.arg(0))
        k = 0
        while x[0] == "call" and k < 8:
            chain.append(x[1].fn)
            x = strip(x[2][0]) if x[2] else ("end",)
            k += 1
        chain = [f for f in chain if not f.endswith("IntoIterator::into_iter")]
        if C.PARTITION_PREFIX in chain:
            scans.append((n, chain))
    gets = [g for g in q.live_calls(hb, C.GET) if any(q.reaches(hb, n.bb, g.bb) for (n, ch) in scans)]
    if len(scans) != 1 or len(gets) != 1:
        return False
    (n, chain), g = scans[0], gets[0]
    run.ob("%s|rev-prefix-scan" % C.HEAD, len(chain) >= 2 and chain[0] == "core::iter::traits::iterator::Iterator::rev" and chain[1] == C.PARTITION_PREFIX, n.sp,
           "head scans prefix(idx_topic, ..) in REVERSE (newest first): %s" % " <- ".join(x.split("::")[-1] for x in chain), reason="head-not-newest")
    rl = q.root_local(hb, n.args[0])
    ty = hb.types.adaptor_chain(hb.local_ty(rl)) if rl is not None else []
    run.ob("%s|receiver-type" % C.HEAD, bool(ty) and ty[0] == "core::iter::adapters::rev::Rev", n.sp, "the scanned iterator's type is Rev<..>: %s" % ty[:2], reason="head-not-newest")
    some_e, none_e = [], []
    for bb, si in hb.switches():
        cnd = strip(si["cond"])
        if si["kind"] == "variant" and cnd[0] == "call" and q.same_call(cnd[1], g):
            some_e += q.edge_triples(hb, bb, lambda m: m == "Some")
            none_e += q.edge_triples(hb, bb, lambda m: m == "None" or (isinstance(m, tuple) and "None" in m))
    after_some = hb.reachable_blocks([t for (_, t, _) in some_e]) if some_e else set()
    after_none = hb.reachable_blocks([t for (_, t, _) in none_e]) if none_e else set()
    run.ob("%s|first-hit-wins" % C.HEAD, bool(some_e) and n.bb not in after_some, g.sp,
           "once an index entry resolves to a stored frame the scan stops (no further entry is looked at)", reason="head-not-newest")
    run.ob("%s|skip-dangling" % C.HEAD, bool(none_e) and n.bb in after_none, g.sp,
           "an index entry without a stored frame is skipped (the scan goes on), not fatal", reason="dangling-entry")
    from_get = [e for (rb, e, raw) in hb.return_defs() if rb in after_some and any(y[0] == "call" and q.same_call(y[1], g) for y in walk(e))]
    run.ob("%s|returns-the-hit" % C.HEAD, bool(from_get), g.sp, "what head returns after a hit is the frame Store::get produced", reason="head-not-newest")
    return True


def r5(run):
    hb = C.body_or_fail(run, C.HEAD)
    fm = q.live_calls(hb, "core::iter::traits::iterator::Iterator::find_map")
    if not fm:
        # the same thing spelled `.filter_map(f).next()`
        for n in q.live_calls(hb, "core::iter::traits::iterator::Iterator::next"):
            inner = strip(n.arg(0))
            if inner[0] == "call" and inner[1].fn == "core::iter::traits::iterator::Iterator::filter_map":
                fm.append(inner[1])
    if not fm and head_loop_form(run, hb):
        return
    run.exact("first-hit scans (find_map / filter_map(..).next()) in Store::head", len(fm), 1, hb.sp)
    if not fm:
        return
    c = fm[0]
    recv = strip(c.arg(0))
    chain = []
    x = recv
    while x[0] == "call":
        chain.append(x[1].fn)
        x = strip(x[2][0]) if x[2] else ("end",)
    ok = len(chain) >= 2 and chain[0] == "core::iter::traits::iterator::Iterator::rev" and chain[1] == C.PARTITION_PREFIX
    run.ob("%s|rev-prefix-scan" % C.HEAD, ok, c.sp, "head scans prefix(idx_topic, ..) in REVERSE (newest first): %s" % " <- ".join(x.split("::")[-1] for x in chain),
           reason="head-not-newest")
    # receiver type must be Rev<..> (P7, independent of the call chain)
    ty = hb.types.adaptor_chain(hb.local_ty(q.root_local(hb, c.args[0]))) if q.root_local(hb, c.args[0]) is not None else []
    run.ob("%s|receiver-type" % C.HEAD, bool(ty) and ty[0] == "core::iter::adapters::rev::Rev", c.sp, "find_map receiver type is Rev<..>: %s" % ty[:2], reason="head-not-newest")
    clo = strip(c.arg(1))
    cdef = clo[1].get("def") if clo[0] == "agg" else None
    cb = run.facts.body(cdef) if cdef else None
    if cb is None:
        run.unrecognised("%s|find_map-closure" % C.HEAD, "find_map argument is not a local closure", c.sp)
        return
    run.touch(cb)
    rets = cb.return_defs()
    ok = len(rets) == 1 and strip(rets[0][1])[0] == "call" and strip(rets[0][1])[1].fn == C.GET
    run.ob("%s|skip-dangling" % C.HEAD, ok, cb.sp, "the find_map closure yields Store::get(..) (a dangling index entry is skipped, not fatal)", reason="dangling-entry")


RULES = [
    ("R-C05-1", "insert_frame and remove key the three partitions with the same constructors", r1),
    ("R-C05-2", "one key constructor per key space: writer, remover, head and GC cannot disagree on the layout", r2),
    ("R-C05-3", "symbolic key layout: ctx||topic||0x00||id, id = last 16 bytes; ctx||id read back as [16..]", r3),
    ("R-C05-4", "a topic containing the delimiter is rejected before any commit, broadcast, GC request or Ok return", r4),
    ("R-C05-5", "head is a reverse prefix scan whose find_map skips entries whose frame is gone", r5),
    ("R-C05-6", "the context stream scans exactly [ctx, ctx+1) of the context index: it lists the frames get / the all-contexts stream "
                "hold for that context and no neighbour's (shared with R-C01-1)", rule_range_bounds),
]
