"""Combinator desugaring: closures with effects that are handed to an immediately-invoking std combinator are spliced into the
calling body, and `iter.filter(p).map(g)..for_each(f)` / `try_for_each(f)` chains become the explicit loop they denote.

A maintainer can move the body of an `if let` / `match` / `for` into `opt.map(|x| ..)`, `res.unwrap_or_else(|e| ..)`,
`flag.then(|| ..)` or `iter.try_for_each(|x| ..)` without changing behaviour.  The rules reason about dominance, ordering and
reachability of effects inside one body, so such closures are given back their place in the caller's CFG:

    d = Option::map(o, f)            =>  match o { Some(v) => d = Some(f(v)), None => d = None }
    d = Result::unwrap_or_else(r, f) =>  match r { Ok(v) => d = v, Err(e) => d = f(e) }
    d = bool::then(b, f)             =>  if b { d = Some(f()) } else { d = None }
    Iterator::for_each(src.filter(p).map(g), f)
                                     =>  loop { match src.next() { None => break, Some(x) => { if !p(&x) { continue }; f(g(x)) } } }

Only closures that contain an effect (a crate-local call, a store / channel / collection operation, a write through a `&mut`
capture) are spliced; pure projections and predicates stay closures (the rules read those as they are).  Captured variables are
rewritten to the caller's own locals, so `count += 1` inside `try_for_each` is an increment of the caller's `count`."""
import copy
from .facts import walk

from . import inline

NEXT = "core::iter::traits::iterator::Iterator::next"
ADAPTORS = {"core::iter::traits::iterator::Iterator::filter": "filter", "core::iter::traits::iterator::Iterator::map": "map",
            "core::iter::traits::iterator::Iterator::inspect": "inspect", "core::iter::traits::iterator::Iterator::take_while": "take_while"}
TERMINALS = {"core::iter::traits::iterator::Iterator::for_each": "for_each", "core::iter::traits::iterator::Iterator::try_for_each": "try_for_each"}
OPT, RES = "core::option::Option", "core::result::Result"
# combinator -> (receiver adt | 'bool', [(variant, action)])   action: ('wrap', V) d = V(f(payload)) | 'call' d = f(payload) | 'call0' d = f()
#                                                                     | 'payload' d = payload | ('rewrap', V) d = V(payload) | ('none',) d = None | ('arg', i) d = args[i]
COMBINATORS = {
    "core::option::Option::<T>::map": (OPT, {"Some": ("wrap", OPT, "Some"), "None": ("unit", OPT, "None")}),
    "core::option::Option::<T>::and_then": (OPT, {"Some": ("call",), "None": ("unit", OPT, "None")}),
    "core::option::Option::<T>::unwrap_or_else": (OPT, {"Some": ("payload",), "None": ("call0",)}),
    "core::option::Option::<T>::or_else": (OPT, {"Some": ("rewrap", OPT, "Some"), "None": ("call0",)}),
    "core::option::Option::<T>::ok_or_else": (OPT, {"Some": ("rewrap", RES, "Ok"), "None": ("wrap0", RES, "Err")}),
    "core::option::Option::<T>::map_or": (OPT, {"Some": ("call",), "None": ("arg", 1)}),
    "core::result::Result::<T, E>::map": (RES, {"Ok": ("wrap", RES, "Ok"), "Err": ("rewrap", RES, "Err")}),
    "core::result::Result::<T, E>::map_err": (RES, {"Ok": ("rewrap", RES, "Ok"), "Err": ("wrap", RES, "Err")}),
    "core::result::Result::<T, E>::and_then": (RES, {"Ok": ("call",), "Err": ("rewrap", RES, "Err")}),
    "core::result::Result::<T, E>::unwrap_or_else": (RES, {"Ok": ("payload",), "Err": ("call",)}),
    "core::result::Result::<T, E>::or_else": (RES, {"Ok": ("rewrap", RES, "Ok"), "Err": ("call",)}),
    "core::bool::<impl bool>::then": ("bool", {True: ("wrap0", OPT, "Some"), False: ("unit", OPT, "None")}),
}
ALWAYS = ("core::option::Option::<T>::map_or",)
VARIANTS = {OPT: ["None", "Some"], RES: ["Ok", "Err"], "core::ops::control_flow::ControlFlow": ["Continue", "Break"]}
EFFECT_PREFIXES = ("xs::", "xsbin::", "tokio::sync::", "std::collections::hash::", "fjall::", "cacache::", "tokio::task::", "tokio::runtime::", "std::thread::",
                   "alloc::vec::Vec::<T, A>::push", "std::sync::")


def _st(lhs, rv, sp):
    return {"k": "assign", "lhs": lhs, "rv": rv, "sp": sp, "exp": None}


def _pl(l, *proj):
    return {"l": l, "p": list(proj)}


def _goto(t, sp):
    return {"k": "goto", "t": t, "sp": sp, "exp": None}


def _agg(adt, variant, ops):
    return {"agg": "adt", "adt": adt, "variant": variant, "vidx": VARIANTS[adt].index(variant), "fields": [str(i) for i in range(len(ops))], "ga": [], "ops": ops}


def _payload(l, adt, variant):
    return _pl(l, {"dc": variant, "v": VARIANTS[adt].index(variant)}, {"f": 0, "n": "0", "adt": adt})


class Ctx:
    """Mutable view of one body's JSON while templates are instantiated."""

    def __init__(self, body):
        self.body = body
        self.aj = copy.deepcopy(body.j)
        self.types = body.types

    def new_local(self, ty, name=None):
        l = len(self.aj["locals"])
        self.aj["locals"].append({"ty": ty, "mut": True, "user": bool(name)})
        if name:
            self.aj["debug"].append({"name": name, "v": {"l": l, "p": []}, "arg": None})
        return l

    def new_block(self, stmts=None, term=None):
        self.aj["blocks"].append({"cleanup": False, "stmts": stmts or [], "term": term or {"k": "unreachable", "sp": "", "exp": None}})
        return len(self.aj["blocks"]) - 1

    def int_ty(self):
        if not hasattr(self, "_int"):
            self._int = 0
            n = len(getattr(self.types, "table", []) or [])
            for i in range(n):
                try:
                    if self.types.s(i) == "isize":
                        self._int = i
                        break
                except Exception:
                    pass
        return self._int


def closure_def(body_json, operand, _hops=0):
    """(def path, capture operands) when `operand` is a local holding a closure built by exactly one aggregate assignment."""
    pl = operand.get("move") or operand.get("copy")
    if pl is None or pl["p"]:
        return None
    found = []
    for b in body_json["blocks"]:
        if b["cleanup"]:
            continue
        for st in b["stmts"]:
            if st["k"] == "assign" and st["lhs"]["l"] == pl["l"] and not st["lhs"]["p"]:
                found.append(st["rv"])
        t = b["term"]
        if t["k"] == "call" and t["dest"]["l"] == pl["l"]:
            found.append(None)
    if len(found) == 1 and found[0] is not None and found[0].get("agg") == "closure" and found[0].get("def"):
        return found[0]["def"], found[0].get("ops", [])
    if len(found) == 1 and found[0] is not None and "use" in found[0] and _hops < 3:
        # `let f = |x| ..; it.try_for_each(f)`: the closure value moved out of its variable
        return closure_def(body_json, found[0]["use"], _hops + 1)
    return None


def effectful(facts, cb, depth=0):
    if cb is None:
        return False
    for c in cb.calls():
        if c.bb in cb.live_blocks() and (c.local or c.fn.startswith(EFFECT_PREFIXES)):
            return True
    for bi, b in enumerate(cb.blocks):
        if b["cleanup"]:
            continue
        for st in b["stmts"]:
            if st["k"] == "assign" and st["lhs"]["l"] == 1 and st["lhs"]["p"]:
                return True    # write through a captured `&mut`
    if depth < 2:
        for x in facts.closures_under(cb.def_):
            if effectful(facts, x, depth + 1):
                return True
    return False


def _single_ref_target(aj, operand):
    """If `operand` is a temp defined exactly once as `&x` / `&mut x` of a whole local, that local."""
    pl = operand.get("move") or operand.get("copy")
    if pl is None or pl["p"]:
        return None
    defs = []
    for b in aj["blocks"]:
        if b["cleanup"]:
            continue
        for st in b["stmts"]:
            if st["k"] == "assign" and st["lhs"]["l"] == pl["l"] and not st["lhs"]["p"]:
                defs.append(st["rv"])
        if b["term"]["k"] == "call" and b["term"]["dest"]["l"] == pl["l"]:
            defs.append(None)
    if len(defs) == 1 and defs[0] is not None and "ref" in defs[0] and not defs[0]["ref"]["p"]:
        return defs[0]["ref"]["l"]
    return None


def _rewrite_env(obj, env_local, arg_locals, direct):
    """Places rooted at the closure environment (`_1.i`, `(*_1).i`) -> the caller's locals."""
    if isinstance(obj, dict):
        if obj.get("l") == env_local and isinstance(obj.get("p"), list) and obj["p"]:
            p = obj["p"]
            k = 1 if p[0] == "*" else 0
            if len(p) > k and isinstance(p[k], dict) and "f" in p[k] and p[k]["f"] < len(arg_locals):
                i = p[k]["f"]
                rest = p[k + 1:]
                rest = [_rewrite_env(e, env_local, arg_locals, direct) for e in rest]
                base = {kk: _rewrite_env(v, env_local, arg_locals, direct) for kk, v in obj.items() if kk not in ("l", "p")}
                if i in direct and rest and rest[0] == "*":
                    return {**base, "l": direct[i], "p": rest[1:]}
                return {**base, "l": arg_locals[i], "p": rest}
        return {k: _rewrite_env(v, env_local, arg_locals, direct) for k, v in obj.items()}
    if isinstance(obj, list):
        return [_rewrite_env(v, env_local, arg_locals, direct) for v in obj]
    return obj


def splice_closure(ctx, cb, captures, params, dest, cont, sp):
    """Append closure body `cb` to ctx: captures / params become locals, every `return` assigns `dest` and jumps to `cont`.
    Returns the index of the entry block."""
    aj, hj = ctx.aj, cb.j
    ol, ob = len(aj["locals"]), len(aj["blocks"])
    aj["locals"] = aj["locals"] + copy.deepcopy(hj["locals"])
    arg_locals, direct, pre = [], {}, []
    for i, op in enumerate(captures):
        pl = op.get("move") or op.get("copy")
        ty = aj["locals"][pl["l"]]["ty"] if pl is not None and not pl["p"] else hj["locals"][1]["ty"]
        a = len(aj["locals"])
        aj["locals"].append({"ty": ty, "mut": False, "user": False})
        arg_locals.append(a)
        pre.append(_st(_pl(a), {"use": ({"copy": pl} if pl is not None else op)}, sp))
        tgt = _single_ref_target(aj, op)
        if tgt is not None:
            direct[i] = tgt
    for d in hj["debug"]:
        v = d["v"]
        if "l" in v and v["l"] > 1:
            aj["debug"].append({"name": d["name"], "v": inline._map_place(v, ol), "arg": None})
    blocks = [_rewrite_env(inline._map_block(b, ol, ob + 1), ol + 1, arg_locals, direct) for b in hj["blocks"]]
    for nb in blocks:
        if nb["term"]["k"] == "return":
            nb["stmts"].append(dict(_st(dest, {"use": {"move": _pl(ol)}}, sp), inlined_result=True))
            nb["term"] = dict(_goto(cont, sp), inlined_return=True)
    for j, op in enumerate(params):
        pre.append(_st(_pl(ol + 2 + j), {"use": op}, sp))
    entry = ctx.new_block(pre, _goto(ob + 1, sp))
    assert entry == ob
    aj["blocks"] += blocks
    return entry


def _branch_on(ctx, recv, adt, sp):
    """Blocks that test the receiver: returns (entry block, {variant or bool: landing block index}); landing blocks are empty gotos to fill."""
    land = {}
    if adt == "bool":
        t_b, f_b = ctx.new_block(), ctx.new_block()
        e = ctx.new_block([], {"k": "switch", "d": recv, "arms": [["0", f_b]], "otherwise": t_b, "sp": sp, "exp": None})
        return e, {True: t_b, False: f_b}
    pl = recv.get("move") or recv.get("copy")
    d = ctx.new_local(ctx.int_ty())
    vs = VARIANTS[adt]
    l0, l1 = ctx.new_block(), ctx.new_block()
    e = ctx.new_block([_st(_pl(d), {"discr": pl, "adt": adt, "variants": vs}, sp)],
                      {"k": "switch", "d": {"move": _pl(d)}, "arms": [["0", l0]], "otherwise": l1, "sp": sp, "exp": None})
    return e, {vs[0]: l0, vs[1]: l1}


def desugar_combinator(facts, body, bb):
    """New body JSON with the combinator call at block bb replaced by its match / if form, or None."""
    t = body.j["blocks"][bb]["term"]
    spec = COMBINATORS.get(t.get("fn"))
    if spec is None or t.get("t") is None or t["dest"]["p"]:
        return None
    adt, actions = spec
    args = t["args"]
    clo_i = len(args) - 1
    cd = closure_def(body.j, args[clo_i])
    if cd is None:
        return None
    cb = facts.body(cd[0])
    # (a pure closure stays a value - rules read `opt.map(|x| ..)` as an expression - except for `map_or`, which is a `match` with
    # two arms that produce the value: `last_id.map_or(Bound::Unbounded, |id| Bound::Excluded(..))`)
    if cb is None or cb.is_coroutine or not (effectful(facts, cb) or t.get("fn") in ALWAYS):
        return None
    recv = args[0]
    rpl = recv.get("move") or recv.get("copy")
    if rpl is None or rpl["p"]:
        return None
    ctx = Ctx(body)
    sp = t["sp"]
    dest, nxt = t["dest"], t["t"]
    entry, land = _branch_on(ctx, recv, adt, sp)
    for key, act in actions.items():
        lb = land[key]
        blk = ctx.aj["blocks"][lb]
        kind = act[0]
        pay = _payload(rpl["l"], adt, key) if adt != "bool" else None
        if kind == "unit":
            blk["stmts"] = [_st(dest, _agg(act[1], act[2], []), sp)]
            blk["term"] = _goto(nxt, sp)
        elif kind == "payload":
            blk["stmts"] = [_st(dest, {"use": {"move": pay}}, sp)]
            blk["term"] = _goto(nxt, sp)
        elif kind == "rewrap":
            blk["stmts"] = [_st(dest, _agg(act[1], act[2], [{"move": pay}]), sp)]
            blk["term"] = _goto(nxt, sp)
        elif kind == "arg":
            blk["stmts"] = [_st(dest, {"use": args[act[1]]}, sp)]
            blk["term"] = _goto(nxt, sp)
        elif kind in ("call", "call0"):
            params = [{"move": pay}] if kind == "call" else []
            e2 = splice_closure(ctx, cb, cd[1], params, dest, nxt, sp)
            blk["term"] = _goto(e2, sp)
        elif kind in ("wrap", "wrap0"):
            r = ctx.new_local(cb.j["locals"][0]["ty"])
            wb = ctx.new_block([_st(dest, _agg(act[1], act[2], [{"move": _pl(r)}]), sp)], _goto(nxt, sp))
            params = [{"move": pay}] if kind == "wrap" else []
            e2 = splice_closure(ctx, cb, cd[1], params, _pl(r), wb, sp)
            blk["term"] = _goto(e2, sp)
    old = ctx.aj["blocks"][bb]
    old["term"] = dict(_goto(entry, sp), desugared=t.get("fn"))
    ctx.aj.setdefault("desugared", []).append(cd[0])
    return ctx.aj, [cd[0]]


def _def_call(body, operand):
    """The call terminator that defines the local behind `operand` (single definition), with its block index."""
    pl = operand.get("move") or operand.get("copy")
    if pl is None or pl["p"]:
        return None
    ds = body.defs().get(pl["l"], [])
    if len(ds) == 1 and ds[0][0] == "call":
        return ds[0][2]
    if len(ds) == 1 and ds[0][0] == "assign" and "use" in ds[0][3]:
        return _def_call(body, ds[0][3]["use"])
    if len(ds) == 1 and ds[0][0] == "assign" and "ref" in ds[0][3] and not ds[0][3]["ref"]["p"]:
        # `try_for_each(&mut self, ..)`: the receiver is a borrow of the adaptor value
        return _def_call(body, {"move": ds[0][3]["ref"]})
    return None


def _through_ref(body, operand):
    """The operand itself, or - when it is a temporary holding `&mut x` / `&x` of a whole local - `move x`."""
    pl = operand.get("move") or operand.get("copy")
    if pl is None or pl["p"]:
        return operand
    ds = body.defs().get(pl["l"], [])
    if len(ds) == 1 and ds[0][0] == "assign" and "ref" in ds[0][3] and not ds[0][3]["ref"]["p"]:
        return {"move": ds[0][3]["ref"]}
    return operand


def desugar_iterator(facts, body, bb):
    """`src.filter(p).map(g)...for_each(f)` / `try_for_each(f)` at block bb -> explicit loop."""
    t = body.j["blocks"][bb]["term"]
    term = TERMINALS.get(t.get("fn"))
    if term is None or t.get("t") is None or t["dest"]["p"] or len(t["args"]) != 2:
        return None
    fcd = closure_def(body.j, t["args"][1])
    fb = facts.body(fcd[0]) if fcd else None
    if fb is None or fb.is_coroutine:
        return None
    chain = []      # innermost last: [(kind, closure body, captures, call site)]
    src = t["args"][0]
    while True:
        c = _def_call(body, src)
        if c is None or c.fn not in ADAPTORS or len(c.args) != 2:
            break
        cd = closure_def(body.j, c.args[1])
        cb = facts.body(cd[0]) if cd else None
        if cb is None or cb.is_coroutine:
            return None
        chain.append((ADAPTORS[c.fn], cb, cd[1], c))
        src = c.args[0]
    chain.reverse()
    src = _through_ref(body, src)
    spl = src.get("move") or src.get("copy")
    if spl is None or spl["p"]:
        return None
    if not (effectful(facts, fb) or any(effectful(facts, cb) for (_, cb, _, _) in chain)):
        return None
    ctx = Ctx(body)
    sp = t["sp"]
    dest, nxt = t["dest"], t["t"]
    aj = ctx.aj
    it = ctx.new_local(aj["locals"][spl["l"]]["ty"])
    item_ty = (chain[0][1].j["locals"][2]["ty"] if chain and chain[0][0] == "map" else fb.j["locals"][2]["ty"]) if (chain or True) else 0
    # the item type: what the source yields = parameter of the first by-value consumer; fall back to the terminal's parameter
    nx = ctx.new_local(fb.j["locals"][2]["ty"])
    x = ctx.new_local(item_ty)
    rf = ctx.new_local(aj["locals"][spl["l"]]["ty"])
    done = ctx.new_block()
    head = ctx.new_block()
    sw = ctx.new_block()
    some = ctx.new_block()
    aj["blocks"][head]["stmts"] = [_st(_pl(rf), {"ref": _pl(it), "mut": True}, sp)]
    aj["blocks"][head]["term"] = {"k": "call", "fn": NEXT, "fnx": NEXT, "ga": [], "local": False, "args": [{"move": _pl(rf)}], "dest": _pl(nx), "t": sw,
                                  "fn_sp": sp, "sp": sp, "exp": None, "desugared_next": True}
    d = ctx.new_local(ctx.int_ty())
    aj["blocks"][sw]["stmts"] = [_st(_pl(d), {"discr": _pl(nx), "adt": OPT, "variants": VARIANTS[OPT]}, sp)]
    aj["blocks"][sw]["term"] = {"k": "switch", "d": {"move": _pl(d)}, "arms": [["1", some]], "otherwise": done, "sp": sp, "exp": None}
    aj["blocks"][some]["stmts"] = [_st(_pl(x), {"use": {"move": _payload(nx, OPT, "Some")}}, sp)]
    cur_block, cur_x = some, x
    spliced = []
    for (kind, cb, caps, c) in chain:
        nb = ctx.new_block()
        if kind in ("filter", "take_while", "inspect"):
            xr = ctx.new_local(cb.j["locals"][2]["ty"])
            res = ctx.new_local(cb.j["locals"][0]["ty"])
            aj["blocks"][cur_block]["stmts"].append(_st(_pl(xr), {"ref": _pl(cur_x), "mut": False}, c.sp))
            after = ctx.new_block()
            e2 = splice_closure(ctx, cb, caps, [{"move": _pl(xr)}], _pl(res), after, c.sp)
            aj["blocks"][cur_block]["term"] = _goto(e2, c.sp)
            if kind == "inspect":
                aj["blocks"][after]["term"] = _goto(nb, c.sp)
            else:
                aj["blocks"][after]["term"] = {"k": "switch", "d": {"move": _pl(res)}, "arms": [["0", head if kind == "filter" else done]], "otherwise": nb, "sp": c.sp, "exp": None}
        else:   # map
            x2 = ctx.new_local(cb.j["locals"][0]["ty"])
            e2 = splice_closure(ctx, cb, caps, [{"move": _pl(cur_x)}], _pl(x2), nb, c.sp)
            aj["blocks"][cur_block]["term"] = _goto(e2, c.sp)
            cur_x = x2
        spliced.append(cb.def_)
        cur_block = nb
    if term == "for_each":
        u = ctx.new_local(fb.j["locals"][0]["ty"])
        e2 = splice_closure(ctx, fb, fcd[1], [{"move": _pl(cur_x)}], _pl(u), head, sp)
        aj["blocks"][cur_block]["term"] = _goto(e2, sp)
        aj["blocks"][done]["stmts"] = [_st(dest, {"agg": "tuple", "ops": []}, sp)]
        aj["blocks"][done]["term"] = _goto(nxt, sp)
    else:
        cf = ctx.new_local(fb.j["locals"][0]["ty"])
        tys = ctx.types.s(fb.j["locals"][0]["ty"])
        if "ControlFlow" in tys:
            adt, go_on = "core::ops::control_flow::ControlFlow", "Continue"
        elif tys.startswith("core::result::Result") or "result::Result<" in tys:
            adt, go_on = RES, "Ok"
        elif "option::Option<" in tys:
            adt, go_on = OPT, "Some"
        else:
            return None
        chk = ctx.new_block()
        e2 = splice_closure(ctx, fb, fcd[1], [{"move": _pl(cur_x)}], _pl(cf), chk, sp)
        aj["blocks"][cur_block]["term"] = _goto(e2, sp)
        d2 = ctx.new_local(ctx.int_ty())
        stop = ctx.new_block([_st(dest, {"use": {"move": _pl(cf)}}, sp)], _goto(nxt, sp))
        vs = VARIANTS[adt]
        aj["blocks"][chk]["stmts"] = [_st(_pl(d2), {"discr": _pl(cf), "adt": adt, "variants": vs}, sp)]
        aj["blocks"][chk]["term"] = {"k": "switch", "d": {"move": _pl(d2)}, "arms": [[str(vs.index(go_on)), head]], "otherwise": stop, "sp": sp, "exp": None}
        aj["blocks"][done]["stmts"] = [_st(dest, _agg(adt, go_on, [{"const": {"ty": 1, "s": "()", "zst": True}}]) if adt != OPT else _agg(OPT, "Some", [{"const": {"ty": 1, "s": "()", "zst": True}}]), sp)]
        aj["blocks"][done]["term"] = _goto(nxt, sp)
    spliced.append(fb.def_)
    pre = ctx.new_block([_st(_pl(it), {"use": {"move": spl}}, sp)], _goto(head, sp))
    old = aj["blocks"][bb]
    old["term"] = dict(_goto(pre, sp), desugared=t.get("fn"))
    # the adaptor calls that only built the lazy chain are dead weight now: turn them into plain forwards of their receiver
    for (kind, cb, caps, c) in chain:
        blk = aj["blocks"][c.bb]
        if blk["term"]["k"] == "call" and blk["term"].get("fn") in ADAPTORS:
            ct = blk["term"]
            blk["stmts"].append(_st(ct["dest"], {"use": ct["args"][0]}, ct["sp"]))
            blk["term"] = _goto(ct["t"], ct["sp"])
    aj.setdefault("desugared", []).extend(spliced)
    return aj, spliced


POLL_FN = "core::future::poll_fn::poll_fn"
POLL = "core::future::future::Future::poll"


def desugar_select(facts, body, bb):
    """`tokio::select! { a = F0 => H0, b = F1 => H1 }` (no `else`).  The macro hides the awaits in a `poll_fn` closure that polls
    `futures.0`, `futures.1`, .. and returns `Out::_i(value)`.  For the rules that is: one of the branch futures is awaited, which
    one is not known.  The hidden awaits are given back their place in the caller: an opaque n-way branch, then per branch the
    ordinary await skeleton `poll(&mut futures.i)` -> Ready / Pending, and `result = Out::_i(payload)`; the macro's own
    `match output { Out::_i(pat) => Hi }` follows unchanged."""
    aj0 = body.j
    t = aj0["blocks"][bb]["term"]
    if t.get("fn") != POLL_FN or "__tokio_select_util::Out" not in (t.get("fnx") or "") or t.get("t") is None or len(t["args"]) != 1:
        return None
    cd = closure_def(aj0, t["args"][0])
    cb = facts.body(cd[0]) if cd else None
    if cb is None or len(cd[1]) < 2:
        return None
    # the tuple of branch futures: a capture `&mut *futures_ref` with futures_ref = &mut futures
    tup = None
    for cap in cd[1]:
        l1 = _single_ref_target_any(aj0, cap)
        if l1 is None:
            continue
        l2 = _single_ref_target_any(aj0, {"move": {"l": l1, "p": []}})
        cand = l2 if l2 is not None else l1
        ds = [st for b in aj0["blocks"] if not b["cleanup"] for st in b["stmts"] if st["k"] == "assign" and st["lhs"]["l"] == cand and not st["lhs"]["p"]]
        if len(ds) == 1 and ds[0]["rv"].get("agg") == "tuple":
            tup = cand
    if tup is None:
        return None
    # into_future(poll_fn(..)) -> __awaitee -> loop { poll(..) }: find the poll of the PollFn and its Ready block
    b1 = aj0["blocks"][t["t"]]
    if b1["term"]["k"] != "call" or not b1["term"].get("fn", "").endswith("IntoFuture::into_future") or b1["term"].get("t") is None:
        return None
    entry = b1["term"]["t"]                       # block that moves the future into __awaitee and enters the poll loop
    if aj0["blocks"][entry]["term"]["k"] != "goto":
        return None
    poll_bb = None
    seen, todo = set(), [aj0["blocks"][entry]["term"]["t"]]
    while todo and len(seen) < 12:
        x = todo.pop()
        if x in seen:
            continue
        seen.add(x)
        tx = aj0["blocks"][x]["term"]
        if tx["k"] == "call" and tx.get("fn") == POLL and "poll_fn::PollFn" in (tx.get("fnx") or ""):
            poll_bb = x
            break
        if tx["k"] in ("goto", "call") and tx.get("t") is not None:
            todo.append(tx["t"])
    if poll_bb is None:
        return None
    pt = aj0["blocks"][poll_bb]["term"]
    pd = pt["dest"]["l"]
    ready_bb = ready_idx = None
    for bi, b in enumerate(aj0["blocks"]):
        if b["cleanup"]:
            continue
        for k, st in enumerate(b["stmts"]):
            if st["k"] == "assign" and "use" in st["rv"]:
                pl = st["rv"]["use"].get("move") or st["rv"]["use"].get("copy")
                if pl and pl["l"] == pd and len(pl["p"]) == 2 and isinstance(pl["p"][0], dict) and pl["p"][0].get("dc") == "Ready":
                    ready_bb, ready_idx, result_local = bi, k, st["lhs"]
    if ready_bb is None or result_local["p"]:
        return None
    # the Out enum and the absence of an `else` branch
    out_adt = out_variants = None
    for b in aj0["blocks"]:
        for st in b["stmts"]:
            if st["k"] == "assign" and "discr" in st["rv"] and "__tokio_select_util::Out" in (st["rv"].get("adt") or ""):
                out_adt, out_variants, sw_block = st["rv"]["adt"], st["rv"]["variants"], b
    if out_adt is None or "Disabled" not in out_variants:
        return None
    dis = str(out_variants.index("Disabled"))
    dt = [tb for v, tb in sw_block["term"].get("arms", []) if v == dis]
    if not dt:
        return None
    x, ok_no_else = dt[0], False
    for _ in range(6):
        tx = aj0["blocks"][x]["term"]
        if tx["k"] == "call" and any("no else branch" in str((a.get("const") or {}).get("str", "")) for a in tx["args"]):
            ok_no_else = True
            break
        if tx["k"] == "goto":
            x = tx["t"]
            continue
        break
    if not ok_no_else:
        return None
    # per branch: the poll the macro's closure makes on futures.i
    polls = {}
    for c in cb.calls():
        if c.fn != POLL or c.bb not in cb.live_blocks():
            continue
        idx = None
        for y in walk(c.arg(0)):
            if y[0] == "field" and isinstance(y[2], int) and any(z[0] == "env" for z in walk(y[1])):
                idx = y[2]
                break
        if idx is not None and idx not in polls:
            polls[idx] = c
    n = len(out_variants) - 1
    if sorted(polls) != list(range(n)) or n < 1:
        return None
    ctx = Ctx(body)
    aj = ctx.aj
    sp = t["sp"]
    choice = ctx.new_local(ctx.int_ty())
    head = ctx.new_block()
    firsts = []
    for i in range(n):
        c = polls[i]
        ct = c.raw
        r_ty = cb.j["locals"][ct["dest"]["l"]]["ty"] if not ct["dest"]["p"] else aj["locals"][pd]["ty"]
        ref_l = ctx.new_local(aj["locals"][pt["args"][0]["move"]["l"]]["ty"] if "move" in pt["args"][0] else 0)
        r = ctx.new_local(r_ty)
        d = ctx.new_local(ctx.int_ty())
        o = ctx.new_local(0)
        pb = ctx.new_block()
        wb = ctx.new_block()
        vb = ctx.new_block()
        aj["blocks"][pb]["stmts"] = [_st(_pl(ref_l), {"ref": _pl(tup, {"f": i, "n": None, "adt": None}), "mut": True}, sp)]
        aj["blocks"][pb]["term"] = {"k": "call", "fn": POLL, "fnx": ct.get("fnx", POLL), "ga": ct.get("ga", []), "local": False, "res": ct.get("res"), "resx": ct.get("resx"),
                                    "args": [{"move": _pl(ref_l)}, pt["args"][1]], "dest": _pl(r), "t": wb, "fn_sp": sp, "sp": sp, "exp": None, "select_branch": i}
        aj["blocks"][wb]["stmts"] = [_st(_pl(d), {"discr": _pl(r), "adt": "core::task::poll::Poll", "variants": ["Ready", "Pending"]}, sp)]
        aj["blocks"][wb]["term"] = {"k": "switch", "d": {"move": _pl(d)}, "arms": [["0", vb]], "otherwise": head, "sp": sp, "exp": None}
        aj["blocks"][vb]["stmts"] = [_st(_pl(o), {"use": {"move": _pl(r, {"dc": "Ready", "v": 0}, {"f": 0, "n": "0", "adt": "core::task::poll::Poll"})}}, sp),
                                     _st(result_local, {"agg": "adt", "adt": out_adt, "variant": out_variants[i], "vidx": i, "fields": ["0"], "ga": [], "ops": [{"move": _pl(o)}]}, sp)]
        aj["blocks"][vb]["term"] = _goto(ready_bb, sp)
        firsts.append(pb)
    aj["blocks"][head]["term"] = {"k": "switch", "d": {"copy": _pl(choice)}, "arms": [[str(i), firsts[i]] for i in range(n - 1)], "otherwise": firsts[n - 1],
                                  "sp": sp, "exp": None, "select": True}
    # the Ready block no longer reads the PollFn's result: `result` comes from the branch taken
    rb = aj["blocks"][ready_bb]
    rb["stmts"] = rb["stmts"][:ready_idx] + rb["stmts"][ready_idx + 1:]
    aj["blocks"][entry]["term"] = dict(_goto(head, sp), desugared="select")
    aj.setdefault("desugared", []).append(cb.def_)
    return aj, [cb.def_]


def _single_ref_target_any(aj, operand):
    """Like _single_ref_target, but also through a reborrow `&mut *r`: the local r."""
    pl = operand.get("move") or operand.get("copy")
    if pl is None or pl["p"]:
        return None
    defs = []
    for b in aj["blocks"]:
        if b["cleanup"]:
            continue
        for st in b["stmts"]:
            if st["k"] == "assign" and st["lhs"]["l"] == pl["l"] and not st["lhs"]["p"]:
                defs.append(st["rv"])
        if b["term"]["k"] == "call" and b["term"]["dest"]["l"] == pl["l"]:
            defs.append(None)
    if len(defs) == 1 and defs[0] is not None and "ref" in defs[0] and defs[0]["ref"]["p"] in ([], ["*"]):
        return defs[0]["ref"]["l"]
    return None


def candidates(facts, anchors):
    out = []
    for b in facts.all_bodies():
        if b.def_ not in anchors:
            continue
        live = b.live_blocks()
        for c in b.calls():
            if c.bb in live and (c.fn in COMBINATORS or c.fn in TERMINALS):
                out.append((b, c.bb, c.fn))
            elif c.bb in live and c.fn == POLL_FN and "__tokio_select_util::Out" in c.fnx:
                out.append((b, c.bb, c.fn))
    return out
