"""Fact extraction driver: builds the rustc_private extractor and runs it over /repo's
current working tree under `cargo +nightly check` (real build flags, no execution of xs)."""
import fcntl
import glob
import hashlib
import json
import os
import shutil
import subprocess
import sys
import time

VERIF = os.path.dirname(os.path.dirname(os.path.abspath(__file__)))
REPO = os.environ.get("XSV_REPO", "/repo")
CACHE = os.environ.get("XSV_CACHE", os.path.join(VERIF, ".cache"))
TARGET = os.path.join(CACHE, "target")
EXTRACT_DIR = os.path.join(VERIF, "extract")
EXTRACT_BIN = os.path.join(CACHE, "extract-target", "release", "xsv-extract")

LIB_BODY_FLOOR = 480   # 531 on the pinned tree
BIN_BODY_FLOOR = 190   # 217 on the pinned tree


class CheckerError(Exception):
    pass


def _sysroot():
    return subprocess.check_output(["rustc", "+nightly", "--print", "sysroot"], text=True).strip()


def base_env():
    env = dict(os.environ)
    env["CARGO_NET_OFFLINE"] = "true"
    env["CARGO_INCREMENTAL"] = "0"
    env.pop("RUSTC_WRAPPER", None)
    return env


def tree_hash(repo=None):
    repo = repo or REPO
    h = hashlib.sha256()
    files = []
    for root, dirs, fs in os.walk(os.path.join(repo, "src")):
        dirs.sort()
        for f in sorted(fs):
            files.append(os.path.join(root, f))
    for extra in ("Cargo.toml", "Cargo.lock", "build.rs"):
        p = os.path.join(repo, extra)
        if os.path.exists(p):
            files.append(p)
    for p in files:
        h.update(os.path.relpath(p, repo).encode())
        h.update(b"\0")
        with open(p, "rb") as fh:
            h.update(fh.read())
        h.update(b"\0")
    # the extractor's own source is part of the key: new extractor => new facts
    for p in sorted(glob.glob(os.path.join(EXTRACT_DIR, "src", "*.rs"))):
        with open(p, "rb") as fh:
            h.update(fh.read())
    return h.hexdigest()[:20]


def ensure_extractor(verbose=False):
    srcs = glob.glob(os.path.join(EXTRACT_DIR, "src", "*.rs")) + [os.path.join(EXTRACT_DIR, "Cargo.toml")]
    newest = max(os.path.getmtime(p) for p in srcs)
    if os.path.exists(EXTRACT_BIN) and os.path.getmtime(EXTRACT_BIN) >= newest:
        return
    os.makedirs(CACHE, exist_ok=True)
    with open(os.path.join(CACHE, "extractor.lock"), "w") as lk:
        fcntl.flock(lk, fcntl.LOCK_EX)
        if os.path.exists(EXTRACT_BIN) and os.path.getmtime(EXTRACT_BIN) >= newest:
            return
        env = base_env()
        env["CARGO_TARGET_DIR"] = os.path.join(CACHE, "extract-target")
        r = subprocess.run(["cargo", "+nightly", "build", "--release", "--offline"], cwd=EXTRACT_DIR, env=env,
                           stdout=subprocess.PIPE, stderr=subprocess.STDOUT, text=True)
        if r.returncode != 0:
            raise CheckerError("extractor build failed:\n" + r.stdout[-4000:])
        os.utime(EXTRACT_BIN, None)


def _run_cargo(repo, out_dir, stage, target):
    env = base_env()
    env["LD_LIBRARY_PATH"] = os.path.join(_sysroot(), "lib") + ":" + env.get("LD_LIBRARY_PATH", "")
    env["RUSTFLAGS"] = "-Zmir-opt-level=0 -Awarnings"
    env["RUSTC_WORKSPACE_WRAPPER"] = EXTRACT_BIN
    env["XSV_OUT"] = out_dir
    env["XSV_STAGE"] = str(stage)
    env["CARGO_TARGET_DIR"] = target
    # a warm target dir would replay cached output and skip the wrapper: drop the member's fingerprints
    for fp in glob.glob(os.path.join(target, "debug", ".fingerprint", "cross-stream-*")):
        shutil.rmtree(fp, ignore_errors=True)
    r = subprocess.run(["cargo", "+nightly", "check", "--offline", "--lib", "--bins"], cwd=repo, env=env,
                       stdout=subprocess.PIPE, stderr=subprocess.STDOUT, text=True)
    return r


def facts_dir(repo=None, stage=1, target=None):
    """Return the directory holding fact files for the current tree of `repo`, extracting if needed."""
    repo = repo or REPO
    target = target or TARGET
    ensure_extractor()
    th = tree_hash(repo)
    d = os.path.join(CACHE, "facts", th)
    os.makedirs(d, exist_ok=True)
    suffix = "" if stage == 1 else "-s2"
    want = [os.path.join(d, "xs-lib%s.json" % suffix), os.path.join(d, "xs-bin%s.json" % suffix)]
    okfile = os.path.join(d, "ok%s" % suffix)
    lockname = "extract-%s.lock" % hashlib.sha1(target.encode()).hexdigest()[:10]
    with open(os.path.join(CACHE, lockname), "w") as lk:
        fcntl.flock(lk, fcntl.LOCK_EX)
        if os.path.exists(okfile) and all(os.path.exists(w) for w in want):
            try:
                os.utime(d)          # a cache entry in use is not an old one (pruning goes by mtime)
            except OSError:
                pass
            return d
        failfile = os.path.join(d, "build-failed%s.txt" % suffix)
        if os.path.exists(failfile):
            raise CheckerError("cargo check of %s failed (cached):\n%s" % (repo, open(failfile).read()[-3000:]))
        for w in want:
            if os.path.exists(w):
                os.remove(w)
        t0 = time.time()
        r = _run_cargo(repo, d, stage, target)
        if r.returncode != 0:
            with open(failfile, "w") as fh:
                fh.write(r.stdout)
            raise CheckerError("cargo check of %s failed:\n%s" % (repo, r.stdout[-3000:]))
        missing = [w for w in want if not os.path.exists(w)]
        if missing:
            raise CheckerError("extractor did not run (cargo skipped the wrapper?): missing %s\n%s" % (missing, r.stdout[-2000:]))
        with open(okfile, "w") as fh:
            fh.write("%.1f\n" % (time.time() - t0))
        _prune_old_facts(keep=d)
    return d


def _prune_old_facts(keep, max_keep=420, min_age_s=3600):
    root = os.path.join(CACHE, "facts")
    now = time.time()
    try:
        ds = [os.path.join(root, x) for x in os.listdir(root)]
        ds = [x for x in ds if os.path.isdir(x) and x != keep]
        ds.sort(key=os.path.getmtime, reverse=True)
        for x in ds[max_keep:]:
            if now - os.path.getmtime(x) > min_age_s:
                shutil.rmtree(x, ignore_errors=True)
    except OSError:
        pass


def setup():
    ensure_extractor(verbose=True)
    d = facts_dir()
    print("facts:", d)
