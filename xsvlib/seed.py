"""Evaluate a seeded change: apply the patch to /repo, run every quick check, undo the patch."""
import json
import os
import subprocess
import sys

from . import extract, manifest


def seed_eval(patch, props=None):
    patch = os.path.abspath(patch)
    repo = extract.REPO
    from .variant import repo_state_lock
    lock = repo_state_lock(True)
    st = subprocess.run(["git", "-C", repo, "status", "--porcelain", "--untracked-files=no"], stdout=subprocess.PIPE, text=True).stdout.strip()
    if st:
        print("refusing: /repo has local modifications:\n" + st)
        return 2, {}
    r = subprocess.run(["git", "-C", repo, "apply", patch], stdout=subprocess.PIPE, stderr=subprocess.STDOUT, text=True)
    if r.returncode != 0:
        print("patch does not apply to /repo:", r.stdout)
        return 2, {}
    results = {}
    try:
        for p in props or manifest.ALL:
            rr = subprocess.run([os.path.join(extract.VERIF, "xsv"), "check", p, "--tier", "quick"], cwd=extract.VERIF, stdout=subprocess.PIPE, stderr=subprocess.STDOUT, text=True,
                                env=dict(os.environ, XSV_NO_EVIDENCE="1"))
            keys = [l.split("construct=", 1)[1].strip() for l in rr.stdout.splitlines() if "construct=" in l]
            results[p] = {"exit": rr.returncode, "fired": keys}
            if rr.returncode == 2:
                results[p]["error"] = rr.stdout[-400:]
    finally:
        # reverse-apply (removes the files the patch added too: /repo's .gitignore hides new files under src/store from git)
        u = subprocess.run(["git", "-C", repo, "apply", "-R", patch], stdout=subprocess.PIPE, stderr=subprocess.STDOUT, text=True)
        if u.returncode != 0:
            subprocess.run(["git", "-C", repo, "checkout", "--", "."], check=False)
        lock.close()
    return 0, results


def main(argv):
    patch = argv[0]
    rc, res = seed_eval(patch, argv[1:] or None)
    if rc:
        return rc
    fired = {p: r["fired"] for p, r in res.items() if r["exit"] == 1}
    errors = {p: r for p, r in res.items() if r["exit"] == 2}
    print(json.dumps({"fired": fired, "errors": errors}, indent=1))
    return 0
