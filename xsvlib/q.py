"""Query primitives shared by the rules (P1..P8 of DESIGN.md)."""
from .facts import (FactError, walk, strip, fmt, place_path, calls_in, const_strs, consts_in, agg_is, is_call,
                    PASS_THROUGH_FNS)

REL_BIN = {"Eq": "eq", "Ne": "ne", "Lt": "lt", "Le": "le", "Gt": "gt", "Ge": "ge"}
REL_CALL = {
    "core::cmp::PartialEq::eq": "eq", "core::cmp::PartialEq::ne": "ne",
    "core::cmp::PartialOrd::lt": "lt", "core::cmp::PartialOrd::le": "le",
    "core::cmp::PartialOrd::gt": "gt", "core::cmp::PartialOrd::ge": "ge",
}
NEG = {"eq": "ne", "ne": "eq", "lt": "ge", "ge": "lt", "le": "gt", "gt": "le"}
SWAP = {"eq": "eq", "ne": "ne", "lt": "gt", "gt": "lt", "le": "ge", "ge": "le"}


def comparison(cond):
    """(rel, lhs, rhs) for a boolean condition expression, or None."""
    if cond[0] == "bin" and cond[1] in REL_BIN:
        return (REL_BIN[cond[1]], cond[2], cond[3])
    if cond[0] == "call" and cond[1].fn in REL_CALL and len(cond[2]) == 2:
        return (REL_CALL[cond[1].fn], cond[2][0], cond[2][1])
    c = strip(cond)
    if c[0] == "call" and c[1].fn in OPTION_AND and len(c[2]) == 2:
        return _comparison_in_closure(c)
    return None


# `opt.is_some_and(|x| a REL x)`: the nested `if let Some(x) = opt { if a REL x {..} }` in one expression.  Read as the comparison
# with x = the payload and the captures replaced by what was captured; as with the nested form, the false edge also stands for None.
OPTION_AND = {"core::option::Option::<T>::is_some_and": "Some", "core::result::Result::<T, E>::is_ok_and": "Ok"}


def _comparison_in_closure(c, depth=0):
    clo = strip(c[2][1])
    if clo[0] != "agg" or clo[1].get("agg") != "closure" or not clo[1].get("def") or depth > 2:
        return None
    cb = None
    for cr in getattr(c[1].body.crate, "siblings", [c[1].body.crate]):
        cb = cb or cr.bodies.get(clo[1]["def"])
    if cb is None or cb.is_coroutine:
        return None
    rets = cb.return_defs()
    if len(rets) != 1:
        return None
    inner = comparison(rets[0][1])
    if not inner:
        return None
    names = [cap.get("name") for cap in cb.captures]
    payload = ("field", ("downcast", c[2][0], OPTION_AND[c[1].fn]), 0)

    def sub(e):
        if isinstance(e, tuple):
            if len(e) >= 2 and e[0] == "arg" and e[1] == 2:
                return payload
            if len(e) == 3 and e[0] == "field" and e[1] == ("env",) and str(e[2]) in names and names.index(str(e[2])) < len(clo[2]):
                return clo[2][names.index(str(e[2]))]
            return tuple(sub(x) for x in e)
        if isinstance(e, list):
            return [sub(x) for x in e]
        return e

    return (inner[0], sub(inner[1]), sub(inner[2]))


def rel_on_edge(rel, truth):
    return rel if truth else NEG[rel]


def same_call(a, b):
    return a.body is b.body and a.bb == b.bb


# ------------------------------------------------------------------ CFG queries

def reaches(body, src_bbs, dst_bb, removed_blocks=(), removed_edges=()):
    """Is dst reachable from any of src (after leaving src) on a normal path avoiding the removed items?"""
    if isinstance(src_bbs, int):
        src_bbs = [src_bbs]
    for s in src_bbs:
        if dst_bb in body.reach_after(s, removed_blocks, removed_edges):
            return True
    return False


def entry_reaches(body, dst_bb, removed_blocks=(), removed_edges=()):
    if dst_bb == 0 and 0 not in set(removed_blocks):
        return True
    return dst_bb in body.reachable_blocks(0, removed_blocks, removed_edges)


def implied_edges(body, via_blocks=(), via_edges=()):
    """Edges that can only be taken after one of via_blocks / via_edges was passed, because of the VALUE they test:
    the true edge of `if flag` where every definition of the bool local `flag` other than a constant `false` lies behind the given
    edges (`let is_reg = a == x && b == y; .. if is_reg {..}`: the true edge implies the `a == x` test succeeded); dually for false."""
    edges = list(via_edges)
    for _ in range(3):
        added = False
        for bb, si in body.switches():
            if si["kind"] != "bool":
                continue
            c = strip(si["cond"])
            if c[0] != "phi" or len(c) < 4:
                continue
            ds = body.defs().get(c[1], [])
            if not ds or not all(d[0] in ("assign", "call") for d in ds) or c[1] in body.mut_borrowed():
                continue
            for value in (True, False):
                es = [(bb, t, lab) for (t, lab, m) in si["edges"] if m is value]
                if not es or all(e in edges for e in es):
                    continue
                ok = True
                n_other = 0
                for d in ds:
                    rv = d[3] if d[0] == "assign" else None
                    is_const = rv is not None and "use" in rv and "const" in rv["use"] and "bool" in rv["use"]["const"]
                    if is_const and bool(rv["use"]["const"]["bool"]) != value:
                        continue        # this definition cannot produce `value`
                    n_other += 1
                    if d[1] in set(via_blocks):
                        continue
                    if entry_reaches(body, d[1], via_blocks, edges):
                        ok = False
                        break
                if ok and n_other:
                    edges += es
                    added = True
        if not added:
            break
    return edges


def dominated(body, dst_bb, via_blocks=(), via_edges=()):
    """Every normal path from entry to dst passes through one of via_blocks / via_edges (or through an edge that, by the value
    it tests, can only be taken after one of them: see implied_edges)."""
    if dst_bb in set(via_blocks):
        return True
    if not entry_reaches(body, dst_bb, via_blocks, via_edges):
        return True
    if via_edges or via_blocks:
        more = implied_edges(body, via_blocks, via_edges)
        if len(more) > len(list(via_edges)):
            return not entry_reaches(body, dst_bb, via_blocks, more)
    return False


def implied_by_same_test(body, tests, via_edges):
    """tests: [(bb, true_edges, false_edges)] of switches known to decide the SAME condition on operands nothing writes in between
    (the caller vouches for that).  When test S1 dominates test S2, S2 can only take its true edge after S1 took its true edge
    (same for false); if from S1's edge every path to S2 passes one of via_edges, S2's edge is behind via_edges too.
    Returns via_edges plus the edges so implied."""
    edges = list(via_edges)
    for _ in range(3):
        added = False
        for (bb1, t1, f1) in tests:
            for (bb2, t2, f2) in tests:
                if bb1 == bb2 or not dominated(body, bb2, via_blocks=[bb1]):
                    continue
                for (e1s, e2s) in ((t1, t2), (f1, f2)):
                    if not e1s or not e2s or all(e in edges for e in e2s):
                        continue
                    starts = [e[1] for e in e1s if e not in edges]
                    if not starts or bb2 not in body.reachable_blocks(starts, removed_edges=edges):
                        edges += [e for e in e2s if e not in edges]
                        added = True
        if not added:
            break
    return edges


def comparison_true_only(cond):
    """For `if flag` with flag = phi(false | .. | <a REL b>): the comparison that is known to hold on the TRUE edge (the false edge
    says nothing about it).  None when `cond` is not of that shape."""
    c = strip(cond)
    if c[0] != "phi" or len(c) < 4:
        return None
    others = []
    for alt in c[3]:
        a = strip(alt)
        if a[0] == "const" and a[1].get("bool") is False:
            continue
        others.append(a)
    if len(others) != 1:
        return None
    return comparison(others[0])


def edge_triples(body, bb, meaning_pred):
    """Edges (bb, target, label) of the switch at bb whose `meaning` satisfies the predicate."""
    si = body.switch_info(bb)
    out = []
    if not si:
        return out
    for (t, lab, m) in si["edges"]:
        if meaning_pred(m):
            out.append((bb, t, lab))
    return out


def other_edges(body, bb, edges):
    si = body.switch_info(bb)
    return [(bb, t, lab) for (t, lab, m) in si["edges"] if (bb, t, lab) not in set(edges)]


def find_switches(body, pred):
    """[(bb, switch_info)] for switches whose condition expression satisfies pred(cond, info)."""
    out = []
    for bb, si in body.switches():
        try:
            if pred(si["cond"], si):
                out.append((bb, si))
        except Exception:
            continue
    return out


def live_calls(body, *names, prefix=None):
    live = body.live_blocks()
    return [c for c in body.calls_to(*names, prefix=prefix) if c.bb in live]


def call_result_edges(body, call, ok=True):
    """Edges taken when the Result/Option returned by `call` is Ok/Some (ok=True) or Err/None (ok=False).
    Recognised idioms: `?` (Try::branch -> Continue/Break), match / if let on the result discriminant,
    is_ok()/is_err()/is_some()/is_none() tests."""
    edges = []
    pos = ("Ok", "Some", "Continue")
    neg = ("Err", "None", "Break")
    for bb, si in body.switches():
        cond = si["cond"]
        if si["kind"] == "variant":
            root = unawait(cond)
            # through Try::branch
            via_try = False
            if root[0] == "call" and root[1].fn == "core::ops::try_trait::Try::branch":
                root = unawait(root[2][0])
                via_try = True
            hit = root[0] == "call" and same_call(root[1], call)
            if not hit and root[0] == "phi":
                # the tested Result is one of several alternatives (e.g. the return value of an inlined helper)
                for alt in flatten_phi(root):
                    a = unawait(alt)
                    if a[0] == "call" and a[1].fn == "core::ops::try_trait::Try::branch":
                        a = unawait(a[2][0])
                    if a[0] == "call" and same_call(a[1], call):
                        hit = True
            if hit:
                for (t, lab, m) in si["edges"]:
                    ms = m if isinstance(m, tuple) else (m,)
                    good = all(x in pos for x in ms) and ms
                    bad = all(x in neg for x in ms) and ms
                    if ok and good:
                        edges.append((bb, t, lab))
                    if (not ok) and bad:
                        edges.append((bb, t, lab))
        elif si["kind"] == "bool":
            c = cond
            if c[0] == "call" and c[1].fn in ("core::result::Result::<T, E>::is_err", "core::result::Result::<T, E>::is_ok",
                                              "core::option::Option::<T>::is_some", "core::option::Option::<T>::is_none"):
                inner = unawait(c[2][0])
                if inner[0] == "call" and same_call(inner[1], call):
                    positive_fn = c[1].fn.endswith(("is_ok", "is_some"))
                    for (t, lab, m) in si["edges"]:
                        is_okedge = (m is True) == positive_fn
                        if is_okedge == ok:
                            edges.append((bb, t, lab))
    return edges


# ------------------------------------------------------------------ expression queries

def mentions(e, pred):
    return any(pred(x) for x in walk(e))


def field_names(e):
    return [x[2] for x in walk(e) if x[0] == "field"]


def has_field(e, name):
    return any(x[0] == "field" and x[2] == name for x in walk(e))


def leaf_places(e):
    """Place paths (lists) of all plain places appearing in e."""
    out = []
    for x in walk(e):
        if x[0] in ("field",):
            p = place_path(x)
            if p:
                out.append(p)
    return out


def is_const_named(e, def_suffix):
    e = strip(e)
    return e[0] == "const" and (e[1].get("uneval", "").endswith(def_suffix))


def const_int(e):
    e = strip(e)
    if e[0] == "const" and "int" in e[1]:
        return int(e[1]["int"])
    return None


def bool_atom(cond):
    """(atom, polarity): `cond` with `!x`, `x == true/false`, `x != true/false` peeled; cond is true exactly when atom == polarity."""
    x, pol = strip(cond), True
    for _ in range(6):
        if x[0] == "un" and x[1] == "Not":
            x, pol = strip(x[2]), not pol
            continue
        cm = comparison(x)
        if cm and cm[0] in ("eq", "ne"):
            done = False
            for a, b in ((cm[1], cm[2]), (cm[2], cm[1])):
                kb = strip(b)
                if kb[0] == "const" and "bool" in kb[1]:
                    same = bool(kb[1]["bool"]) == (cm[0] == "eq")
                    x, pol = strip(a), (pol if same else not pol)
                    done = True
                    break
            if done:
                continue
        break
    return x, pol


def bool_under(e, cond, value):
    """Truth value of the bool expression `e` given that `cond` evaluates to `value` (True / False / None = unknown).
    Handles constants, `!x`, and expressions structurally identical to the assumed condition (same call site for calls)."""
    x = strip(e)
    c = strip(cond)
    if x[0] == "const" and "bool" in x[1]:
        return bool(x[1]["bool"])
    if x[0] == "un" and x[1] == "Not":
        v = bool_under(x[2], cond, value)
        return None if v is None else (not v)
    if x[0] == "call" and c[0] == "call":
        if same_call(x[1], c[1]) or (x[1].fn == c[1].fn and x[1].fn_sp == c[1].fn_sp):
            return value
        return None
    if fmt(x) == fmt(c) and x[0] != "call":
        return value
    return None


def callee_is(e, *names):
    return e[0] == "call" and (e[1].fn in names or (e[1].res in names if e[1].res else False))


def same_place(a, b):
    pa, pb = place_path(strip(a)), place_path(strip(b))
    return pa is not None and pa == pb


def awaited(e):
    """If e is the value of `X.await` (poll(...) as Ready).0 return the expression X, else None."""
    if e[0] == "field" and e[1][0] == "downcast" and e[1][2] == "Ready":
        c = e[1][1]
        if c[0] == "call" and (c[1].fn == "core::future::future::Future::poll" or "{closure" in c[1].fn):
            return strip(c[2][0])
    return None


def unawait(e):
    """Peel refs/pass-through calls and awaits: returns the innermost producing expression."""
    n = 0
    while n < 50:
        n += 1
        e = strip(e)
        a = awaited(e)
        if a is None:
            return e
        e = a
    return e


def through_try(e):
    """Value of `X?`  ((Try::branch(X) as Continue).0) -> X ; otherwise e."""
    e0 = e
    if e[0] == "field" and e[1][0] == "downcast" and e[1][2] == "Continue":
        c = e[1][1]
        if c[0] == "call" and c[1].fn == "core::ops::try_trait::Try::branch":
            return c[2][0]
    return e0


def peel(e):
    """strip + await + `?` + Some(..)/Ok(..) payloads, repeatedly: the producing expression of a value."""
    n = 0
    while n < 60:
        n += 1
        e1 = strip(e)
        a = awaited(e1)
        if a is not None:
            e = a
            continue
        t = through_try(e1)
        if t is not e1:
            e = t
            continue
        if e1[0] == "field" and e1[1][0] == "downcast" and e1[1][2] in ("Some", "Ok"):
            e = e1[1][1]
            continue
        if e1[0] == "agg" and e1[1].get("agg") == "adt" and e1[1].get("variant") in ("Some", "Ok") and len(e1[2]) == 1:
            e = e1[2][0]
            continue
        return e1
    return strip(e)


def origins(e, limit=400):
    """Flow-insensitive set of leaf producers of a value: peels pass-through wrappers and unions phi alternatives."""
    out = []
    stack = [e]
    n = 0
    tried = False
    while stack and n < limit:
        n += 1
        x0 = stack.pop()
        if not tried and any(y[0] == "call" and y[1].fn == "core::ops::try_trait::Try::branch" for y in walk(strip(x0))):
            tried = True
        x = peel(x0)
        if x[0] == "phi":
            stack.extend(x[3])
        elif x[0] == "field" and isinstance(x[2], (int, str)) and str(x[2]).isdigit() and strip(x[1])[0] != "downcast" and n < limit - 50:
            # `(a, b).0` where the tuple is what a helper / `?` produced on several paths: the component of each alternative
            i = int(x[2])
            for s_ in origins(x[1], 60):
                if s_[0] == "agg" and s_[1].get("agg") == "tuple" and i < len(s_[2]):
                    stack.append(s_[2][i])
                elif s_[0] == "call" and s_[1].fn == "core::ops::try_trait::FromResidual::from_residual":
                    tried = True
                    out.append(s_)
                else:
                    out.append(("field", s_, x[2]))
        else:
            out.append(x)
    if tried and len(out) > 1:
        # the value of `X?` never comes from an error path: `from_residual(..)` alternatives of X are what the OTHER edge returns
        keep = [o for o in out if not (o[0] == "call" and o[1].fn == "core::ops::try_trait::FromResidual::from_residual")]
        if keep:
            out = keep
    return out


# ------------------------------------------------------------------ locks (P5)

# blocking acquisition of an exclusive guard: std (a `LockResult`, followed through unwrap / expect), parking_lot (lock_api; the guard
# itself), tokio's mutex from synchronous code
LOCK_FNS = ("std::sync::poison::mutex::Mutex::<T>::lock", "std::sync::poison::rwlock::RwLock::<T>::write",
            "lock_api::mutex::Mutex::<R, T>::lock", "lock_api::rwlock::RwLock::<R, T>::write", "tokio::sync::mutex::Mutex::<T>::blocking_lock")
SHARED_LOCK_TYPES = ("alloc::sync::Arc<std::sync::poison::mutex::Mutex<", "alloc::sync::Arc<std::sync::poison::rwlock::RwLock<",
                     "alloc::sync::Arc<lock_api::mutex::Mutex<", "alloc::sync::Arc<lock_api::rwlock::RwLock<", "alloc::sync::Arc<tokio::sync::mutex::Mutex<")


def lock_guards(body):
    """[(lock_call, guard_local, acquire_bb, lock_place_path)] for std Mutex::lock / RwLock::write whose
    guard is bound to a local (named or temporary)."""
    out = []
    for c in live_calls(body, *LOCK_FNS):
        recv = strip(c.arg(0))
        path = place_path(recv)
        # follow the Result through unwrap/expect to the guard local
        dest = c.dest
        guard_local, acq_bb = None, c.bb
        if not dest["p"]:
            cur = dest["l"]
            hops = 0
            while hops < 4:
                hops += 1
                users = [u for u in body.calls() if any(("move" in a and a["move"]["l"] == cur and not a["move"]["p"]) for a in u.args)]
                users = [u for u in users if u.fn in ("core::result::Result::<T, E>::unwrap", "core::result::Result::<T, E>::expect",
                                                      "core::result::Result::<T, E>::unwrap_or_else")]
                if not users or users[0].dest["p"]:
                    break
                cur = users[0].dest["l"]
                acq_bb = users[0].bb
            guard_local = cur
        out.append((c, guard_local, acq_bb, path))
    return out


def release_blocks(body, guard_local):
    """[(bb, kind)] where the guard local is dropped ('term') or moved away ('stmt' = moved into a temporary
    by a statement, 'term' = moved by the terminator itself)."""
    out = []
    for bi in body.normal_blocks():
        blk = body.blocks[bi]
        for st in blk["stmts"]:
            if st["k"] == "assign" and "use" in st["rv"]:
                mv = st["rv"]["use"].get("move")
                if mv and mv["l"] == guard_local and not mv["p"]:
                    out.append((bi, "stmt"))
        t = blk["term"]
        if t["k"] == "drop" and t["place"]["l"] == guard_local and not t["place"]["p"]:
            out.append((bi, "term"))
        elif t["k"] == "call":
            for a in t["args"]:
                if "move" in a and a["move"]["l"] == guard_local and not a["move"]["p"]:
                    out.append((bi, "term"))
    return out


def held_at(body, acquire_bb, guard_local, site_bb):
    """Guard acquired at acquire_bb is held at the terminator of site_bb on all normal paths:
    (a) acquisition dominates the site, (b) no release point can reach the site."""
    if not dominated(body, site_bb, via_blocks=[acquire_bb]) or site_bb == acquire_bb:
        return False, "acquisition does not dominate the site"
    for (r, kind) in release_blocks(body, guard_local):
        if (r == site_bb and kind == "stmt") or reaches(body, r, site_bb):
            return False, "released at bb%d (%s) before the site" % (r, body.blocks[r]["term"]["sp"])
    return True, ""


# ------------------------------------------------------------------ bon builder typestate (P7)

def builder_state(call):
    """For a call to XBuilder::<S>::build / a setter, return the list of 'Set'/'Unset' markers of the
    typestate tuple S (from the concrete generic args)."""
    types = call.body.types
    flat = []
    for a in call.ga:
        if isinstance(a, int):
            t = types.get(a)
            if t["k"] == "adt" and t["n"].startswith("bon::private::"):
                flat.append(t["n"].split("::")[-1])
    if flat and len(flat) == len([a for a in call.ga if isinstance(a, int)]):
        return flat
    for a in call.ga:
        if isinstance(a, int):
            t = types.get(a)
            if t["k"] == "tuple":
                out = []
                for m in t["a"]:
                    mt = types.get(m)
                    if mt["k"] == "adt" and mt["n"].startswith("bon::private::"):
                        out.append(mt["n"].split("::")[-1])
                    else:
                        out.append("?")
                return out
    return None


def builder_chain(e):
    """Walk a bon builder chain expression from the `build()` call inward.
    Returns (start_call, [(setter_name, arg_expr)...]) with setters in source order."""
    chain = []
    cur = strip(e)
    n = 0
    start = None
    while cur[0] == "call" and n < 30:
        n += 1
        c = cur[1]
        name = c.fn.split("::")[-1]
        if "Builder" in c.fn and name == "build":
            cur = strip(cur[2][0])
            continue
        if "Builder" in c.fn and len(cur[2]) >= 1:
            chain.append((name, cur[2][1] if len(cur[2]) > 1 else None, c))
            cur = strip(cur[2][0])
            continue
        if name == "builder":
            start = cur
        break
    chain.reverse()
    return start, chain


# ------------------------------------------------------------------ local identity / byte-string builder (P10)

def root_local(body, operand, max_hops=12):
    """Follow an operand through reference/copy temporaries to the local that owns the storage."""
    p = operand.get("copy") or operand.get("move")
    if not p:
        return None
    l = p["l"]
    for _ in range(max_hops):
        if 1 <= l <= body.argc:
            return l
        ds = body.defs().get(l, [])
        if len(ds) == 1 and ds[0][0] == "assign":
            rv = ds[0][3]
            if "ref" in rv:
                l = rv["ref"]["l"]
                continue
            if "use" in rv and ("copy" in rv["use"] or "move" in rv["use"]) and (body.lname(l) is None or body.local_tystr(l).startswith("&")):
                # only unnamed temporaries are looked through: a named user variable owns its storage
                # (unless it is itself a reference, e.g. the `&mut Frame` parameter of a spliced helper)
                pl = rv["use"].get("copy") or rv["use"].get("move")
                if not [x for x in pl["p"] if x != "*"]:
                    l = pl["l"]
                    continue
        return l
    return l


def move_aliases(body, l):
    """l and every local that receives the WHOLE value of l (or of such a local) by a single-definition `x = move y`: the same
    object under another name (e.g. the by-value parameter of a spliced helper)."""
    out = {l}
    grew = True
    while grew:
        grew = False
        for x, ds in body.defs().items():
            if x in out or len(ds) != 1 or ds[0][0] != "assign" or "use" not in ds[0][3]:
                continue
            pl = ds[0][3]["use"].get("move")
            if pl is not None and not pl["p"] and pl["l"] in out:
                out.add(x)
                grew = True
    return out


def dominance_sorted(body, bbs):
    """Sort blocks so that earlier ones dominate later ones; raises FactError if not a chain."""
    bbs = list(bbs)
    out = sorted(bbs, key=lambda b: len([x for x in bbs if x != b and dominated(body, b, via_blocks=[x])]))
    for i in range(len(out) - 1):
        if not dominated(body, out[i + 1], via_blocks=[out[i]]):
            raise FactError("mutation sites bb%d / bb%d are not totally ordered by dominance" % (out[i], out[i + 1]))
    return out


VEC_INIT = ("alloc::vec::Vec::<T>::with_capacity", "alloc::vec::Vec::<T>::new", "alloc::slice::<impl [T]>::to_vec")
VEC_APPEND = {
    "core::iter::traits::collect::Extend::extend": "extend",
    "alloc::vec::Vec::<T, A>::push": "push",
    "alloc::vec::Vec::<T, A>::extend_from_slice": "extend",
}


def vec_segments(body, local, _depth=0):
    """Symbolic content of a Vec<u8> local: [('seg', kind, expr)] in construction order.
    kind: 'bytes' (extend/to_vec of a byte view of expr) | 'push' (one element)."""
    ds = body.defs().get(local, [])
    if len(ds) != 1:
        raise FactError("byte-vector local _%d has %d definitions" % (local, len(ds)))
    segs = []
    d = ds[0]
    moved_from = None
    if d[0] == "assign" and "use" in d[3] and _depth < 3:
        # `let mut v = <vector built elsewhere>` (a temporary holding a call result, or the vector a spliced helper filled):
        # what was put into the source comes first, then what is appended to v itself
        pl = d[3]["use"].get("move")
        if pl is not None and not pl["p"] and len(body.defs().get(pl["l"], [])) == 1:
            moved_from = pl["l"]
    if moved_from is not None:
        segs = list(vec_segments(body, moved_from, _depth + 1))
    elif d[0] == "call":
        c = d[2]
        if c.fn in ("alloc::vec::Vec::<T>::with_capacity", "alloc::vec::Vec::<T>::new"):
            pass
        elif c.fn == "alloc::slice::<impl [T]>::to_vec":
            segs.append(("bytes", c.arg(0), c))
        elif c.local:
            # a crate-local constructor returning a Vec: opaque segment named by the callee
            segs.append(("call", ("call", c, c.arg_exprs()), c))
        else:
            raise FactError("byte-vector local _%d initialised by unrecognised call %s" % (local, c.fn))
    elif d[0] == "assign" and "repeat" in d[3]:
        # a fixed-size stack buffer `let mut key = [0u8; N]` filled by `key[a..b].copy_from_slice(src)`: segments by offset
        return array_segments(body, local)
    else:
        raise FactError("byte-vector local _%d not initialised by a call" % local)
    muts = []
    for c in body.calls():
        if c.bb not in body.live_blocks():
            continue
        key = c.fn if c.fn in VEC_APPEND else None
        if key is None:
            continue
        if root_local(body, c.args[0]) == local:
            muts.append(c)
    order = dominance_sorted(body, [d[1]] + [c.bb for c in muts])
    by_bb = {c.bb: c for c in muts}
    for bb in order[1:]:
        c = by_bb[bb]
        segs.append(("bytes" if VEC_APPEND[c.fn] == "extend" else "push", c.arg(1), c))
    return segs


def array_segments(body, local):
    """Content of a `[u8; N]` buffer written by `buf[range].copy_from_slice(src)` calls, as byte segments ordered by offset.
    Every write must be unconditional with respect to the others (a chain by dominance) and the ranges must tile the prefix
    they cover without overlap; the tail never written stays zero and is reported as a ('zero', n) segment by the caller's slice."""
    writes = []
    for c in body.calls():
        if c.bb not in body.live_blocks() or c.fn != "core::slice::<impl [T]>::copy_from_slice":
            continue
        dst = strip(c.arg(0), ())
        n = 0
        while dst[0] in ("ref", "deref") and n < 6:
            dst = dst[1]
            n += 1
        if dst[0] != "call" or not dst[1].fn.endswith("::index_mut") or root_local(body, dst[1].args[0]) != local:
            continue
        rng = strip(dst[2][1])
        if rng[0] != "agg":
            raise FactError("stack buffer _%d is written through a non-constant range" % local)
        adt = rng[1].get("adt", "")
        nums = [const_int(x) for x in rng[2]]
        if any(v is None for v in nums):
            raise FactError("stack buffer _%d is written through a non-constant range" % local)
        if adt.endswith("RangeTo"):
            lo, hi = 0, nums[0]
        elif adt.endswith("RangeFrom"):
            lo, hi = nums[0], None
        elif adt.endswith("RangeFull"):
            lo, hi = 0, None
        elif adt.endswith("::Range"):
            lo, hi = nums[0], nums[1]
        else:
            raise FactError("stack buffer _%d: unrecognised range %s" % (local, adt))
        writes.append((lo, hi, c))
    writes.sort(key=lambda w: w[0])
    for (a, b_) in zip(writes, writes[1:]):
        if a[1] is None or a[1] != b_[0]:
            raise FactError("stack buffer _%d: the written ranges do not tile (%s, %s)" % (local, a[:2], b_[:2]))
    dominance_sorted(body, [w[2].bb for w in writes])     # raises when a write is conditional with respect to another
    return [("bytes", w[2].arg(1), w[2]) for w in writes]


def subst_args(e, arg_exprs):
    """Replace the callee's parameter nodes ('arg', i, name) in e by the caller's argument expressions."""
    if isinstance(e, tuple):
        if len(e) >= 2 and e[0] == "arg" and isinstance(e[1], int) and 1 <= e[1] <= len(arg_exprs):
            return arg_exprs[e[1] - 1]
        return tuple(subst_args(x, arg_exprs) for x in e)
    if isinstance(e, list):
        return [subst_args(x, arg_exprs) for x in e]
    return e


def returned_vec_segments(facts, body, depth=0):
    """vec_segments of the byte vector a key constructor returns; a constructor that merely delegates to another crate-local
    constructor (`fn key_from_frame(f) { key(f.context_id, f.id) }`) is resolved through the callee with the arguments substituted."""
    rets = body.return_defs()
    if len(rets) != 1:
        raise FactError("%s has %d return definitions" % (body.def_, len(rets)))
    (bb, e, raw) = rets[0]
    x = strip(e)
    if x[0] == "call" and x[1].local and depth < 3:
        gb = facts.body(x[1].fn)
        if gb is not None and not gb.is_coroutine:
            inner = returned_vec_segments(facts, gb, depth + 1)
            return [(k, subst_args(ex, x[2]), site) for (k, ex, site) in inner]
    l = root_local(body, raw["use"]) if isinstance(raw, dict) and "use" in raw else None
    if l is None:
        raise FactError("%s does not return a local Vec" % body.def_)
    return vec_segments(body, l)


def flatten_phi(e, limit=16):
    out = []
    stack = [e]
    while stack and len(out) < limit:
        x = stack.pop()
        if x[0] == "phi":
            stack.extend(x[3])
        else:
            out.append(x)
    return out


def last_field(e):
    """Name of the outermost field projection of a (peeled) place expression, else None."""
    e = strip(e)
    return e[2] if e[0] == "field" else None


def field_base(e):
    """The expression a field is projected from (peeled), else None."""
    e = strip(e)
    return e[1] if e[0] == "field" else None


IMMEDIATE_COMBINATORS = (
    "core::bool::<impl bool>::then", "core::option::Option::<T>::map", "core::option::Option::<T>::and_then", "core::option::Option::<T>::unwrap_or_else",
    "core::option::Option::<T>::map_or_else", "core::option::Option::<T>::or_else", "core::option::Option::<T>::ok_or_else", "core::option::Option::<T>::get_or_insert_with",
    "core::result::Result::<T, E>::map", "core::result::Result::<T, E>::and_then", "core::result::Result::<T, E>::unwrap_or_else", "core::result::Result::<T, E>::or_else",
)


def effective_site(facts, call):
    """(body, bb) where the event `call` happens from the point of view of the surrounding function: a call located in a plain
    closure that is handed directly to a std combinator which invokes it at once (`flag.then(|| ..)`, `opt.map(|x| ..)`) happens
    at that combinator's call site in the parent body."""
    b = call.body
    if b.kind != "Closure" or b.is_coroutine:
        return b, call.bb
    for pb in facts.all_bodies():
        if not b.def_.startswith(pb.def_ + "::"):
            continue
        for c in pb.calls():
            if c.bb in pb.live_blocks() and c.fn in IMMEDIATE_COMBINATORS:
                for a in c.arg_exprs():
                    x = strip(a)
                    if x[0] == "agg" and x[1].get("agg") == "closure" and x[1].get("def") == b.def_:
                        return pb, c.bb
    return b, call.bb
