"""Run the rules against a scratch copy of /repo with one edit applied (selftest / seeded-change evaluation).
The scratch copy lives under /var/tmp and is removed afterwards; extraction goes through the same cargo +
extractor pipeline as the real check (own hard-linked target dir per worker so variants can run in parallel)."""
import os
import shutil
import subprocess
import sys
import tempfile

from . import extract
from .facts import Facts

SCRATCH_ROOT = "/var/tmp"


def repo_state_lock(exclusive):
    """seed-eval patches /repo's working tree for a moment; scratch copies must not be taken in that window."""
    import fcntl
    os.makedirs(extract.CACHE, exist_ok=True)
    fh = open(os.path.join(extract.CACHE, "repo-state.lock"), "w")
    fcntl.flock(fh, fcntl.LOCK_EX if exclusive else fcntl.LOCK_SH)
    return fh


def make_scratch(worker):
    lock = repo_state_lock(False)
    try:
        return _make_scratch(worker)
    finally:
        lock.close()


def _scratch_dir(worker):
    """One scratch tree per process and worker slot: two checks running side by side (two thorough tiers, a selftest next to a
    `variant`) never share a directory.  The hard-linked target dirs stay shared per slot (cargo and the extraction lock serialise
    their use)."""
    return os.path.join(SCRATCH_ROOT, "xsv-variant-p%d-w%s" % (os.getpid(), worker))


def _make_scratch(worker):
    d = _scratch_dir(worker)
    if os.path.exists(d):
        shutil.rmtree(d)
    os.makedirs(d)
    files = subprocess.check_output(["git", "-C", extract.REPO, "ls-files"], text=True).split("\n")
    for f in files:
        if not f or f.startswith(("docs/", "examples/", "notes/", "changes/")):
            continue
        src = os.path.join(extract.REPO, f)
        if not os.path.isfile(src):
            continue
        dst = os.path.join(d, f)
        os.makedirs(os.path.dirname(dst), exist_ok=True)
        shutil.copy2(src, dst)
    return d


def worker_target(worker):
    """Hard-linked copy of the warm target dir (no extra disk for dependency artifacts)."""
    if str(worker) == "0":
        return extract.TARGET
    t = os.path.join(SCRATCH_ROOT, "xsv-variant-target-w%s" % worker)
    if not os.path.exists(t):
        subprocess.check_call(["cp", "-al", extract.TARGET, t])
        # cargo's lock files must not stay hard-linked to the shared inode, or every worker serialises on one flock
        for root, dirs, files in os.walk(t):
            for f in files:
                if f in (".cargo-lock", ".cargo-build-lock"):
                    os.remove(os.path.join(root, f))
            if root.count(os.sep) - t.count(os.sep) >= 1:
                dirs[:] = []
    return t


def cleanup(worker, target_too=False):
    d = _scratch_dir(worker)
    shutil.rmtree(d, ignore_errors=True)
    if target_too and str(worker) != "0":
        shutil.rmtree(os.path.join(SCRATCH_ROOT, "xsv-variant-target-w%s" % worker), ignore_errors=True)


def apply_patch(d, patch_path, reverse=False):
    cmd = ["git", "apply", "--whitespace=nowarn"]
    if reverse:
        cmd.append("-R")
    cmd.append(os.path.abspath(patch_path))
    r = subprocess.run(cmd, cwd=d, stdout=subprocess.PIPE, stderr=subprocess.STDOUT, text=True)
    if r.returncode != 0:
        # fall back to patch(1) with fuzz
        cmd = ["patch", "-p1", "--no-backup-if-mismatch", "-s"] + (["-R"] if reverse else []) + ["-i", os.path.abspath(patch_path)]
        r2 = subprocess.run(cmd, cwd=d, stdout=subprocess.PIPE, stderr=subprocess.STDOUT, text=True)
        if r2.returncode != 0:
            return False, r.stdout + r2.stdout
    return True, ""


def apply_edit(d, file, old, new, count=1):
    p = os.path.join(d, file)
    with open(p) as fh:
        s = fh.read()
    if s.count(old) < 1:
        return False, "snippet not found in %s" % file
    s = s.replace(old, new, count)
    with open(p, "w") as fh:
        fh.write(s)
    return True, ""


def check_variant(d, props, worker=0, keep_facts=True):
    """Extract facts for scratch tree d and run the given properties. Returns dict prop -> result."""
    from . import engine
    pre = set(os.listdir(os.path.join(extract.CACHE, "facts"))) if os.path.isdir(os.path.join(extract.CACHE, "facts")) else set()
    fd = extract.facts_dir(repo=d, target=worker_target(worker))
    if os.path.basename(fd.rstrip("/")) in pre:
        keep_facts = True     # somebody else's cache entry (a selftest with the same tree): not ours to delete
    facts = Facts(fd)
    lost = list(facts.lib.j.get("skipped") or []) + list(facts.bin.j.get("skipped") or [])
    if lost:
        raise extract.CheckerError("the extractor could not read %d function bodies of the variant: %s" % (len(lost), lost[:6]))
    out = {}
    for p in props:
        run, ev, violations, known_hits, lines = engine.run_property(p, "quick", facts, quiet=True, write=False)
        out[p] = {
            "violations": [{"key": o.key, "where": o.where, "what": o.what, "reason": o.reason} for o in violations],
            "known": [o.key for o in known_hits],
            "obligations": len(run.obs),
        }
    if not keep_facts:
        shutil.rmtree(fd, ignore_errors=True)
    return out


def main(argv):
    """xsv variant [--reverse] <patch> [props...]  |  xsv variant --edit file old new [props...]"""
    import json
    reverse = False
    worker = os.environ.get("XSV_WORKER", "0")
    if argv and argv[0] == "--reverse":
        reverse = True
        argv = argv[1:]
    d = make_scratch(worker)
    try:
        patch = argv[0]
        props = argv[1:] or ["C%02d" % i for i in range(1, 21)]
        ok, msg = apply_patch(d, patch, reverse)
        if not ok:
            print("patch does not apply:", msg)
            return 2
        try:
            res = check_variant(d, props, worker)
        except extract.CheckerError as e:
            print("CHECKER-ERROR:", str(e)[-1500:])
            return 2
        rc = 0
        for p, r in res.items():
            if r["violations"]:
                rc = 1
            print("%s: %d obligations, %d violation(s)%s" % (p, r["obligations"], len(r["violations"]),
                  (", known: %d" % len(r["known"])) if r["known"] else ""))
            for v in r["violations"]:
                print("   VIOLATION %s @%s [%s]\n      %s" % (v["key"], v["where"], v["reason"], v["what"][:300]))
        return rc
    finally:
        cleanup(worker)
