"""Inlining of single-caller private helpers into anchor bodies (wrapper tolerance, DESIGN 1.4 'wrappers').

A behaviour-preserving 'extract helper' refactor of an anchor function (Store::append, insert_frame, remove) must not blind the
rules, and a breaking one (e.g. moving the id assignment out of the critical section into a helper called before the lock) must be
reported at the construct that matters.  For crate-local, synchronous helpers with exactly ONE call site in the crate, located in an
anchor body, the helper's CFG is spliced into the anchor: arguments become assignments, returns become an assignment to the call's
destination followed by a jump to the call's return block.  Result correlation (`helper()?`): the constructor (Ok/Err) written
to the helper's return place is tracked along paths so that the anchor's switch on that Result only follows the matching edge."""
import copy

from .facts import Body

MAX_ROUNDS = 3


def _map_place(p, ol):
    q = {"l": p["l"] + ol, "p": []}
    for e in p["p"]:
        if isinstance(e, dict) and "idx" in e:
            e = dict(e)
            e["idx"] = e["idx"] + ol
        q["p"].append(e)
    return q


def _map_operand(o, ol):
    if "copy" in o:
        return {"copy": _map_place(o["copy"], ol)}
    if "move" in o:
        return {"move": _map_place(o["move"], ol)}
    return o


def _map_rvalue(rv, ol):
    r = dict(rv)
    for k in ("use", "cast", "l", "r", "x", "repeat"):
        if k in r and isinstance(r[k], dict):
            r[k] = _map_operand(r[k], ol)
    for k in ("ref", "rawptr", "discr"):
        if k in r:
            r[k] = _map_place(r[k], ol)
    if "ops" in r:
        r["ops"] = [_map_operand(o, ol) for o in r["ops"]]
    return r


def _map_block(b, ol, ob):
    nb = {"cleanup": b["cleanup"], "stmts": [], "term": None}
    for s in b["stmts"]:
        s2 = dict(s)
        if s["k"] == "assign":
            s2["lhs"] = _map_place(s["lhs"], ol)
            s2["rv"] = _map_rvalue(s["rv"], ol)
        elif s["k"] == "setdiscr":
            s2["lhs"] = _map_place(s["lhs"], ol)
        elif s["k"] == "dead":
            s2["l"] = s["l"] + ol
        nb["stmts"].append(s2)
    t = dict(b["term"])
    k = t["k"]
    if "t" in t and t["t"] is not None:
        t["t"] = t["t"] + ob
    if k == "switch":
        t["d"] = _map_operand(t["d"], ol)
        t["arms"] = [[v, tb + ob] for v, tb in t["arms"]]
        t["otherwise"] = t["otherwise"] + ob
    elif k == "call":
        t["args"] = [_map_operand(a, ol) for a in t["args"]]
        t["dest"] = _map_place(t["dest"], ol)
        if "fn_op" in t:
            t["fn_op"] = _map_operand(t["fn_op"], ol)
    elif k == "drop":
        t["place"] = _map_place(t["place"], ol)
    elif k == "assert":
        t["cond"] = _map_operand(t["cond"], ol)
    elif k == "yield":
        t["value"] = _map_operand(t["value"], ol)
        t["resume_arg"] = _map_place(t["resume_arg"], ol)
    nb["term"] = t
    return nb


def inline_call(anchor, call_bb, helper):
    """Return a new Body JSON for `anchor` with the call at block `call_bb` to `helper` spliced in."""
    aj = copy.deepcopy(anchor.j)
    hj = helper.j
    ol = len(aj["locals"])
    ob = len(aj["blocks"])
    call = aj["blocks"][call_bb]["term"]
    dest = call["dest"]
    target = call.get("t")
    sp = call["sp"]
    # locals + debug names
    aj["locals"] = aj["locals"] + copy.deepcopy(hj["locals"])
    for d in hj["debug"]:
        if "l" in d["v"]:
            aj["debug"].append({"name": d["name"], "v": _map_place(d["v"], ol), "arg": None})
    # blocks
    new_blocks = [_map_block(b, ol, ob) for b in hj["blocks"]]
    ret_local = ol   # helper's _0
    for nb in new_blocks:
        if nb["term"]["k"] == "return":
            nb["stmts"].append({"k": "assign", "lhs": dest, "rv": {"use": {"move": {"l": ret_local, "p": []}}}, "sp": sp, "exp": None})
            if target is None:
                nb["term"] = {"k": "unreachable", "sp": sp, "exp": None}
            else:
                nb["term"] = {"k": "goto", "t": target, "sp": sp, "exp": None, "inlined_return": True}
    # prologue: argument passing, then jump to the helper's entry
    blk = aj["blocks"][call_bb]
    for i, a in enumerate(call["args"]):
        blk["stmts"].append({"k": "assign", "lhs": {"l": ol + 1 + i, "p": []}, "rv": {"use": a}, "sp": sp, "exp": None})
    blk["term"] = {"k": "goto", "t": ob, "sp": sp, "exp": None, "inlined_call": helper.def_}
    aj["blocks"] = aj["blocks"] + new_blocks
    corr = list(aj.get("corr", []))
    if not dest["p"]:
        corr.append({"ret": ret_local, "dest": dest["l"]})
    aj["corr"] = corr
    aj.setdefault("inlined", []).append(helper.def_)
    return aj


_RULE_NAMES = None


def _names_used_by_rules():
    """Every "xs::…" path that a rule module mentions literally: rules anchor on those, so they are never inlined away."""
    global _RULE_NAMES
    if _RULE_NAMES is None:
        import glob, os, re
        names = set()
        root = os.path.join(os.path.dirname(os.path.dirname(os.path.abspath(__file__))), "rules")
        for f in glob.glob(os.path.join(root, "*.py")):
            with open(f) as fh:
                for m in re.finditer(r'"(<?xs(?:bin)?::[A-Za-z0-9_:<> ]+)"', fh.read()):
                    names.add(m.group(1).rstrip(":"))
        _RULE_NAMES = names
    return _RULE_NAMES


def _module(def_path):
    """xs::store::Store::append -> xs::store ; xs::api::handle -> xs::api ; <xs::nu::commands::x::C as T>::run -> xs::nu::commands::x"""
    d = def_path.lstrip("<")
    parts = d.split(" as ")[0].split("::")
    mod = []
    for p in parts:
        if p and (p[0].isupper() or p.startswith("{")):
            break
        mod.append(p)
    # a free function: drop its own name
    if len(mod) == len(parts):
        mod = mod[:-1]
    return "::".join(mod)


MAX_SITES = 6
# helper families the rules treat as units (responders build the HTTP answer: their own `?` must not appear inside api::handle)
ROLE_PREFIXES = ("xs::api::response_",)
MAX_HELPER_BLOCKS = 60


def single_caller_helpers(facts, anchors, pinned):
    """[(anchor_body, call_bb, helper_body)] : private, synchronous, small helpers of the anchor's own module whose call sites
    (one, or a few) ALL lie in anchor bodies.  Every site gets its own spliced copy; the helper body itself is then hidden."""
    sites = {}
    for b in facts.all_bodies():
        live = b.live_blocks()
        for c in b.calls():
            if c.bb in live and c.local:
                sites.setdefault(c.fn, []).append((b, c))
    out = []
    for fn, ss in sites.items():
        if len(ss) > MAX_SITES or fn in pinned:
            continue
        if any(b.def_ not in anchors for (b, c) in ss):
            continue
        h = facts.body(fn)
        if h is None or h.is_coroutine or h.kind not in ("Fn", "AssocFn"):
            continue
        if len(ss) > 1 and len(h.blocks) > MAX_HELPER_BLOCKS:
            continue
        if any(h.crate is not b.crate for (b, c) in ss):
            continue
        # only private helpers living in the anchors' own module ("extract function" refactors), never API items
        if not (h.vis or "").startswith("Restricted") or any(_module(h.def_) != _module(facts.enclosing_fn(b)) for (b, c) in ss):
            continue
        if fn in _names_used_by_rules() or fn.startswith(ROLE_PREFIXES):
            continue
        if any(cc.fn == fn for cc in h.calls()):
            continue   # recursive
        rets = h.return_defs()
        if len(rets) == 1 and rets[0][1][0] == "agg" and rets[0][1][1].get("agg") in ("coroutine", "closure"):
            continue   # async fn shell
        for (b, c) in ss:
            out.append((b, c.bb, h))
    return out


def apply(facts, anchors, pinned):
    """Inline until a fixpoint (bounded). Replaces anchor bodies in `facts`; inlined helpers are hidden from all_bodies()."""
    done = []
    for _ in range(MAX_ROUNDS):
        cands = single_caller_helpers(facts, anchors, pinned)
        if not cands:
            break
        # one call site per anchor per round (block indices shift only by appending, so several are fine too)
        for (b, bb, h) in cands:
            cur = facts.body(b.def_)
            nj = inline_call(cur, bb, h)
            nb = Body(cur.crate, nj)
            cur.crate.bodies[nb.def_] = nb
            cur.crate.body_list[cur.crate.body_list.index(cur)] = nb
            h.hidden = True
            done.append((b.def_, h.def_))
            facts.inlined = done
            if hasattr(anchors, "adopt"):
                anchors.adopt(h.def_)
    return done
