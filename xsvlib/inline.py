"""Inlining of single-caller private helpers into anchor bodies (wrapper tolerance, DESIGN 1.4 'wrappers').

A behaviour-preserving 'extract helper' refactor of an anchor function (Store::append, insert_frame, remove) must not blind the
rules, and a breaking one (e.g. moving the id assignment out of the critical section into a helper called before the lock) must be
reported at the construct that matters.  For crate-local, synchronous helpers with exactly ONE call site in the crate, located in an
anchor body, the helper's CFG is spliced into the anchor: arguments become assignments, returns become an assignment to the call's
destination followed by a jump to the call's return block.  Result correlation (`helper()?`): the constructor (Ok/Err) written
to the helper's return place is tracked along paths so that the anchor's switch on that Result only follows the matching edge."""
import copy

from .facts import Body

MAX_ROUNDS = 3


def _map_place(p, ol):
    q = {"l": p["l"] + ol, "p": []}
    for e in p["p"]:
        if isinstance(e, dict) and "idx" in e:
            e = dict(e)
            e["idx"] = e["idx"] + ol
        q["p"].append(e)
    return q


def _map_operand(o, ol):
    if "copy" in o:
        return {"copy": _map_place(o["copy"], ol)}
    if "move" in o:
        return {"move": _map_place(o["move"], ol)}
    return o


def _map_rvalue(rv, ol):
    r = dict(rv)
    for k in ("use", "cast", "l", "r", "x", "repeat"):
        if k in r and isinstance(r[k], dict):
            r[k] = _map_operand(r[k], ol)
    for k in ("ref", "rawptr", "discr"):
        if k in r:
            r[k] = _map_place(r[k], ol)
    if "ops" in r:
        r["ops"] = [_map_operand(o, ol) for o in r["ops"]]
    return r


def _map_block(b, ol, ob):
    nb = {"cleanup": b["cleanup"], "stmts": [], "term": None}
    for s in b["stmts"]:
        s2 = dict(s)
        if s["k"] == "assign":
            s2["lhs"] = _map_place(s["lhs"], ol)
            s2["rv"] = _map_rvalue(s["rv"], ol)
        elif s["k"] == "setdiscr":
            s2["lhs"] = _map_place(s["lhs"], ol)
        elif s["k"] == "dead":
            s2["l"] = s["l"] + ol
        nb["stmts"].append(s2)
    t = dict(b["term"])
    k = t["k"]
    if "t" in t and t["t"] is not None:
        t["t"] = t["t"] + ob
    if k == "switch":
        t["d"] = _map_operand(t["d"], ol)
        t["arms"] = [[v, tb + ob] for v, tb in t["arms"]]
        t["otherwise"] = t["otherwise"] + ob
    elif k == "call":
        t["args"] = [_map_operand(a, ol) for a in t["args"]]
        t["dest"] = _map_place(t["dest"], ol)
        if "fn_op" in t:
            t["fn_op"] = _map_operand(t["fn_op"], ol)
    elif k == "drop":
        t["place"] = _map_place(t["place"], ol)
    elif k == "assert":
        t["cond"] = _map_operand(t["cond"], ol)
    elif k == "yield":
        t["value"] = _map_operand(t["value"], ol)
        t["resume_arg"] = _map_place(t["resume_arg"], ol)
    nb["term"] = t
    return nb


def _mentions(obj, l):
    """Does this statement / terminator JSON mention local `l` (as a place root, an index local or a storage marker)?"""
    if isinstance(obj, dict):
        if obj.get("l") == l and ("p" in obj or obj.get("k") in ("dead", "live")):
            return True
        if obj.get("idx") == l:
            return True
        return any(_mentions(v, l) for v in obj.values())
    if isinstance(obj, list):
        return any(_mentions(v, l) for v in obj)
    return False


def _succs(t):
    out = []
    if t.get("t") is not None and t["k"] in ("goto", "call", "drop", "assert", "yield"):
        out.append(t["t"])
    if t["k"] == "switch":
        out += [tb for (_, tb) in t["arms"]] + [t["otherwise"]]
    return out


def _subst_locals(obj, m):
    """Rename locals according to the map m (place roots, index locals, storage markers)."""
    if isinstance(obj, dict):
        out = {}
        for k, v in obj.items():
            out[k] = _subst_locals(v, m)
        if out.get("l") in m and ("p" in out or out.get("k") in ("dead", "live")):
            out["l"] = m[out["l"]]
        if out.get("idx") in m and not isinstance(out.get("idx"), bool):
            out["idx"] = m[out["idx"]]
        return out
    if isinstance(obj, list):
        return [_subst_locals(v, m) for v in obj]
    return obj


def _written_locals(b):
    out = set()
    for st in b["stmts"]:
        if st["k"] in ("assign", "setdiscr"):
            out.add(st["lhs"]["l"])
    t = b["term"]
    if t["k"] == "call":
        out.add(t["dest"]["l"])
    if t["k"] == "yield":
        out.add(t["resume_arg"]["l"])
    return out


MAX_REGION = 40
MAX_THREAD_SITES = 8
MAX_THREAD_TAIL = 14


def _no(n):
    import os
    if os.environ.get("XSV_DEBUG_THREAD"):
        print("thread: refused at check", n)
    return False


def _thread_result_switch(aj, lo, hi, ret_local, dest, target, sp, is_bool=False, call_bb=None):
    """Jump threading for a helper whose result the caller tests at once (`if helper(..) {`, `match helper(..) {`):
    instead of joining every `return` of the helper into one result local that the caller's switch reads (a phi the rules cannot
    interpret, e.g. for `a == x || a == y`), the helper's tail and the caller's switch are cloned per definition of the result,
    each clone reading a single-definition local.  The spliced CFG is then isomorphic to the one of the un-refactored code.
    Returns True when done; False (nothing changed) when the shape is not the simple one."""
    if target is None or dest["p"]:
        return _no(1)
    T = aj["blocks"][target]
    tt = T["term"]
    simple = tt["k"] == "switch"
    if simple:
        pl = tt["d"].get("move") or tt["d"].get("copy")
        simple = not (pl is None or pl["p"] or pl["l"] != dest["l"]) and not any(_mentions(st, dest["l"]) for st in T["stmts"])
    if simple:
        # the result local is read by that switch only
        for bi, b in enumerate(aj["blocks"]):
            if bi == target or lo <= bi < hi:
                continue
            if any(_mentions(st, dest["l"]) for st in b["stmts"] if st["k"] not in ("dead", "live")) or (b["term"]["k"] != "call" and _mentions(b["term"], dest["l"])) or \
                    (b["term"]["k"] == "call" and any(_mentions(a, dest["l"]) for a in b["term"]["args"])):
                simple = False
                break
    region = None
    if not simple:
        # region mode (bool results kept in a variable: `let expired = helper(x); if expired {..}; !expired`): clone everything
        # downstream of the call per definition of the result, when that region is small and does not loop back to the call
        if not is_bool:
            return _no(2)
        region, todo = [], [target]
        while todo:
            x = todo.pop()
            if x in region:
                continue
            if lo <= x < hi or x == call_bb:
                return _no(3)
            region.append(x)
            if len(region) > MAX_REGION:
                return _no(4)
            todo += _succs(aj["blocks"][x]["term"])
        # the result must not be written again downstream, nor read outside the region
        for bi, b in enumerate(aj["blocks"]):
            if lo <= bi < hi or b["cleanup"]:
                continue
            w = any(st["k"] == "assign" and st["lhs"]["l"] == dest["l"] for st in b["stmts"]) or (b["term"]["k"] == "call" and b["term"]["dest"]["l"] == dest["l"] and bi != call_bb)
            if w:
                return _no(5)
            if bi not in region and bi != call_bb and (any(_mentions(st, dest["l"]) for st in b["stmts"] if st["k"] not in ("dead", "live")) or _mentions(b["term"], dest["l"])):
                return _no(5)
        region_locals = set()
        for x in region:
            region_locals |= _written_locals(aj["blocks"][x])
        region_locals.discard(0)
        region_locals.discard(dest["l"])
        for bi, b in enumerate(aj["blocks"]):
            if bi in region or b["cleanup"]:
                continue
            for l in list(region_locals):
                if any(_mentions(st, l) for st in b["stmts"] if st["k"] not in ("dead", "live")) or _mentions(b["term"], l):
                    region_locals.discard(l)
    sites = []
    for bi in range(lo, hi):
        b = aj["blocks"][bi]
        if b["cleanup"]:
            continue
        for k, st in enumerate(b["stmts"]):
            if st["k"] in ("assign", "setdiscr") and st["lhs"]["l"] == ret_local:
                if st["lhs"]["p"] or st["k"] != "assign" or st.get("inlined_result"):
                    if st.get("inlined_result"):
                        continue
                    return _no(6)
                sites.append((bi, k))
        t = b["term"]
        if t["k"] == "call" and t["dest"]["l"] == ret_local:
            if t["dest"]["p"]:
                return _no(7)
            sites.append((bi, None))
    if not sites or len(sites) > MAX_THREAD_SITES or len({bi for bi, _ in sites}) != len(sites):
        return _no(8)
    site_blocks = {bi for bi, _ in sites}
    plan = []
    base = copy.deepcopy(aj["blocks"])
    for (bi, k) in sites:
        # blocks of the tail: reachable from the point after the definition
        start = _succs(base[bi]["term"]) if True else []
        seen, todo = [], list(start)
        ok = True
        while todo:
            x = todo.pop()
            if x in seen:
                continue
            if not (lo <= x < hi) or x in site_blocks:
                ok = False   # leaves the helper other than through its return, or reaches another definition
                break
            blk = base[x]
            if blk["term"]["k"] == "call" or any(s2["k"] == "assign" and s2["lhs"]["l"] == ret_local and not s2.get("inlined_result") for s2 in blk["stmts"]):
                ok = False
                break
            seen.append(x)
            if len(seen) > MAX_THREAD_TAIL:
                ok = False
                break
            if not blk["term"].get("inlined_return"):
                todo += _succs(blk["term"])
        if not ok:
            return _no(9)
        plan.append((bi, k, seen))
    # apply
    for (bi, k, tail) in plan:
        ret_i = len(aj["locals"])
        aj["locals"].append(copy.deepcopy(aj["locals"][ret_local]))
        dest_i = len(aj["locals"])
        aj["locals"].append(copy.deepcopy(aj["locals"][dest["l"]]))
        nb0 = len(aj["blocks"])
        cmap = {x: nb0 + i for i, x in enumerate(tail)}
        t_i = nb0 + len(tail)
        for x in tail:
            c = copy.deepcopy(base[x])
            t = c["term"]
            if t.get("inlined_return"):
                c["stmts"] = [s2 for s2 in c["stmts"] if not s2.get("inlined_result")]
                c["stmts"].append({"k": "assign", "lhs": {"l": dest_i, "p": []}, "rv": {"use": {"move": {"l": ret_i, "p": []}}}, "sp": sp, "exp": None})
                t["t"] = t_i
            else:
                if t.get("t") is not None:
                    t["t"] = cmap.get(t["t"], t["t"])
                if t["k"] == "switch":
                    t["arms"] = [[v, cmap.get(tb, tb)] for v, tb in t["arms"]]
                    t["otherwise"] = cmap.get(t["otherwise"], t["otherwise"])
            aj["blocks"].append(c)
        if region is None:
            tc = copy.deepcopy(T)
            key = "move" if "move" in tc["term"]["d"] else "copy"
            tc["term"]["d"] = {key: {"l": dest_i, "p": []}}
            tc["term"]["threaded"] = True
            aj["blocks"].append(tc)
        else:
            rbase = len(aj["blocks"])
            assert rbase == t_i
            rmap = {x: rbase + i for i, x in enumerate(region)}   # region[0] == target
            # every local written inside the region (and unknown outside it) gets its own copy per clone: no artificial phis
            lmap = {dest["l"]: dest_i}
            for l in sorted(region_locals):
                lmap[l] = len(aj["locals"])
                aj["locals"].append(copy.deepcopy(aj["locals"][l]))
                for dbg in list(aj["debug"]):
                    if "l" in dbg["v"] and dbg["v"]["l"] == l and not dbg["v"]["p"] and not dbg.get("cloned"):
                        aj["debug"].append({"name": dbg["name"], "v": {"l": lmap[l], "p": []}, "arg": None, "cloned": True})
            for x in region:
                c = _subst_locals(copy.deepcopy(base[x]), lmap)
                t = c["term"]
                if t.get("t") is not None:
                    t["t"] = rmap.get(t["t"], t["t"])
                if t["k"] == "switch":
                    t["arms"] = [[v, rmap.get(tb, tb)] for v, tb in t["arms"]]
                    t["otherwise"] = rmap.get(t["otherwise"], t["otherwise"])
                aj["blocks"].append(c)
        blk = aj["blocks"][bi]
        if k is None:
            blk["term"]["dest"] = {"l": ret_i, "p": []}
            blk["term"]["t"] = cmap[blk["term"]["t"]]
        else:
            rest = blk["stmts"][k + 1:]
            term = blk["term"]
            d = dict(blk["stmts"][k])
            d["lhs"] = {"l": ret_i, "p": []}
            # the remainder of the defining block becomes the first block of the cloned tail
            c = {"cleanup": False, "stmts": copy.deepcopy(rest), "term": copy.deepcopy(term)}
            t = c["term"]
            if t.get("inlined_return"):
                c["stmts"] = [s2 for s2 in c["stmts"] if not s2.get("inlined_result")]
                c["stmts"].append({"k": "assign", "lhs": {"l": dest_i, "p": []}, "rv": {"use": {"move": {"l": ret_i, "p": []}}}, "sp": sp, "exp": None})
                t["t"] = t_i
            else:
                if t.get("t") is not None:
                    t["t"] = cmap.get(t["t"], t["t"])
                if t["k"] == "switch":
                    t["arms"] = [[v, cmap.get(tb, tb)] for v, tb in t["arms"]]
                    t["otherwise"] = cmap.get(t["otherwise"], t["otherwise"])
            aj["blocks"].append(c)
            blk["stmts"] = blk["stmts"][:k] + [d]
            blk["term"] = {"k": "goto", "t": len(aj["blocks"]) - 1, "sp": sp, "exp": None}
    # every definition now leads to its own clone: the originals are dead and must not contribute definitions to phis
    dead = [target] if region is None else list(region)
    if region is not None:
        # a block of the region that can also be entered from outside it (a join after the construct that contains the call) stays
        inside = set(region) | set(range(lo, hi))
        preds = {}
        for bi2, b2 in enumerate(aj["blocks"]):
            if b2["cleanup"]:
                continue
            for t2 in _succs(b2["term"]):
                preds.setdefault(t2, set()).add(bi2)
        changed = True
        keep = set()
        while changed:
            changed = False
            for x in dead:
                if x in keep:
                    continue
                if any((p2 not in inside) or (p2 in keep) for p2 in preds.get(x, ())) and x != target:
                    keep.add(x)
                    changed = True
        dead = [x for x in dead if x not in keep]
    for x in dead:
        aj["blocks"][x] = {"cleanup": False, "stmts": [], "term": {"k": "unreachable", "sp": sp, "exp": None, "spliced_out": True}}
    return True


def _instantiate_generics(anchor, helper, call, blocks):
    """A generic helper (`fn parse_arg<T: FromStr>(..)`) spliced at `parse_arg::<u64>(..)`: the calls inside the copy are made at
    the call site's type arguments (`str::parse::<T>` becomes `str::parse::<u64>` in `fnx`, and in the `ga` index list)."""
    gp, ga = helper.j.get("gp") or [], call.get("ga") or []
    if not gp or len(gp) != len(ga):
        return
    pairs = [(p, a) for (p, a) in zip(gp, ga) if isinstance(p, int) and isinstance(a, int) and p != a]
    if not pairs:
        return
    names = []
    for (p, a) in pairs:
        try:
            names.append((helper.types.s(p), anchor.types.s(a)))
        except Exception:
            return
    import re
    for b in blocks:
        t = b["term"]
        if t["k"] != "call":
            continue
        if isinstance(t.get("ga"), list):
            t["ga"] = [dict(pairs).get(x, x) if isinstance(x, int) else x for x in t["ga"]]
        for key in ("fnx", "resx"):
            if isinstance(t.get(key), str):
                v = t[key]
                for (pn, an) in names:
                    if re.fullmatch(r"[A-Za-z_][A-Za-z0-9_]*", pn):
                        v = re.sub(r"(?<![A-Za-z0-9_:])%s(?![A-Za-z0-9_])" % re.escape(pn), an, v)
                t[key] = v


def inline_call(anchor, call_bb, helper):
    """Return a new Body JSON for `anchor` with the call at block `call_bb` to `helper` spliced in."""
    aj = copy.deepcopy(anchor.j)
    hj = helper.j
    ol = len(aj["locals"])
    ob = len(aj["blocks"])
    call = aj["blocks"][call_bb]["term"]
    dest = call["dest"]
    target = call.get("t")
    sp = call["sp"]
    # locals + debug names
    aj["locals"] = aj["locals"] + copy.deepcopy(hj["locals"])
    for d in hj["debug"]:
        if "l" in d["v"]:
            aj["debug"].append({"name": d["name"], "v": _map_place(d["v"], ol), "arg": None})
    # blocks
    new_blocks = [_map_block(b, ol, ob) for b in hj["blocks"]]
    _instantiate_generics(anchor, helper, call, new_blocks)
    ret_local = ol   # helper's _0
    for nb in new_blocks:
        if nb["term"]["k"] == "return":
            nb["stmts"].append({"k": "assign", "lhs": dest, "rv": {"use": {"move": {"l": ret_local, "p": []}}}, "sp": sp, "exp": None, "inlined_result": True})
            if target is None:
                nb["term"] = {"k": "unreachable", "sp": sp, "exp": None}
            else:
                nb["term"] = {"k": "goto", "t": target, "sp": sp, "exp": None, "inlined_return": True}
    # prologue: argument passing, then jump to the helper's entry
    blk = aj["blocks"][call_bb]
    for i, a in enumerate(call["args"]):
        blk["stmts"].append({"k": "assign", "lhs": {"l": ol + 1 + i, "p": []}, "rv": {"use": a}, "sp": sp, "exp": None})
    blk["term"] = {"k": "goto", "t": ob, "sp": sp, "exp": None, "inlined_call": helper.def_}
    aj["blocks"] = aj["blocks"] + new_blocks
    is_bool = helper.local_tystr(0) == "bool"
    threaded = _thread_result_switch(aj, ob, ob + len(new_blocks), ret_local, dest, target, sp, is_bool=is_bool, call_bb=call_bb)
    if threaded:
        aj.setdefault("threaded", []).append(helper.def_)
    corr = list(aj.get("corr", []))
    if not dest["p"]:
        corr.append({"ret": ret_local, "dest": dest["l"]})
    aj["corr"] = corr
    aj.setdefault("inlined", []).append(helper.def_)
    return aj



def _follow_gotos(blocks, b, limit=6):
    n = 0
    while n < limit and not blocks[b]["stmts"] and blocks[b]["term"]["k"] == "goto":
        b = blocks[b]["term"]["t"]
        n += 1
    return b


def _await_pattern(blocks, call_bb):
    """For `helper(args).await` where the call is at call_bb: (ready_block, payload_dest_place) - the block whose first statement
    moves the `Poll::Ready` payload of this await into a local - or None when the call is not awaited on the spot."""
    call = blocks[call_bb]["term"]
    f = call["dest"]
    if f["p"] or call.get("t") is None:
        return None
    b1 = blocks[call["t"]]
    t1 = b1["term"]
    if t1["k"] != "call" or t1["fn"] != "core::future::into_future::IntoFuture::into_future" or not t1["args"]:
        return None
    a0 = t1["args"][0].get("move")
    if a0 is None or a0["p"] or a0["l"] != f["l"] or t1["dest"]["p"] or t1.get("t") is None:
        return None
    g = t1["dest"]["l"]
    b2 = blocks[t1["t"]]
    aw = None
    for st in b2["stmts"]:
        if st["k"] == "assign" and not st["lhs"]["p"] and "use" in st["rv"] and (st["rv"]["use"].get("move") or {}).get("l") == g:
            aw = st["lhs"]["l"]
    if aw is None or b2["term"]["k"] != "goto":
        return None
    # find the poll of this awaitee
    seen, todo, poll_bb = set(), [b2["term"]["t"]], None
    refs_aw = False
    while todo and len(seen) < 12:
        x = todo.pop()
        if x in seen:
            continue
        seen.add(x)
        blk = blocks[x]
        for st in blk["stmts"]:
            if st["k"] == "assign" and "ref" in st["rv"] and st["rv"]["ref"]["l"] == aw:
                refs_aw = True
        t = blk["term"]
        if t["k"] == "call" and t["fn"] == "core::future::future::Future::poll":
            poll_bb = x
            break
        todo += _succs(t)
    if poll_bb is None or not refs_aw:
        return None
    pt = blocks[poll_bb]["term"]
    if pt["dest"]["p"] or pt.get("t") is None:
        return None
    pr = pt["dest"]["l"]
    sw = blocks[pt["t"]]
    if sw["term"]["k"] != "switch":
        return None
    ready = None
    for v, tb in sw["term"]["arms"]:
        if str(v) == "0":
            ready = tb
    if ready is None:
        return None
    r = _follow_gotos(blocks, ready)
    st = blocks[r]["stmts"][0] if blocks[r]["stmts"] else None
    if not st or st["k"] != "assign" or "use" not in st["rv"]:
        return None
    src = st["rv"]["use"].get("move") or st["rv"]["use"].get("copy")
    if not src or src["l"] != pr or len(src["p"]) != 2 or not isinstance(src["p"][0], dict) or src["p"][0].get("dc") != "Ready":
        return None
    return (r, st["lhs"])


def _async_shell(shell):
    """(coroutine def, [shell param index per upvar]) when `shell` is the plain shell of an `async fn`."""
    live = [b for b in shell.j["blocks"] if not b["cleanup"]]
    # one block building the coroutine, possibly followed by drops of the moved-from arguments, then `return`
    if not live or len(live) > 12 or any(b["term"]["k"] not in ("return", "drop", "goto") for b in live) or not any(b["term"]["k"] == "return" for b in live):
        return None
    sts = [st for b in live for st in b["stmts"] if st["k"] == "assign"]
    if len(sts) != 1 or sts[0]["lhs"]["l"] != 0 or sts[0]["rv"].get("agg") != "coroutine":
        return None
    params = []
    for op in sts[0]["rv"].get("ops", []):
        pl = op.get("copy") or op.get("move")
        if pl is None or pl["p"] or not (1 <= pl["l"] <= shell.j["argc"]):
            return None
        params.append(pl["l"] - 1)
    return (sts[0]["rv"]["def"], params)


def _rewrite_upvars(obj, env_local, arg_locals):
    """Places rooted at the coroutine's environment `_1.<i>` become places rooted at the local holding argument i."""
    if isinstance(obj, dict):
        if obj.get("l") == env_local and isinstance(obj.get("p"), list) and obj["p"] and isinstance(obj["p"][0], dict) and "f" in obj["p"][0] \
                and obj["p"][0]["f"] < len(arg_locals):
            return {**{k: _rewrite_upvars(v, env_local, arg_locals) for k, v in obj.items() if k not in ("l", "p")},
                    "l": arg_locals[obj["p"][0]["f"]], "p": [_rewrite_upvars(e, env_local, arg_locals) for e in obj["p"][1:]]}
        return {k: _rewrite_upvars(v, env_local, arg_locals) for k, v in obj.items()}
    if isinstance(obj, list):
        return [_rewrite_upvars(v, env_local, arg_locals) for v in obj]
    return obj


def inline_async_call(anchor, call_bb, shell, cor, params):
    """Splice the body of an `async fn` helper that is awaited on the spot into the awaiting coroutine: the helper's coroutine body
    replaces the whole poll loop, its captured arguments become locals, its `return` writes the value the await evaluates to."""
    aj = copy.deepcopy(anchor.j)
    pat = _await_pattern(aj["blocks"], call_bb)
    if pat is None:
        return None
    (rb, payload) = pat
    hj = cor.j
    ol = len(aj["locals"])
    ob = len(aj["blocks"])
    call = aj["blocks"][call_bb]["term"]
    sp = call["sp"]
    aj["locals"] = aj["locals"] + copy.deepcopy(hj["locals"])
    # one local per captured argument
    arg_locals = []
    for i, pi in enumerate(params):
        arg_locals.append(len(aj["locals"]))
        # type is unknown here (the upvar's type): reuse the caller operand's local type when it is a plain local, else the env type
        op = call["args"][pi]
        pl = op.get("move") or op.get("copy")
        ty = aj["locals"][pl["l"]]["ty"] if pl is not None and not pl["p"] else hj["locals"][1]["ty"]
        aj["locals"].append({"ty": ty, "mut": False, "user": True})
    for d in hj["debug"]:
        v = d["v"]
        if "l" not in v:
            continue
        if v["l"] == 1 and v["p"] and isinstance(v["p"][0], dict) and "f" in v["p"][0] and v["p"][0]["f"] < len(arg_locals):
            aj["debug"].append({"name": d["name"], "v": {"l": arg_locals[v["p"][0]["f"]], "p": v["p"][1:]}, "arg": None})
        elif v["l"] > 2:
            aj["debug"].append({"name": d["name"], "v": _map_place(v, ol), "arg": None})
    new_blocks = [_rewrite_upvars(_map_block(b, ol, ob), ol + 1, arg_locals) for b in hj["blocks"]]
    ret_local = ol
    # continuation: the rest of the Ready block after the payload move
    R = aj["blocks"][rb]
    cont = {"cleanup": False, "stmts": copy.deepcopy(R["stmts"][1:]), "term": copy.deepcopy(R["term"])}
    cont_idx = ob + len(new_blocks)
    for nb in new_blocks:
        if nb["term"]["k"] == "return":
            nb["stmts"].append({"k": "assign", "lhs": payload, "rv": {"use": {"move": {"l": ret_local, "p": []}}}, "sp": sp, "exp": None, "inlined_result": True})
            nb["term"] = {"k": "goto", "t": cont_idx, "sp": sp, "exp": None, "inlined_return": True}
        elif nb["term"]["k"] == "cordrop":
            nb["term"] = {"k": "unreachable", "sp": sp, "exp": None}
    blk = aj["blocks"][call_bb]
    for i, pi in enumerate(params):
        blk["stmts"].append({"k": "assign", "lhs": {"l": arg_locals[i], "p": []}, "rv": {"use": call["args"][pi]}, "sp": sp, "exp": None})
    # the helper's task context is the caller's
    tc = [d["v"]["l"] for d in aj["debug"] if d["name"] == "_task_context" and d.get("arg") is not None and "l" in d["v"]]
    if tc:
        blk["stmts"].append({"k": "assign", "lhs": {"l": ol + 2, "p": []}, "rv": {"use": {"copy": {"l": tc[0], "p": []}}}, "sp": sp, "exp": None})
    blk["term"] = {"k": "goto", "t": ob, "sp": sp, "exp": None, "inlined_call": cor.def_}
    aj["blocks"] = aj["blocks"] + new_blocks + [cont]
    # the poll loop of this await is dead now; its Ready block would otherwise contribute a second definition of every local it sets
    aj["blocks"][rb] = {"cleanup": False, "stmts": [], "term": {"k": "unreachable", "sp": sp, "exp": None, "spliced_out": True}}
    corr = list(aj.get("corr", []))
    if not payload["p"]:
        corr.append({"ret": ret_local, "dest": payload["l"]})
    aj["corr"] = corr
    aj.setdefault("inlined", []).append(shell.def_)
    return aj


_RULE_NAMES = None


def _names_used_by_rules():
    """Every "xs::…" path that a rule module mentions literally: rules anchor on those, so they are never inlined away."""
    global _RULE_NAMES
    if _RULE_NAMES is None:
        import glob, os, re
        names = set()
        root = os.path.join(os.path.dirname(os.path.dirname(os.path.abspath(__file__))), "rules")
        for f in glob.glob(os.path.join(root, "*.py")):
            with open(f) as fh:
                text = fh.read()
            for m in re.finditer(r'"(<?xs(?:bin)?::[A-Za-z0-9_:<> ]+)"', text):
                names.add(m.group(1).rstrip(":"))
            # names spelled as MODULE_CONSTANT + "::item" (MOD + "::register_command", HANDLER + "::serve|body", API + "handle_head_get")
            consts = {}
            for m in re.finditer(r'^([A-Z][A-Z0-9_]*) = "((?:<?xs)[^"]*)"', text, re.M):
                consts[m.group(1)] = m.group(2)
            for _ in range(2):
                for m in re.finditer(r'^([A-Z][A-Z0-9_]*) = ([A-Z][A-Z0-9_]*) \+ "([^"]*)"', text, re.M):
                    if m.group(2) in consts:
                        consts[m.group(1)] = consts[m.group(2)] + m.group(3)
            for k, v in consts.items():
                names.add(v.rstrip(":"))
            for m in re.finditer(r'\b([A-Z][A-Z0-9_]*) \+ "([^"]+)"', text):
                if m.group(1) in consts:
                    full = (consts[m.group(1)] + m.group(2)).split("|")[0].split("%")[0]
                    if re.fullmatch(r"<?xs[A-Za-z0-9_:<> ]+", full):
                        names.add(full.rstrip(":"))
        _RULE_NAMES = names
    return _RULE_NAMES


def _module(def_path):
    """xs::store::Store::append -> xs::store ; xs::api::handle -> xs::api ; <xs::nu::commands::x::C as T>::run -> xs::nu::commands::x"""
    d = def_path.lstrip("<")
    parts = d.split(" as ")[0].split("::")
    mod = []
    for p in parts:
        if p and (p[0].isupper() or p.startswith("{")):
            break
        mod.append(p)
    # a free function: drop its own name
    if len(mod) == len(parts):
        mod = mod[:-1]
    return "::".join(mod)


MAX_SITES = 6
# helper families the rules treat as units (responders build the HTTP answer: their own `?` must not appear inside api::handle)
ROLE_PREFIXES = ("xs::api::response_", "xs::api::handle_")
MAX_HELPER_BLOCKS = 160


def _own_size(h):
    """Blocks of a helper that are its own code: the expansion of a `tracing` event (some 40 blocks each) is not counted."""
    n = 0
    for b in h.j["blocks"]:
        if b["cleanup"]:
            continue
        exp = b["term"].get("exp") or []
        if any("tracing" in str(m) or "$xs::" in str(m) for m in exp):
            continue
        n += 1
    return n


def _is_key_constructor_site(b, c):
    from .facts import walk
    for u in b.calls():
        if u.fn.startswith("fjall::") and u.bb in b.live_blocks():
            # (the receiver - a partition, a keyspace, a batch handed out by a `durable_batch()` helper - is not a key)
            for a in u.arg_exprs()[1:]:
                for y in walk(a):
                    if y[0] == "call" and y[1].body is c.body and y[1].bb == c.bb:
                        return True
    return False


def single_caller_helpers(facts, anchors, pinned):
    """[(anchor_body, call_bb, helper_body)] : private, synchronous, small helpers of the anchor's own module whose call sites
    (one, or a few) ALL lie in anchor bodies.  Every site gets its own spliced copy; the helper body itself is then hidden."""
    sites = {}
    for b in facts.all_bodies():
        live = b.live_blocks()
        for c in b.calls():
            if c.bb in live and c.local:
                sites.setdefault(c.fn, []).append((b, c))
    out = []
    for fn, ss in sites.items():
        if len(ss) > MAX_SITES or fn in pinned:
            continue
        h = facts.body(fn)
        # sites outside the anchors (or in another module) keep calling the helper, which then stays visible: a shared,
        # possibly public, helper (`pub fn check_x(&self, ..)` used by the anchor and by a front end) is still looked through at
        # the anchor's call site
        all_sites = ss
        def _same_area(b):
            # the anchor's own module, or a private module below it (`mod follow;` holding `pub(super) fn scan_history`)
            hm, am = _module(h.def_), _module(facts.enclosing_fn(b))
            return hm == am or (hm.startswith(am + "::") and (h.vis or "").startswith("Restricted"))
        def _near(b):
            if _same_area(b):
                return True
            # a store method written for one front-end handler (`Store::import_frame` for POST /import): looked through there too
            return h.def_.startswith("xs::store::Store::") and facts.enclosing_fn(b).startswith("xs::api::handle_")
        ss = [(b, c) for (b, c) in ss if b.def_ in anchors and h is not None and _near(b)]
        partial = len(ss) != len(all_sites)
        if not ss:
            continue
        if h is None or h.is_coroutine or h.kind not in ("Fn", "AssocFn"):
            continue
        if len(ss) > 1 and _own_size(h) > MAX_HELPER_BLOCKS:
            continue
        if any(h.crate is not b.crate for (b, c) in ss):
            continue
        # only private helpers living in the anchors' own module ("extract function" refactors), never API items
        if any(not _same_area(b) for (b, c) in ss):
            partial = True
        if not (h.vis or "").startswith("Restricted"):
            if "<" in h.def_:
                continue        # methods of generic / macro-generated types (typestate builders): rules read those calls as they are
            partial = True      # an API item: callers outside this crate's bodies may exist, never hide it
        if fn in _names_used_by_rules() or fn.startswith(ROLE_PREFIXES):
            continue
        if any(cc.fn == fn for cc in h.calls()):
            continue   # recursive
        outside_store_methods = any(not facts.enclosing_fn(b).startswith("xs::store::Store::") or "{closure" in b.def_ for (b, c) in ss)
        if (partial or outside_store_methods or len({b.def_ for (b, c) in ss}) < len(ss)) and any(cc.fn == "fjall::batch::Batch::commit" for cc in h.calls()) \
                and any(cc.fn == "fjall::keyspace::Keyspace::batch" for cc in h.calls()):
            continue   # role: a function that builds AND commits a journal batch and is shared beyond the anchors (Store::remove and
            #            the GC helpers calling one `remove_frame`) is a unit of atomicity - rules look at it as a function
        if any(cc.fn in ("std::time::SystemTime::now", "std::time::SystemTime::elapsed", "std::time::Instant::now") for cc in h.calls()):
            continue   # role: a predicate that reads the clock (rules reason about where the clock is read: keep the call visible)
        if any(_is_key_constructor_site(b, c) for (b, c) in ss):
            continue   # role: key constructor (its result is the key / prefix / bound of a fjall operation): rules compare those by callee
        rets = h.return_defs()
        if len(rets) == 1 and rets[0][1][0] == "agg" and rets[0][1][1].get("agg") in ("coroutine", "closure"):
            # async fn shell: spliced only when every call is awaited on the spot inside an anchor coroutine
            sh = _async_shell(h)
            cor = facts.body(sh[0]) if sh else None
            if cor is None or not cor.is_coroutine or len(cor.blocks) > 4 * MAX_HELPER_BLOCKS:
                continue
            if not partial and all(b.is_coroutine and _await_pattern(b.j["blocks"], c.bb) is not None for (b, c) in ss):
                for (b, c) in ss:
                    out.append((b, c.bb, (h, cor, sh[1]), True))
            continue
        for (b, c) in ss:
            out.append((b, c.bb, h, not partial))
    return out


def _is_instrument_exp(exp):
    return bool(exp) and any(str(x).startswith("attribute macro:") and str(x).endswith("instrument") for x in exp)


def _renumber_env(obj, env_adt_old, env_adt_new, mapping, names):
    """Places `_1.<j>` of the inner block's environment become `_1.<mapping[j]>` of the outer one's."""
    if isinstance(obj, dict):
        if obj.get("l") == 1 and isinstance(obj.get("p"), list) and obj["p"] and isinstance(obj["p"][0], dict) and "f" in obj["p"][0] \
                and obj["p"][0].get("adt") == env_adt_old:
            j = obj["p"][0]["f"]
            head = dict(obj["p"][0], f=mapping[j], n=names[mapping[j]], adt=env_adt_new)
            return {**{k: _renumber_env(v, env_adt_old, env_adt_new, mapping, names) for k, v in obj.items() if k != "p"},
                    "p": [head] + [_renumber_env(e, env_adt_old, env_adt_new, mapping, names) for e in obj["p"][1:]]}
        return {k: _renumber_env(v, env_adt_old, env_adt_new, mapping, names) for k, v in obj.items()}
    if isinstance(obj, list):
        return [_renumber_env(v, env_adt_old, env_adt_new, mapping, names) for v in obj]
    return obj


def collapse_instrument_shells(facts):
    """`#[tracing::instrument] async fn f(..) { body }` expands to a coroutine that builds a span, wraps `async move { body }` and
    awaits it (instrumented, or bare when the span is disabled).  That outer coroutine is a shell: the inner block - the function's
    own code - takes its place (its captures are the function's parameters, renumbered), so that an async fn reads the same with
    and without the attribute.  [(shell def, inner def)]"""
    out = []
    for c in facts.crates:
        for s in list(c.body_list):
            if not s.is_coroutine or getattr(s, "hidden", False):
                continue
            live = s.live_blocks()
            aggs = []
            for bb in sorted(live):
                for st in s.blocks[bb]["stmts"]:
                    if st["k"] == "assign" and st["rv"].get("agg") == "coroutine":
                        aggs.append(st)
            if len(aggs) != 1 or not _is_instrument_exp(aggs[0].get("exp")) or aggs[0]["lhs"]["p"]:
                continue
            inner = c.bodies.get(aggs[0]["rv"]["def"])
            if inner is None or not inner.is_coroutine or not inner.def_.startswith(s.def_ + "::{closure#") or inner.j.get("parent") != s.def_:
                continue
            # every other live call of the shell belongs to the attribute's expansion, to its field expressions, or awaits the block
            names = [cap.get("name") for cap in s.j["captures"]]
            mapping = []
            for op in aggs[0]["rv"]["ops"]:
                e = s.operand_expr(op)
                while e[0] in ("copy", "move"):
                    e = e[1]
                if e[0] == "field" and e[1] == ("env",) and e[2] in names and names.count(e[2]) == 1:
                    mapping.append(names.index(e[2]))
                else:
                    mapping = None
                    break
            if mapping is None or len(mapping) != len(inner.j["captures"]):
                continue
            nj = copy.deepcopy(inner.j)
            nj = _renumber_env(nj, "closure:" + inner.def_, "closure:" + s.def_, mapping, names)
            nj["def"] = s.def_
            nj["parent"] = s.j.get("parent")
            nj["captures"] = copy.deepcopy(s.j["captures"])
            nb = Body(c, nj)
            c.bodies[nb.def_] = nb
            c.body_list[c.body_list.index(s)] = nb
            inner.hidden = True
            out.append((s.def_, inner.def_))
    return out


def thread_constant_flags(facts, anchors):
    """`let flag = a || b; if flag {..}` lowers to: a-true -> `flag = true; goto J`, a-false -> `flag = <b>; goto J`, J: `switch flag`.
    `if a || b {..}` lowers to the same without J: the a-true edge goes straight to the then-block and the switch is on `<b>`.
    Where a bool local has constant AND computed definitions, all of them flowing straight into one switch on it, the constant ones
    are threaded to the switch's targets (the assignments stay) and the switch reads the computed value (through a fresh local that
    only the computed definitions write), so that both spellings have the same control flow.  Only user-named flags (`let flag = ..`)
    are re-shaped: the compiler's own temporaries already have the direct form.  Flags defined by constants only
    (`matches!(..)` turned into a bool) are left alone: rules recognise those by their definitions.  [body defs changed]"""
    changed = []
    for c in facts.crates:
        for b in list(c.body_list):
            if b.def_ not in anchors or getattr(b, "hidden", False):
                continue
            blocks = b.j["blocks"]
            preds = {}
            for bi in range(len(blocks)):
                if blocks[bi]["cleanup"]:
                    continue
                for (t, _lab) in b.succ(bi):
                    preds.setdefault(t, set()).add(bi)
            plans = []
            for ji, J in enumerate(blocks):
                t = J["term"]
                if J["cleanup"] or t["k"] != "switch" or len(t["arms"]) != 1 or t["arms"][0][0] != "0":
                    continue
                d = t["d"].get("move") or t["d"].get("copy")
                if d is None or d["p"]:
                    continue
                # the switched temporary is a copy (chain) of the flag, made in J itself; J does nothing else
                alias = [d["l"]]
                ok = True
                for st in reversed(J["stmts"]):
                    if st["k"] in ("live", "dead", "nop"):
                        continue
                    if st["k"] == "assign" and not st["lhs"]["p"] and st["lhs"]["l"] == alias[-1] and "use" in st["rv"]:
                        src = st["rv"]["use"].get("copy") or st["rv"]["use"].get("move")
                        if src is not None and not src["p"]:
                            alias.append(src["l"])
                            continue
                    ok = False
                    break
                if not ok:
                    continue
                flag = alias[-1]
                if not b.lname(flag) or t.get("exp"):
                    continue      # a temporary of `if a && b` / a match guard: that IS the direct form; only a `let flag = ..` written
                    #               in the source (not `let enabled = ..` of a tracing macro) is re-shaped
                consts, computed = [], []

                def transparent(P):
                    # only storage markers, left by `goto` or a `drop` (of a temporary of the flag's own `let` statement)
                    return all(st["k"] in ("live", "dead", "nop") for st in P["stmts"]) and P["term"]["k"] in ("goto", "drop")

                work = [(pi, []) for pi in sorted(preds.get(ji, ()))]
                seen_t = set()
                while work and ok:
                    di, path = work.pop()
                    D = blocks[di]
                    tk = D["term"]["k"]
                    nxt_bb = path[0] if path else ji
                    if tk == "goto" and D["stmts"] and D["term"]["t"] == nxt_bb:
                        last = D["stmts"][-1]
                        if last["k"] == "assign" and not last["lhs"]["p"] and last["lhs"]["l"] == flag:
                            cu = last["rv"].get("use", {}).get("const") if "use" in last["rv"] else None
                            if isinstance(cu, dict) and isinstance(cu.get("bool"), bool):
                                consts.append((di, cu["bool"], path))
                            else:
                                computed.append((di, "stmt"))
                            continue
                    if tk == "call" and D["term"].get("t") == nxt_bb and not D["term"]["dest"]["p"] and D["term"]["dest"]["l"] == flag:
                        computed.append((di, "call"))
                        continue
                    if transparent(D) and D["term"].get("t") == nxt_bb and len(path) < 4 and di != ji and not D["cleanup"]:
                        if di not in seen_t:
                            seen_t.add(di)
                        for pi in sorted(preds.get(di, ())):
                            work.append((pi, [di] + path))
                        if not preds.get(di):
                            ok = False
                        continue
                    ok = False
                if ok and consts and computed:
                    plans.append((ji, flag, consts, computed))
            if not plans:
                continue
            nj = copy.deepcopy(b.j)
            nb_blocks = nj["blocks"]
            for (ji, flag, consts, computed) in plans:
                t = nb_blocks[ji]["term"]
                for (di, val, path) in consts:
                    tgt = t["otherwise"] if val else t["arms"][0][1]
                    # the drops between the definition and the switch are taken along (copies of those blocks, ending at the target)
                    for pb_i in reversed(path):
                        cl = copy.deepcopy(b.j["blocks"][pb_i])
                        cl["term"] = dict(cl["term"], t=tgt)
                        nb_blocks.append(cl)
                        tgt = len(nb_blocks) - 1
                    nb_blocks[di]["term"] = dict(nb_blocks[di]["term"], t=tgt, threaded=True)
                fresh = len(nj["locals"])
                nj["locals"].append(copy.deepcopy(nj["locals"][flag]))
                for (di, how) in computed:
                    if how == "stmt":
                        nb_blocks[di]["stmts"][-1]["lhs"] = {"l": fresh, "p": []}
                    else:
                        nb_blocks[di]["term"]["dest"] = {"l": fresh, "p": []}
                sp = t.get("sp")
                # J: the flag itself still gets its value (later readers), the switch reads the computed one
                nb_blocks[ji]["stmts"] = [{"k": "assign", "lhs": {"l": flag, "p": []}, "rv": {"use": {"copy": {"l": fresh, "p": []}}}, "sp": sp, "exp": None}] \
                    + [st for st in nb_blocks[ji]["stmts"] if st["k"] in ("live", "dead", "nop")]
                nb_blocks[ji]["term"] = dict(t, d={"copy": {"l": fresh, "p": []}})
            nb = Body(c, nj)
            nb.hidden = getattr(b, "hidden", False)
            c.bodies[nb.def_] = nb
            c.body_list[c.body_list.index(b)] = nb
            changed.append(b.def_)
    return changed


def apply(facts, anchors, pinned):
    """Inline until a fixpoint (bounded). Replaces anchor bodies in `facts`; inlined helpers are hidden from all_bodies()."""
    done = []
    from . import desugar
    done.extend(collapse_instrument_shells(facts))
    facts.inlined = done
    for _ in range(MAX_ROUNDS + 2):
        # closures with effects handed to immediately-invoking combinators, iterator chains driven by for_each / try_for_each
        changed = False
        seen_bodies = set()
        for (b, bb, fn) in desugar.candidates(facts, anchors):
            if b.def_ in seen_bodies:
                continue    # one rewrite per body per round (block indices of the other sites are stale afterwards)
            cur = facts.body(b.def_)
            try:
                if fn == desugar.POLL_FN:
                    res = desugar.desugar_select(facts, cur, bb)
                else:
                    res = desugar.desugar_iterator(facts, cur, bb) if fn in desugar.TERMINALS else desugar.desugar_combinator(facts, cur, bb)
            except Exception:
                res = None
            if res is None:
                continue
            nj, spliced = res
            nb = Body(cur.crate, nj)
            cur.crate.bodies[nb.def_] = nb
            cur.crate.body_list[cur.crate.body_list.index(cur)] = nb
            seen_bodies.add(b.def_)
            changed = True
            for d in spliced:
                cb = facts.body(d)
                if cb is not None:
                    cb.hidden = True
                done.append((b.def_, d))
                if hasattr(anchors, "adopt"):
                    anchors.adopt(d)
            facts.inlined = done
        if not changed:
            break
    # (two passes: a task function adopted in the first one may call helpers that can only be looked through once it is an anchor)
    for _outer in range(2):
        adopted_now = False
        for _ in range(MAX_ROUNDS):
            cands = single_caller_helpers(facts, anchors, pinned)
            if not cands:
                break
            # one call site per anchor per round (block indices shift only by appending, so several are fine too)
            for (b, bb, h, hide) in cands:
                cur = facts.body(b.def_)
                cor = None
                if isinstance(h, tuple):
                    (h, cor, params) = h
                    nj = inline_async_call(cur, bb, h, cor, params)
                    if nj is None:
                        continue
                else:
                    nj = inline_call(cur, bb, h)
                nb = Body(cur.crate, nj)
                nb.hidden = getattr(cur, "hidden", False)
                cur.crate.bodies[nb.def_] = nb
                cur.crate.body_list[cur.crate.body_list.index(cur)] = nb
                if hide:
                    h.hidden = True
                    hc = facts.body(h.def_)      # the helper may itself have been rebuilt in this round (something was spliced into it)
                    if hc is not None:
                        hc.hidden = True
                done.append((b.def_, h.def_))
                if cor is not None:
                    cor.hidden = True
                    done.append((b.def_, cor.def_))
                facts.inlined = done
                if hasattr(anchors, "adopt"):
                    anchors.adopt(h.def_)
                    if cor is not None:
                        anchors.adopt(cor.def_)
        # spawn adoption: a private async fn of the anchor's module whose future is handed straight to a spawn call in an anchor body
        # (`tokio::spawn(send_heartbeats(..))`) runs as a task of that anchor: its coroutine body is looked at "under" the anchor.
        SPAWNS = ("tokio::task::spawn::spawn", "tokio::task::spawn", "tokio::spawn", "tokio::task::local::spawn_local")
        sites = {}
        for b in facts.all_bodies():
            live = b.live_blocks()
            for c in b.calls():
                if c.bb in live and c.local:
                    sites.setdefault(c.fn, []).append((b, c))
        for fn, ss in sites.items():
            h = facts.body(fn)
            if h is None or fn in pinned or fn in _names_used_by_rules() or not (h.vis or "").startswith("Restricted"):
                continue
            sh = _async_shell(h)
            cor = facts.body(sh[0]) if sh else None
            if cor is None or any(b.def_ not in anchors for (b, c) in ss):
                continue
            ok = True
            for (b, c) in ss:
                if c.dest["p"]:
                    ok = False
                    break
                users = [u for u in b.calls() if u.bb in b.live_blocks() and any((a.get("move") or a.get("copy") or {}).get("l") == c.dest["l"] for a in u.args)]
                if not users or not all(u.fn.startswith(SPAWNS) or u.fn.endswith("::spawn") for u in users):
                    ok = False
            if ok and all((b.def_, cor.def_) in done for (b, c) in ss):
                ok = False
            if ok:
                adopted_now = True
                for (b, c) in ss:
                    # the shell (`_0 = {coroutine}(args..)`) is spliced, so that the spawn call receives the coroutine aggregate itself,
                    # exactly as with `tokio::spawn(async move { .. })`: rules read the captures off that aggregate
                    cur = facts.body(b.def_)
                    try:
                        nj = inline_call(cur, c.bb, h)
                    except Exception:
                        nj = None
                    if nj is not None:
                        nb = Body(cur.crate, nj)
                        nb.hidden = getattr(cur, "hidden", False)
                        cur.crate.bodies[nb.def_] = nb
                        cur.crate.body_list[cur.crate.body_list.index(cur)] = nb
                        h.hidden = True
                    done.append((b.def_, h.def_))
                    done.append((b.def_, cor.def_))
                if hasattr(anchors, "adopt"):
                    anchors.adopt(h.def_)      # the task body itself becomes an anchor
                    anchors.adopt(cor.def_)
                facts.inlined = done
        if not adopted_now:
            break
    thread_constant_flags(facts, anchors)
    return done
