"""Thorough tier: the quick rules plus (a) type-level compile-fail witnesses with compiling twins,
(b) a second extraction from a later MIR stage compared against the first, (c) a configured clippy cross-reference,
(d) checker self-validation: the selftest edits that concern this property must fire / stay silent.
Nothing here executes xs; (d) re-runs the static pipeline on edited scratch copies."""
import glob
import json
import os
import re
import shutil
import subprocess
import time

from . import extract, selftest
from .facts import Facts

WITNESS_DIR = os.path.join(extract.CACHE, "witness")

# (id, properties, error code, offending line, twin line, what it shows)
WITNESSES = [
    ("W1-partitions-private", ["C02", "C04", "C05", "C20"], "E0616",
     "let _ = &store.frame_partition;", "let _ = &store.path;",
     "no other crate can reach the primary partition handle (writes go through the audited batch functions)"),
    ("W1-idx-topic-private", ["C05", "C08"], "E0616", "let _ = &store.idx_topic;", "let _ = &store.path;", "the topic index handle is private to xs::store"),
    ("W1-idx-context-private", ["C05", "C06"], "E0616", "let _ = &store.idx_context;", "let _ = &store.path;", "the context index handle is private to xs::store"),
    ("W1-keyspace-private", ["C04"], "E0616", "let _ = &store.keyspace;", "let _ = &store.path;", "no other crate can create batches or skip the persist"),
    ("W2-contexts-private", ["C07", "C20"], "E0616", "let _ = &store.contexts;", "let _ = &store.path;", "the context registry can only be written by xs::store"),
    ("W3-broadcast-private", ["C02", "C03", "C11"], "E0616", "let _ = &store.broadcast_tx;", "let _ = &store.path;", "nobody outside xs::store can publish on the live channel"),
    ("W3-gc-queue-private", ["C08", "C09"], "E0616", "let _ = &store.gc_tx;", "let _ = &store.path;", "nobody outside xs::store can queue removals"),
    ("W5-append-lock-private", ["C02"], "E0616", "let _ = &store.append_lock;", "let _ = &store.path;", "the append critical section cannot be bypassed or held from outside"),
    ("W4-gctask-private", ["C08"], "E0603", "fn f(_t: xs::store::GCTask) {}", "fn f(_t: xs::store::TTL) {}", "GC requests cannot be forged by other crates"),
    ("W4-iter-frames-private", ["C01", "C09"], "E0624", "let _ = store.iter_frames(None, None);", "let _ = store.read_sync(None, None, None);",
     "the raw (unfiltered) iterator is not reachable from other crates; read_sync applies the expiry filter"),
]


def _rmeta():
    deps = os.path.join(extract.TARGET, "debug", "deps")
    c = sorted([x for x in glob.glob(os.path.join(deps, "libxs-*.rmeta")) if os.path.getsize(x) > 0], key=os.path.getmtime)
    if not c:
        raise extract.CheckerError("no libxs rmeta in the warm target dir")
    return c[-1], deps


def _rustc(src, out):
    rmeta, deps = _rmeta()
    env = extract.base_env()
    cmd = ["rustc", "+nightly", "--edition", "2021", "--crate-type", "lib", "--emit=metadata", "-o", out, "--extern", "xs=" + rmeta,
           "-L", "dependency=" + deps, "--error-format=json", "-Awarnings", src]
    r = subprocess.run(cmd, env=env, stdout=subprocess.PIPE, stderr=subprocess.PIPE, text=True)
    diags = []
    for line in r.stderr.splitlines():
        try:
            diags.append(json.loads(line))
        except ValueError:
            pass
    return r.returncode, diags


def run_witnesses(prop):
    os.makedirs(WITNESS_DIR, exist_ok=True)
    results = []
    ok_all = True
    for (wid, props, code, bad, good, what) in WITNESSES:
        if prop not in props:
            continue
        item_level = bad.startswith("fn ")
        res = {"id": wid, "expects": code, "shows": what}
        for variant, line in (("witness", bad), ("twin", good)):
            if item_level:
                body = "%s   // MARK\n" % line
            else:
                body = "pub fn w(store: &xs::store::Store) {\n    %s   // MARK\n}\n" % line
            src = os.path.join(WITNESS_DIR, "%s-%s.rs" % (wid, variant))
            with open(src, "w") as fh:
                fh.write("#![allow(unused)]\n" + body)
            rc, diags = _rustc(src, os.path.join(WITNESS_DIR, "%s-%s.rmeta" % (wid, variant)))
            errs = [d for d in diags if d.get("level") == "error" and d.get("code")]
            if variant == "witness":
                mark = open(src).read().split("\n").index([l for l in open(src).read().split("\n") if "// MARK" in l][0]) + 1
                hit = [d for d in errs if d["code"]["code"] == code and any(s.get("line_start") == mark for s in d.get("spans", []))]
                res["witness_fails_with"] = sorted({d["code"]["code"] for d in errs})
                res["witness_ok"] = rc != 0 and bool(hit) and len(errs) == len(hit)
            else:
                res["twin_compiles"] = rc == 0
        res["ok"] = bool(res.get("witness_ok")) and bool(res.get("twin_compiles"))
        ok_all = ok_all and res["ok"]
        results.append(res)
    return ok_all, results


def stage2_crosscheck(facts):
    """Second extraction from mir_drops_elaborated_and_const_checked (after borrowck) for the synchronous bodies:
    every crate-local / store-API call site seen in stage 1 must also exist in stage 2 (and vice versa)."""
    d2 = extract.facts_dir(stage=2)
    out = {"bodies_compared": 0, "bodies_skipped_async": 0, "mismatches": []}
    # the comparison is between what the extractor read at the two MIR stages: on the bodies as extracted, before any helper
    # is spliced or any combinator / select! desugared
    from .facts import Facts
    facts = Facts(facts.dir, splice=False)
    for fname, crate in (("xs-lib-s2.json", facts.lib), ("xs-bin-s2.json", facts.bin)):
        with open(os.path.join(d2, fname)) as fh:
            text = fh.read().replace("crate::", crate.name + "::")
        j = json.loads(text)
        out["bodies_skipped_async"] += len(j.get("skipped", []))
        s2 = {b["def"]: b for b in j["bodies"]}
        for b in crate.body_list:
            if b.def_ not in s2:
                continue
            interesting = lambda fn: fn.startswith(("xs::", "xsbin::", "fjall::", "cacache::", "tokio::sync::", "scru128::"))
            a = sorted((c.fn, c.fn_sp) for c in b.calls() if c.bb in b.live_blocks() and interesting(c.fn) and not c.from_macro())
            bb = sorted((c["fn"], c["sp"]) for c in s2[b.def_]["calls"] if interesting(c["fn"]) and not (c.get("exp") and any(x.startswith(("bang", "attr", "derive", "macro")) for x in c["exp"])))
            # stage 2 may duplicate call sites on drop-elaborated paths; compare as sets
            if set(a) != set(bb):
                out["mismatches"].append({"body": b.def_, "only_stage1": sorted(set(a) - set(bb))[:5], "only_stage2": sorted(set(bb) - set(a))[:5]})
            out["bodies_compared"] += 1
    return (not out["mismatches"]), out


def clippy_crossref(prop, run):
    """Configured generic lints as an independent, type-resolved enumeration (second opinion, never a verdict)."""
    if prop not in ("C13", "C02"):
        return True, None
    env = extract.base_env()
    env["CARGO_TARGET_DIR"] = os.path.join(extract.CACHE, "clippy-target")
    lints = ["clippy::unwrap_used", "clippy::expect_used", "clippy::panic", "clippy::indexing_slicing", "clippy::await_holding_lock"]
    cmd = ["cargo", "+nightly", "clippy", "--offline", "--lib", "--message-format=json", "--"] + ["-W" + l for l in lints]
    r = subprocess.run(cmd, cwd=extract.REPO, env=env, stdout=subprocess.PIPE, stderr=subprocess.PIPE, text=True)
    sites = {}
    for line in r.stdout.splitlines():
        try:
            m = json.loads(line)
        except ValueError:
            continue
        msg = m.get("message") if m.get("reason") == "compiler-message" else None
        if not msg or not msg.get("code"):
            continue
        code = msg["code"]["code"]
        for s in msg.get("spans", []):
            if s.get("is_primary"):
                sites.setdefault(code, set()).add((s["file_name"], s["line_start"]))
    out = {"lints": lints, "counts": {k: len(v) for k, v in sites.items()}}
    ok = True
    if prop == "C13":
        cl = {ln for (f, ln) in sites.get("clippy::unwrap_used", set()) | sites.get("clippy::expect_used", set()) if f == "src/api.rs"}
        mine = set()
        for o in run.obs:
            if o.rule == "R-C13-2" and "|panic-site|" in o.key:
                m = re.search(r":(\d+):\d+$", o.where)
                if m:
                    mine.add(int(m.group(1)))
        # clippy reports the line of the receiver expression start; the extractor the call: compare by membership within 6 lines
        missing = [l for l in mine if not any(abs(l - c) <= 6 for c in cl)]
        out["api_rs_unwrap_sites_clippy"] = sorted(cl)
        out["api_rs_panic_sites_rule"] = sorted(mine)
        out["rule_sites_unknown_to_clippy"] = missing
        ok = not missing
    if prop == "C02":
        out["await_holding_lock"] = sorted(sites.get("clippy::await_holding_lock", set()))
        ok = not out["await_holding_lock"]
    return ok, out


def run(prop, facts, run_obj):
    extra = {}
    rc = 0
    t0 = time.time()
    okw, wres = run_witnesses(prop)
    extra["witnesses"] = wres
    if not okw:
        print("CHECKER-WITNESS-FAILED property=%s %s" % (prop, [w["id"] for w in wres if not w["ok"]]))
        rc = 2
    try:
        ok2, s2 = stage2_crosscheck(facts)
    except extract.CheckerError as e:
        ok2, s2 = False, {"error": str(e)[-500:]}
    extra["stage2_crosscheck"] = s2
    if not ok2:
        print("CHECKER-STAGE2-MISMATCH property=%s %s" % (prop, json.dumps(s2)[:600]))
        rc = 2
    try:
        okc, cres = clippy_crossref(prop, run_obj)
    except Exception as e:
        okc, cres = True, {"error": str(e)[:300]}
    if cres is not None:
        extra["clippy_crossref"] = cres
        if not okc:
            print("CHECKER-CLIPPY-DISAGREES property=%s %s" % (prop, json.dumps(cres)[:600]))
            rc = 2
    res = selftest.run(props=[prop], jobs=8, verbose=False)
    bad = [r for r in res if r["status"] in ("FAILED", "error")]
    extra["selftest"] = {"entries": len(res), "ok": sum(r["status"] == "ok" for r in res), "skipped": sum(r["status"] == "skipped" for r in res),
                         "failed": [r["id"] for r in bad], "detail": [{"id": r["id"], "status": r["status"], "fired": r.get("fired", [])[:4]} for r in res]}
    if bad:
        print("CHECKER-SELFTEST-FAILED property=%s %s" % (prop, [r["id"] for r in bad]))
        rc = 2
    extra["wall_s"] = round(time.time() - t0, 1)
    print("%s thorough extras: %d witness(es), stage-2 compared %s bodies, selftest %d/%d ok  [%.1fs]" % (
        prop, len(wres), s2.get("bodies_compared"), extra["selftest"]["ok"], extra["selftest"]["entries"], extra["wall_s"]))
    return rc, extra
