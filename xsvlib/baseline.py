"""Frozen description of the PRIVATE items the rules name (functions, methods, enums), taken from the tree the rules were confirmed on
(`./xsv baseline` rewrites xsvlib/baseline.json from /repo's current tree; it is committed, never written by a check).

Rules name functions and types by path.  Public names are API (the unit tests pin most of them); private ones can be renamed at
will by a maintainer without any change of behaviour.  When a private item a rule names is missing from the tree under analysis,
`match(facts)` looks for the one item that took its place:

* an enum / struct: the only local type of the same kind whose variants have, position by position, the same field types (variant
  and field names are then mapped by position);
* a function or method: same parameter and return types (after the type renames), and a body that calls the same things - the
  best candidate by Jaccard similarity of callee sets, accepted when it is similar enough and clearly ahead of the runner-up.

Nothing is matched for an item that is still there under its name, so on an unrenamed tree this module does nothing."""
import json
import os
import re

HERE = os.path.dirname(os.path.abspath(__file__))
PATH = os.path.join(HERE, "baseline.json")
MIN_SCORE = 0.55
MARGIN = 0.12


# private types whose variant / field names rules use without naming the type's path
EXTRA_ADTS = ("xs::handlers::handler::ResumeFrom", "xs::handlers::serve::TopicState")


def _norm_ty(s, ty_renames):
    for (a, e) in ty_renames:
        s = re.sub(re.escape(a) + r"(?![A-Za-z0-9_])", e, s)
    # the anonymous future of an async fn carries the function's own name
    s = re.sub(r"\{async fn body of [^}]*\}", "{async}", s)
    s = re.sub(r"\{(closure|coroutine)[^}]*\}", "{closure}", s)
    return s


def _sig(body, ty_renames=()):
    tys = [body.local_tystr(i) for i in range(0, body.argc + 1)]
    return [_norm_ty(t, ty_renames) for t in tys]


def _callees(facts, def_):
    out = set()
    for b in [facts.body(def_)] + [x for x in facts.bodies_under(def_) if x.def_ != def_]:
        if b is None:
            continue
        live = b.live_blocks()
        for c in b.calls():
            if c.bb in live and c.fn != "<indirect>" and not _diagnostic(c.exp):
                out.add(c.fn)
    return out


def _diagnostic(exp):
    """Part of a `tracing` event or of a formatting macro: logging added or removed does not make a function a different one."""
    return bool(exp) and any("tracing" in str(x) for x in exp)


def _consts(facts, def_):
    """Integer and string literals of a function (and its closures): they tell `response_400` from `response_500`."""
    out = set()

    def walk(o):
        if isinstance(o, dict):
            c = o.get("const")
            if isinstance(c, dict):
                if "str" in c and len(c["str"]) < 80:
                    out.add("str:" + c["str"])
                elif "int" in c:
                    out.add("int:" + str(c["int"]))
                elif "uneval" in c and not str(c["uneval"]).startswith(("tracing", "xs::", "xsbin::")):
                    out.add("const:" + str(c["uneval"]))
            for v in o.values():
                walk(v)
        elif isinstance(o, list):
            for v in o:
                walk(v)

    for b in [facts.body(def_)] + [x for x in facts.bodies_under(def_) if x.def_ != def_]:
        if b is None:
            continue
        live = b.live_blocks()
        for bi, blk in enumerate(b.j["blocks"]):
            if bi in live:
                for st in blk["stmts"]:
                    if not _diagnostic(st.get("exp")):
                        walk(st)
                if not _diagnostic(blk["term"].get("exp")):
                    walk(blk["term"])
    return out


def _adt_shape(crate, a):
    return [[v["name"], [[fl["name"], crate.types.s(fl["ty"])] for fl in v["fields"]]] for v in a["variants"]]


def private_names(facts):
    from . import inline
    from .facts import PINNED_NAMES, ROLE_FNS
    names = set(inline._names_used_by_rules() | set(PINNED_NAMES) | set(ROLE_FNS))
    # families the rules and the splicer know by prefix (every `xs::api::handle_*`, every `xs::api::response_*`)
    for b in facts.all_bodies():
        if b.kind == "Fn" and b.def_.startswith(inline.ROLE_PREFIXES) and "{" not in b.def_:
            names.add(b.def_)
    names = sorted(names)
    fns, adts = [], []
    for n in EXTRA_ADTS:
        for c in facts.crates:
            if n in c.adts and str(c.adts[n].get("vis")).startswith("Restricted"):
                adts.append(n)
    for n in names:
        b = facts.body(n)
        if b is not None and b.kind in ("Fn", "AssocFn"):
            if str(b.vis or "").startswith("Restricted"):
                fns.append(n)
            continue
        for c in facts.crates:
            if n in c.adts and str(c.adts[n].get("vis")).startswith("Restricted"):
                adts.append(n)
    return fns, adts


def build(facts):
    fns, adts = private_names(facts)
    out = {"fns": {}, "adts": {}}
    for n in fns:
        b = facts.body(n)
        out["fns"][n] = {"kind": b.kind, "sig": _sig(b), "callees": sorted(_callees(facts, n)), "consts": sorted(_consts(facts, n))}
    for n in adts:
        for c in facts.crates:
            if n in c.adts:
                out["adts"][n] = {"kind": c.adts[n]["kind"], "shape": _adt_shape(c, c.adts[n])}
    return out


def load():
    try:
        with open(PATH) as fh:
            return json.load(fh)
    except (OSError, ValueError):
        return {"fns": {}, "adts": {}}


def _shape_types(shape, ty_renames):
    return [[_norm_ty(t, ty_renames) for (_, t) in fields] for (_, fields) in shape]


def match_adts(facts, base):
    """([(actual path, expected path)], {expected path: [(variant name, [field names])]} for shapes whose names differ)."""
    paths, shapes = [], {}
    for n, info in base["adts"].items():
        root = n.split("::")[0]
        cands = []
        for c in facts.crates:
            if c.name != root:
                continue
            here = c.adts.get(n)
            pool = [here] if here is not None else [a for d, a in c.adts.items() if d not in base["adts"] and str(a.get("vis")).startswith("Restricted")]
            for a in pool:
                if a["kind"] != info["kind"] or len(a["variants"]) != len(info["shape"]):
                    continue
                ren = [(a["def"], n)]
                if _shape_types(_adt_shape(c, a), ren) == _shape_types(info["shape"], ()):
                    cands.append((c, a))
        if len(cands) != 1:
            continue
        c, a = cands[0]
        if a["def"] != n:
            paths.append((a["def"], n))
        actual = [[v, [f for (f, _) in fs]] for (v, fs) in _adt_shape(c, a)]
        want = [[v, [f for (f, _) in fs]] for (v, fs) in info["shape"]]
        if actual != want:
            shapes[n] = want
    return paths, shapes


def match_fns(facts, base, ty_renames):
    """[(actual def, expected def)] for missing private functions / methods."""
    out = []
    taken = set()
    known = {b.def_ for c in facts.crates for b in c.body_list}
    missing = [n for n in base["fns"] if n not in known]
    if not missing:
        return out
    rename_map = {}

    def canon(fn):
        return rename_map.get(fn, fn)

    pool = []
    for c in facts.crates:
        for b in c.body_list:
            if b.kind in ("Fn", "AssocFn") and b.def_ not in base["fns"] and "{" not in b.def_ and "::tests::" not in b.def_ \
                    and str(b.vis or "").startswith("Restricted"):
                pool.append(b)
    cal = {b.def_: _callees(facts, b.def_) for b in pool}
    con = {b.def_: _consts(facts, b.def_) for b in pool}
    for _round in range(4):
        progress = False
        for n in missing:
            if n in rename_map.values():
                continue
            info = base["fns"][n]
            root = n.split("::")[0]
            want = set(info["callees"]) | set(info.get("consts", []))
            scored = []
            for b in pool:
                if b.def_ in taken or b.def_.split("::")[0] != root or b.kind != info["kind"]:
                    continue
                if _sig(b, ty_renames) != info["sig"]:
                    continue
                got = {canon(x) for x in cal[b.def_]}
                # a recursive / self-naming callee is compared under the expected name
                got = {n if x == b.def_ else x for x in got} | con[b.def_]
                u = want | got
                scored.append((len(want & got) / len(u) if u else 1.0, b.def_))
            scored.sort(reverse=True)
            if not scored or scored[0][0] < MIN_SCORE:
                continue
            if len(scored) > 1 and scored[0][0] - scored[1][0] < MARGIN:
                continue
            rename_map[scored[0][1]] = n
            taken.add(scored[0][1])
            progress = True
        if not progress:
            break
    return sorted(rename_map.items(), key=lambda x: -len(x[0]))


def apply_shapes(j, shapes):
    """Rename variants and fields of the listed ADTs (by position) everywhere in a crate's fact JSON."""
    if not shapes:
        return

    def vname(adt, vi):
        return shapes[adt][vi][0]

    def fname(adt, vi, fi):
        fs = shapes[adt][vi][1]
        return fs[fi] if fi < len(fs) else None

    def walk(o):
        if isinstance(o, dict):
            adt = o.get("adt")
            if adt in shapes:
                if "vidx" in o and "variant" in o and o["vidx"] < len(shapes[adt]):
                    o["variant"] = vname(adt, o["vidx"])
                    if isinstance(o.get("fields"), list):
                        o["fields"] = list(shapes[adt][o["vidx"]][1])[:len(o["fields"])] + o["fields"][len(shapes[adt][o["vidx"]][1]):]
                if isinstance(o.get("variants"), list) and len(o["variants"]) == len(shapes[adt]) and all(isinstance(x, str) for x in o["variants"]):
                    o["variants"] = [v for (v, _) in shapes[adt]]
            p = o.get("p")
            if isinstance(p, list):
                for k, e in enumerate(p):
                    if isinstance(e, dict) and "f" in e and e.get("adt") in shapes:
                        a2 = e["adt"]
                        vi = 0
                        if k > 0 and isinstance(p[k - 1], dict) and "dc" in p[k - 1]:
                            vi = p[k - 1].get("v", 0)
                            if vi < len(shapes[a2]):
                                p[k - 1]["dc"] = vname(a2, vi)
                        if vi < len(shapes[a2]):
                            nn = fname(a2, vi, e["f"])
                            if nn is not None:
                                e["n"] = nn
            for v in o.values():
                walk(v)
        elif isinstance(o, list):
            for v in o:
                walk(v)

    for a in j["adts"]:
        if a["def"] in shapes and len(a["variants"]) == len(shapes[a["def"]]):
            for v, (vn, fns) in zip(a["variants"], shapes[a["def"]]):
                v["name"] = vn
                for fl, fn in zip(v["fields"], fns):
                    fl["name"] = fn
    walk(j["bodies"])


def main(argv):
    from . import extract
    from .facts import Facts
    f = Facts(extract.facts_dir(), splice=False)
    b = build(f)
    with open(PATH, "w") as fh:
        json.dump(b, fh, indent=1, sort_keys=True)
    print("baseline: %d private functions, %d private types -> %s" % (len(b["fns"]), len(b["adts"]), PATH))
    return 0
