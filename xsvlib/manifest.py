"""Generate MANIFEST.json from the rule modules that exist (one check per implemented property)."""
import importlib
import json
import os
import sys

from . import extract

VERIF = extract.VERIF
ALL = ["C%02d" % i for i in range(1, 21)]


def build():
    sys.path.insert(0, VERIF)
    checks = []
    na = []
    for p in ALL:
        path = os.path.join(VERIF, "rules", p + ".py")
        if not os.path.exists(path):
            na.append({"property_id": p, "reason": "rules for this property are not implemented yet in this round (static clauses are planned in DESIGN.md section 4)"})
            continue
        mod = importlib.import_module("rules.%s" % p)
        if getattr(mod, "NOT_APPLICABLE", None):
            na.append({"property_id": p, "reason": mod.NOT_APPLICABLE})
            continue
        nrules = len(mod.RULES)
        checks.append({
            "property_id": p,
            "quick_cmd": "./xsv check %s --tier quick" % p,
            "thorough_cmd": "./xsv check %s --tier thorough" % p,
            "evidence_file": "/verif/evidence/%s.json" % p,
            "replay_cmd_template": "./xsv explain {path}",
            "engine": "xsv",
            "level_claimed": {
                "category": "other",
                "text": ("Static proof, over all normal CFG paths / all call sites of the type-checked MIR of /repo's current tree, of %d named "
                         "structural necessary conditions of the property (%s). The behaviour itself (histories, schedules, crash points) is "
                         "NOT decided; see not_decided in the evidence file.") % (nrules, "; ".join(r[0] for r in mod.RULES)),
                "design_ref": "DESIGN.md section 4, %s" % p,
            },
            "level_note": "Trusted: rustc nightly MIR as the program semantics, fjall/cacache/scru128/tokio/bon/serde/nushell contracts "
                          "(DESIGN.md 1.9). Path feasibility over-approximated. Not decided: " + "; ".join(getattr(mod, "NOT_DECIDED", [])),
            "technique": getattr(mod, "TECHNIQUE", "static analysis: MIR fact extraction (rustc_private driver) + dominance / lock-region / provenance rules"),
        })
    m = {
        "version": 1,
        "setup_cmd": "./xsv setup",
        "hooks": {
            "guard": "xs_verif",
            "enable": "none needed: the checks read rustc's MIR of the unmodified sources (cargo +nightly check with the xsv-extract RUSTC_WORKSPACE_WRAPPER); no hook code exists in /repo",
            "baseline_off_cmd": "cd /repo && cargo test --workspace --no-fail-fast --offline < /dev/null",
            "source_commits": [],
            "add_only": True,
        },
        "engines": [
            {"name": "xsv-extract", "path": "/verif/extract", "serves_properties": [c["property_id"] for c in checks],
             "kind_free_text": "rustc_private driver (nightly) run as RUSTC_WORKSPACE_WRAPPER: serialises mir_built of every lib/bin body with resolved callees, constants, types, captures"},
            {"name": "xsv", "path": "/verif/xsv", "serves_properties": [c["property_id"] for c in checks],
             "kind_free_text": "python rule engine over the MIR facts: dominance / must-pass-through, lock regions, value provenance, builder typestate, symbolic key layout, writer/reader table agreement"},
        ],
        "checks": checks,
        "not_applicable": na,
        "notes": "Static analysis only: no check executes xs. Known findings: /verif/known_findings.json. Exit 2 = checker error (e.g. /repo does not compile).",
    }
    return m


def write():
    m = build()
    with open(os.path.join(VERIF, "MANIFEST.json"), "w") as fh:
        json.dump(m, fh, indent=1)
    return m
