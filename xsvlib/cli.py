import sys

from . import extract
from .facts import Facts


def main(argv):
    if not argv:
        print("usage: xsv setup | check <id> [--tier quick|thorough] | dump <substr> | explain <path>")
        return 2
    cmd = argv[0]
    if cmd == "setup":
        extract.setup()
        return 0
    if cmd == "dump":
        from .dump import dump_body
        f = Facts(extract.facts_dir())
        for b in f.all_bodies():
            if any(a in b.def_ for a in argv[1:]):
                dump_body(b, sys.stdout)
        return 0
    if cmd == "check":
        from . import engine
        return engine.main_check(argv[1:])
    if cmd == "baseline":
        from . import baseline
        return baseline.main(argv[1:])
    if cmd == "seed-eval":
        from . import seed
        return seed.main(argv[1:])
    if cmd == "mutate":
        from . import mutate
        return mutate.main(argv[1:])
    if cmd == "selftest":
        from . import selftest
        return selftest.main(argv[1:])
    if cmd == "manifest":
        from . import manifest
        m = manifest.write()
        print("MANIFEST.json: %d checks, %d not_applicable" % (len(m["checks"]), len(m["not_applicable"])))
        return 0
    if cmd == "variant":
        from . import variant
        return variant.main(argv[1:])
    if cmd == "explain":
        from . import engine
        return engine.main_explain(argv[1:])
    print("unknown command", cmd)
    return 2
