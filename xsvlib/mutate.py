"""Mutation sweep (checker self-validation, not a property check): generate first-order syntactic mutants of the files the
properties are anchored in, push each through the same scratch-copy pipeline as the selftests, and report which mutants no rule
notices. Survivors are triaged by hand: equivalent / irrelevant to every property / a gap (-> new rule + selftest entry).
Nothing is executed; a mutant that does not compile is discarded.

  xsv mutate [-j N] [--files f1,f2] [--ops op1,op2] [--sample K] [--out report.json]
"""
import concurrent.futures
import json
import os
import random
import re
import sys
import time

from . import extract, variant

FILES = [
    "src/store/mod.rs", "src/store/ttl.rs", "src/api.rs", "src/handlers/handler.rs", "src/handlers/serve.rs",
    "src/generators/serve.rs", "src/commands/serve.rs", "src/nu/commands/append_command.rs",
    "src/nu/commands/append_command_buffered.rs", "src/nu/commands/cat_command.rs", "src/nu/commands/head_command.rs",
    "src/nu/commands/cas_command.rs", "src/nu/commands/get_command.rs", "src/nu/commands/remove_command.rs",
    "src/nu/util.rs", "src/nu/config.rs", "src/client/request.rs", "src/client/commands.rs",
]

REL = [(" < ", " <= "), (" <= ", " < "), (" > ", " >= "), (" >= ", " > "), (" == ", " != "), (" != ", " == "),
       (" < ", " > "), (" >= ", " <= ")]
LOGIC = [(" && ", " || "), (" || ", " && ")]
WORDS = [("Bound::Excluded", "Bound::Included"), ("Bound::Included", "Bound::Excluded"), ("Excluded(", "Included("), ("Included(", "Excluded("),
         (".rev()", ""), ("continue;", "break;"), ("break;", "continue;"),
         ("TTL::Forever", "TTL::Ephemeral"), ("TTL::Ephemeral", "TTL::Forever"), ("ZERO_CONTEXT", "frame.context_id"),
         (".is_some()", ".is_none()"), (".is_none()", ".is_some()"), (".is_ok()", ".is_err()"), (".is_err()", ".is_ok()"),
         (".is_empty()", ".is_empty() == false"), ("saturating_sub(1)", "saturating_sub(0)"), (" + 1", " + 0"), (" - 1", " - 0"),
         ("FollowOption::Off", "FollowOption::On"), ("FollowOption::On", "FollowOption::Off")]


def code_part(line):
    """Line without trailing // comment (naive: ignores // inside string literals that contain a quote before it)."""
    i = line.find("//")
    while i >= 0:
        if line[:i].count('"') % 2 == 0:
            return line[:i]
        i = line.find("//", i + 2)
    return line


def in_string(line, pos):
    return line[:pos].count('"') % 2 == 1


def mutants_of(path, text):
    lines = text.split("\n")
    out = []
    in_test = False
    depth_at_test = None
    depth = 0
    for n, line in enumerate(lines):
        st = line.strip()
        if st.startswith("#[cfg(test)]"):
            in_test = True
            depth_at_test = depth
            continue
        depth += line.count("{") - line.count("}")
        if in_test:
            # `#[cfg(test)] mod tests;` (one line) or a block: the test region ends when the depth returns
            if st.endswith(";") and depth == depth_at_test and "{" not in line:
                in_test = False
            elif depth <= depth_at_test and "}" in line:
                in_test = False
            continue
        if not st or st.startswith(("//", "#[", "use ", "pub use ", "mod ", "pub mod ", "tracing::", "eprintln!", "println!")):
            continue
        code = code_part(line)
        rest = line[len(code):]

        def add(op, new_code):
            if new_code != code:
                out.append({"file": path, "line": n + 1, "op": op, "old": line, "new": new_code + rest})

        for (a, b) in REL + LOGIC:
            start = 0
            k = 0
            while True:
                i = code.find(a, start)
                if i < 0:
                    break
                if not in_string(code, i) and "->" not in code[max(0, i - 1):i + 3] and "=>" not in code[max(0, i - 1):i + 3]:
                    add("rel:%s>%s#%d" % (a.strip(), b.strip(), k), code[:i] + b + code[i + len(a):])
                k += 1
                start = i + len(a)
        for (a, b) in WORDS:
            i = code.find(a)
            if i >= 0 and not in_string(code, i):
                add("word:%s>%s" % (a, b or "<del>"), code[:i] + b + code[i + len(a):])
        for m in re.finditer(r"\b(true|false)\b", code):
            if not in_string(code, m.start()):
                add("bool:%s" % m.group(1), code[:m.start()] + ("false" if m.group(1) == "true" else "true") + code[m.end():])
        m = re.search(r"\bif !(?!\[)", code)
        if m:
            add("neg:drop", code[:m.start()] + "if " + code[m.end():])
        m = re.search(r"\bif (?!let\b)(?!!)", code)
        if m and st.endswith("{") and " = " not in code[m.end():]:
            cond = code[m.end():].rstrip()[:-1].rstrip()
            if cond and "{" not in cond:
                add("neg:add", code[:m.end()] + "!(" + cond + ") {")
        # statement deletion: a self-contained effect statement
        if st.endswith(";") and not st.startswith(("let ", "return", "break", "continue", "pub ", "const ", "static ", "type ", "}", ")", "]", ".")) \
                and code.count("(") == code.count(")") and code.count("{") == code.count("}") and "(" in code:
            add("del:stmt", code[:len(code) - len(code.lstrip())] + "{}")
        if st.startswith("let _ = ") and st.endswith(";") and code.count("(") == code.count(")"):
            add("del:let_", code[:len(code) - len(code.lstrip())] + "{}")
        # one link of a method chain dropped (optional builder setter, .rev(), .take(..), .filter(..))
        if re.match(r"\.\w+\(.*\)\??$", st) and code.count("(") == code.count(")") and not st.startswith((".await", ".build()", ".unwrap", ".expect")):
            add("del:chain", code[:len(code) - len(code.lstrip())])
        # error swallowing
        if st.endswith("?;") and not st.startswith("let ") and code.count("(") == code.count(")"):
            add("err:swallow", code.rstrip()[:-2] + ".ok();")
        # early return removal
        if re.match(r"return\b.*;$", st) and code.count("(") == code.count(")"):
            pass
    seen = set()
    uniq = []
    for m in out:
        k = (m["file"], m["line"], m["new"])
        if k not in seen:
            seen.add(k)
            uniq.append(m)
    return uniq


def generate(files=None, ops=None):
    ms = []
    for f in files or FILES:
        p = os.path.join(extract.REPO, f)
        if not os.path.exists(p):
            continue
        with open(p) as fh:
            ms += mutants_of(f, fh.read())
    if ops:
        ms = [m for m in ms if any(m["op"].startswith(o) for o in ops)]
    for i, m in enumerate(ms):
        m["id"] = "M%04d" % i
    return ms


def run_one(m, worker, props):
    d = variant.make_scratch(worker)
    try:
        p = os.path.join(d, m["file"])
        with open(p) as fh:
            lines = fh.read().split("\n")
        if lines[m["line"] - 1] != m["old"]:
            return dict(m, status="stale")
        lines[m["line"] - 1] = m["new"]
        with open(p, "w") as fh:
            fh.write("\n".join(lines))
        try:
            res = variant.check_variant(d, props, worker, keep_facts=False)
        except extract.CheckerError:
            return dict(m, status="nocompile")
        fired = {}
        for pr in props:
            ks = [v["key"] for v in res[pr]["violations"]]
            if ks:
                fired[pr] = ks
        return dict(m, status="killed" if fired else "survived", fired=fired)
    finally:
        variant.cleanup(worker)


def _work(args):
    w, bucket, props = args
    r = []
    for m in bucket:
        try:
            r.append(run_one(m, "m%d" % (w + 1), props))
        except Exception as e:
            r.append(dict(m, status="checker-crash", why=str(e)[:300]))
    return r


def main(argv):
    jobs, files, ops, sample, out = 10, None, None, None, os.path.join(extract.CACHE, "mutation-report.json")
    ids, only_props = None, None
    it = iter(argv)
    for a in it:
        if a == "-j":
            jobs = int(next(it))
        elif a == "--files":
            files = next(it).split(",")
        elif a == "--ops":
            ops = next(it).split(",")
        elif a == "--sample":
            sample = int(next(it))
        elif a == "--out":
            out = next(it)
        elif a == "--ids":
            ids = set(next(it).split(","))
        elif a == "--props":
            only_props = next(it).split(",")
        elif a == "--list":
            for m in generate(files, ops):
                print(m["id"], m["file"], m["line"], m["op"], "|", m["new"].strip()[:120])
            return 0
    ms = generate(files, ops)
    if ids:
        ms = [m for m in ms if m["id"] in ids]
        out = os.path.join(extract.CACHE, "mutation-subset.json")
    if sample and sample < len(ms):
        random.Random(1).shuffle(ms)
        ms = sorted(ms[:sample], key=lambda m: m["id"])
    props = only_props or ["C%02d" % i for i in range(1, 21)]
    print("mutate: %d mutants, %d workers" % (len(ms), jobs))
    t0 = time.time()
    buckets = [[] for _ in range(jobs)]
    for i, m in enumerate(ms):
        buckets[i % jobs].append(m)
    results = []
    # processes, not threads: rule evaluation is CPU-bound Python
    with concurrent.futures.ProcessPoolExecutor(max_workers=jobs) as ex:
        for r in ex.map(_work, [(w, buckets[w], props) for w in range(jobs)]):
            results += r
    for w in range(jobs):
        variant.cleanup("m%d" % (w + 1), target_too=True)
    results.sort(key=lambda m: m["id"])
    by = {}
    for r in results:
        by.setdefault(r["status"], []).append(r)
    with open(out, "w") as fh:
        json.dump({"tree": extract.tree_hash(), "wall_s": round(time.time() - t0), "counts": {k: len(v) for k, v in by.items()}, "results": results}, fh, indent=1)
    print("mutate: %s  [%.0fs]  report: %s" % ({k: len(v) for k, v in by.items()}, time.time() - t0, out))
    if ids:
        for r in by.get("killed", []):
            print("KILLED   %s %s:%d %s | %s" % (r["id"], r["file"], r["line"], r["op"], sorted(k for ks in r["fired"].values() for k in ks)[:3]))
    for r in by.get("survived", []):
        print("SURVIVED %s %s:%d %s | %s" % (r["id"], r["file"], r["line"], r["op"], r["new"].strip()[:110]))
    return 0
