"""Fact model over the extractor's JSON: bodies, CFG (normal paths only), expression
resolution (def-use over mir_built temporaries), guards in normal form, reachability /
must-pass-through primitives.  Pure python stdlib; never executes the analysed program."""
import json
import os
import re
from collections import defaultdict, deque


class FactError(Exception):
    """The facts cannot be interpreted (checker failure / fail-closed)."""


# ----------------------------------------------------------------------------- types

class Types:
    def __init__(self, table):
        self.t = table
        self._s = {}

    def get(self, i):
        return self.t[i]

    def s(self, i, depth=0):
        if i in self._s:
            return self._s[i]
        if depth > 40:
            return "..."
        t = self.t[i]
        k = t["k"]
        if k == "adt":
            args = [self.s(a, depth + 1) if isinstance(a, int) else a.get("c", "?") for a in t["a"]]
            r = t["n"] + ("<" + ", ".join(args) + ">" if args else "")
        elif k == "ref":
            r = ("&mut " if t["m"] else "&") + self.s(t["t"], depth + 1)
        elif k == "ptr":
            r = ("*mut " if t["m"] else "*const ") + self.s(t["t"], depth + 1)
        elif k == "tuple":
            r = "(" + ", ".join(self.s(a, depth + 1) for a in t["a"]) + ")"
        elif k == "slice":
            r = "[" + self.s(t["t"], depth + 1) + "]"
        elif k == "array":
            r = "[" + self.s(t["t"], depth + 1) + "; " + t["len"] + "]"
        elif k in ("closure", "coroutine"):
            r = "{" + k + ":" + t["d"] + "}"
        elif k == "fndef":
            r = "fn " + t["d"]
        elif k in ("prim", "param"):
            r = t["n"]
        else:
            r = t.get("s", "?")
        self._s[i] = r
        return r

    def adt_name(self, i):
        t = self.t[i]
        while t["k"] in ("ref", "ptr"):
            t = self.t[t["t"]]
        return t["n"] if t["k"] == "adt" else None

    def peel(self, i):
        t = self.t[i]
        while t["k"] in ("ref", "ptr"):
            i = t["t"]
            t = self.t[i]
        return i

    def contains_adt(self, i, name, depth=0):
        """Does type i mention ADT `name` anywhere in its tree?"""
        if depth > 30:
            return False
        t = self.t[i]
        k = t["k"]
        if k == "adt":
            if t["n"] == name:
                return True
            return any(isinstance(a, int) and self.contains_adt(a, name, depth + 1) for a in t["a"])
        if k in ("ref", "ptr", "slice", "array"):
            return self.contains_adt(t["t"], name, depth + 1)
        if k == "tuple":
            return any(self.contains_adt(a, name, depth + 1) for a in t["a"])
        return False

    def adaptor_chain(self, i):
        """For nested iterator adaptor types return the list of ADT names outermost-first,
        following the first type argument (Take<Filter<Box<..>>> -> [Take, Filter, Box, ...])."""
        out = []
        seen = 0
        while seen < 30:
            seen += 1
            t = self.t[i]
            if t["k"] in ("ref", "ptr"):
                i = t["t"]
                continue
            if t["k"] != "adt":
                out.append(self.s(i))
                break
            out.append(t["n"])
            nxt = [a for a in t["a"] if isinstance(a, int)]
            if not nxt:
                break
            i = nxt[0]
        return out


# ----------------------------------------------------------------------------- expressions
# Expr = tuple, first element is the tag.
#  ('arg', l, name) ('local', l, name) ('upvar', name) ('field', base, name_or_idx) ('deref', base)
#  ('downcast', base, variant) ('index', base) ('ref', e) ('const', cdict) ('call', CallSite, [args])
#  ('agg', info, [ops]) ('bin', op, l, r) ('un', op, x) ('cast', e, tystr) ('discr', e) ('await', e)
#  ('phi', l, [exprs]) ('yield',)

PASS_THROUGH_FNS = (
    "core::clone::Clone::clone", "core::convert::AsRef::as_ref", "core::convert::Into::into",
    "core::convert::From::from", "core::borrow::Borrow::borrow", "core::ops::deref::Deref::deref",
    "core::ops::deref::DerefMut::deref_mut", "alloc::borrow::ToOwned::to_owned",
    "core::option::Option::<T>::as_ref", "core::option::Option::<T>::as_deref", "core::option::Option::<T>::cloned",
    "core::option::Option::<T>::copied", "core::option::Option::<&T>::cloned", "core::option::Option::<&T>::copied",
    "core::option::Option::<T>::unwrap", "core::option::Option::<T>::expect", "core::result::Result::<T, E>::unwrap",
    "core::result::Result::<T, E>::expect", "core::option::Option::<T>::as_mut",
    "core::future::into_future::IntoFuture::into_future", "core::pin::Pin::<Ptr>::new_unchecked",
    "core::iter::traits::collect::IntoIterator::into_iter", "alloc::string::ToString::to_string",
    "alloc::string::String::as_str", "alloc::string::String::as_bytes", "core::str::<impl str>::as_bytes",
    "alloc::slice::<impl [T]>::to_vec", "core::result::Result::<T, E>::map_err", "core::result::Result::<T, E>::ok",
    "core::pin::Pin::<Ptr>::new",
)


class CallSite:
    __slots__ = ("body", "bb", "fn", "fnx", "res", "resx", "args", "dest", "target", "sp", "exp", "ga", "local", "fn_sp", "raw")

    def __init__(self, body, bb, term):
        self.body = body
        self.bb = bb
        self.fn = term.get("fn", "<indirect>")
        self.fnx = term.get("fnx", self.fn)
        self.res = term.get("res")
        self.resx = term.get("resx")
        self.args = term["args"]
        self.dest = term["dest"]
        self.target = term.get("t")
        self.sp = term["sp"]
        self.exp = term.get("exp")
        self.ga = term.get("ga", [])
        self.local = term.get("local", False)
        self.fn_sp = term.get("fn_sp")
        self.raw = term

    @property
    def point(self):
        return (self.bb, len(self.body.blocks[self.bb]["stmts"]))

    def callee(self):
        """Most specific known callee path (resolved impl method when available)."""
        return self.res or self.fn

    def is_fn(self, *names):
        return self.fn in names or (self.res in names if self.res else False)

    def arg(self, i):
        return self.body.operand_expr(self.args[i])

    def arg_exprs(self):
        return [self.body.operand_expr(a) for a in self.args]

    def from_macro(self):
        return bool(self.exp) and any(x.startswith(("bang", "attr", "derive", "macro")) for x in self.exp)

    def loc(self):
        return "%s" % self.sp

    def __repr__(self):
        return "<call %s @%s bb%d>" % (self.callee(), self.sp, self.bb)


def place_is_local(p):
    return not p["p"]


class Body:
    def __init__(self, crate, j):
        self.crate = crate
        self.types = crate.types
        self.j = j
        self.def_ = j["def"]
        self.kind = j["kind"]
        self.parent = j["parent"]
        self.sp = j["sp"]
        self.argc = j["argc"]
        self.locals = j["locals"]
        self.blocks = j["blocks"]
        self.is_coroutine = j.get("coroutine", False)
        self.captures = j.get("captures", [])
        self.vis = j.get("vis")
        self._names = {}
        self._upnames = {}
        for d in j["debug"]:
            v = d["v"]
            if "l" not in v:
                continue
            if not v["p"]:
                self._names.setdefault(v["l"], d["name"])
        self._succ = None
        self._defs = None
        self._calls = None
        self._expr_cache = {}
        self._corr = None
        self.hidden = False

    # ---- naming
    def lname(self, l):
        return self._names.get(l)

    def local_ty(self, l):
        return self.locals[l]["ty"]

    def local_tystr(self, l):
        return self.types.s(self.locals[l]["ty"])

    def file(self):
        return self.sp.rsplit(":", 2)[0]

    # ---- CFG
    def n_blocks(self):
        return len(self.blocks)

    def term(self, bb):
        return self.blocks[bb]["term"]

    def succ(self, bb):
        """Normal-path successors: list of (target_bb, label). Cleanup/unwind edges excluded,
        false edges follow the real target only."""
        if self._succ is None:
            self._succ = [None] * len(self.blocks)
        r = self._succ[bb]
        if r is not None:
            return r
        t = self.blocks[bb]["term"]
        k = t["k"]
        out = []
        if k in ("goto", "drop", "assert", "yield"):
            out.append((t["t"], k))
        elif k == "switch":
            cv = None
            d = self._const_operand(t["d"])
            if d is not None and "const" in d:
                c = d["const"]
                if "bool" in c:
                    cv = "1" if c["bool"] else "0"
                elif "int" in c:
                    cv = c["int"]
            if cv is None:
                cv = self._known_discriminant(t["d"])
            if cv is not None:
                # constant condition (e.g. tracing's `if false`, the match on a freshly built enum value): only the matching arm is feasible
                hit = [(tb, v) for v, tb in t["arms"] if v == cv]
                out.append(hit[0] if hit else (t["otherwise"], "otherwise"))
            else:
                for v, tb in t["arms"]:
                    out.append((tb, v))
                out.append((t["otherwise"], "otherwise"))
        elif k == "call":
            if t.get("t") is not None:
                out.append((t["t"], "ret"))
        # return, unreachable, resume, terminate, cordrop, tailcall, asm: no normal successors
        self._succ[bb] = out
        return out

    def _single_def_rv(self, l):
        """The rvalue of the only definition of local l (None when it has several, or is defined by a call)."""
        n, rv = 0, None
        for b in self.blocks:
            if b["cleanup"]:
                continue
            for st in b["stmts"]:
                if st["k"] == "assign" and st["lhs"]["l"] == l and not st["lhs"]["p"]:
                    n += 1
                    rv = st["rv"]
                elif st["k"] in ("assign", "setdiscr") and st["lhs"]["l"] == l and st["lhs"]["p"]:
                    n += 2     # partially written: not a plain value
            t = b["term"]
            if t["k"] == "call" and t["dest"]["l"] == l:
                n += 2
        return rv if n == 1 else None

    def _known_discriminant(self, o):
        """`_d = discriminant(x); switchInt(_d)` where x (through moves) is one freshly built enum aggregate: its variant index."""
        p = o.get("copy") or o.get("move")
        if not p or p["p"]:
            return None
        rv = self._single_def_rv(p["l"])
        if rv is None or "discr" not in rv:
            return None
        l = rv["discr"]["l"]
        if rv["discr"]["p"] == ["*"]:
            # `match &x {..}`: the discriminant is read through a reference taken once of the whole local
            r0 = self._single_def_rv(l)
            if r0 is None or "ref" not in r0 or r0["ref"]["p"]:
                return None
            l = r0["ref"]["l"]
        elif rv["discr"]["p"]:
            return None
        for _ in range(5):
            if l in self.mut_borrowed():
                return None
            rv2 = self._single_def_rv(l)
            if rv2 is None:
                return None
            if rv2.get("agg") == "adt" and rv2.get("vidx") is not None and rv2.get("variant"):
                return str(rv2["vidx"])
            if "use" in rv2:
                pl = rv2["use"].get("move") or rv2["use"].get("copy")
                if pl is None or pl["p"]:
                    return None
                l = pl["l"]
                continue
            return None
        return None

    def _const_operand(self, o, hops=4):
        """Follow `_x = const c` single definitions so that `if false` style switches are recognised."""
        while hops > 0:
            hops -= 1
            if "const" in o:
                return o
            p = o.get("copy") or o.get("move")
            if not p or p["p"]:
                return None
            l = p["l"]
            n = 0
            rv = None
            for b in self.blocks:
                if b["cleanup"]:
                    continue
                for st in b["stmts"]:
                    if st["k"] == "assign" and st["lhs"]["l"] == l and not st["lhs"]["p"]:
                        n += 1
                        rv = st["rv"]
                t = b["term"]
                if t["k"] == "call" and t["dest"]["l"] == l:
                    n += 2
            if n != 1 or rv is None or "use" not in rv:
                return None
            o = rv["use"]
        return None

    def return_defs(self):
        """Definitions of the return place _0 on live normal paths: [(bb, expr, raw)].
        A definition that merely forwards another local (`_0 = move _r`, e.g. the result of a spliced helper or a
        `let r = if .. {..} else {..}; r`) is replaced by that local's own definitions, each at its own block."""
        out = []
        live = self.live_blocks()
        seen = set()

        def expand(local):
            if local in seen:
                return
            seen.add(local)
            for d in self.defs().get(local, []):
                if d[1] not in live:
                    continue
                if d[0] == "assign":
                    rv = d[3]
                    src = rv.get("use") if isinstance(rv, dict) else None
                    pl = (src.get("move") or src.get("copy")) if isinstance(src, dict) else None
                    if pl is not None and not pl["p"] and pl["l"] != 0 and len(self.defs().get(pl["l"], [])) > 1 \
                            and all(x[0] in ("assign", "call") for x in self.defs()[pl["l"]]) and not any(fw[2]["l"] == pl["l"] for fw in self.field_writes):
                        expand(pl["l"])
                    else:
                        out.append((d[1], self.rvalue_expr(rv), rv))
                elif d[0] == "call":
                    out.append((d[1], ("call", d[2], [self.operand_expr(a) for a in d[2].args]), d[2]))
        expand(0)
        return out

    def normal_blocks(self):
        return [i for i, b in enumerate(self.blocks) if not b["cleanup"]]

    def _flag_locals(self):
        """Locals every definition of which is a constant bool (`matches!(..)`, `let mut found = false; .. found = true`):
        the switch on such a flag is correlated with the path that set it."""
        if getattr(self, "_flags", None) is None:
            out = []
            for l, ds in self.defs().items():
                if l == 0 or len(ds) < 2:
                    continue
                if all(d[0] == "assign" and "use" in d[3] and "const" in d[3]["use"] and "bool" in d[3]["use"]["const"] for d in ds) \
                        and not any(fw[2]["l"] == l for fw in self.field_writes):
                    out.append(l)
            self._flags = out
        return self._flags

    def _has_corr(self):
        if getattr(self, "_hc", None) is None:
            if getattr(self, "_corr_busy", False):
                return False
            self._hc = bool(self._corr_tables()[1])
        return self._hc

    # ---- path correlation of variant- / bool-valued locals -------------------------------------------------------------
    # A local whose definitions are all "constructor known" (an aggregate `Ok(..)` / `Err(..)` / `Some(..)` / `None` /
    # `ControlFlow::Break(..)`, a constant bool, `from_residual(..)`, or a move of another such local) carries that constructor
    # along the path that defined it; a later test of the local (discriminant switch, `?`, is_ok / is_break / .., `if flag`)
    # can only take the matching edge on that path.  Used for spliced helper / closure results, `matches!` flags,
    # `let outcome = iter.try_for_each(..); if outcome.is_break() {..}`.
    _POS = {"Ok": "Continue", "Some": "Continue", "Continue": "Continue"}
    _NEG = {"Err": "Break", "None": "Break", "Break": "Break"}
    _IS_FNS = {"is_ok": ("Ok",), "is_err": ("Err",), "is_some": ("Some",), "is_none": ("None",), "is_break": ("Break",), "is_continue": ("Continue",)}

    def _corr_vars(self):
        if getattr(self, "_cv", None) is not None:
            return self._cv
        defs = self.defs()
        seeds = set(self._flag_locals())
        for c in self.j.get("corr", []):
            seeds.add(c["ret"])
            seeds.add(c["dest"])

        def kind(d, known):
            """('tag', name) | ('copy', local) | None for one definition"""
            if d[0] == "assign":
                rv = d[3]
                if rv.get("agg") == "adt" and rv.get("variant"):
                    ops = rv.get("ops") or []
                    if len(ops) == 1:
                        pl = ops[0].get("move") or ops[0].get("copy")
                        if pl is not None and not pl["p"] and pl["l"] in known:
                            return ("wrap", rv["variant"], pl["l"])      # `Ok(outcome)`: the payload's variant is carried along
                    return ("tag", rv["variant"])
                if "use" in rv:
                    u = rv["use"]
                    if "const" in u and "bool" in u["const"]:
                        return ("tag", "true" if u["const"]["bool"] else "false")
                    pl = u.get("move") or u.get("copy")
                    if pl is not None and not pl["p"] and pl["l"] in known:
                        return ("copy", pl["l"])
                    if pl is not None and len(pl["p"]) == 2 and isinstance(pl["p"][0], dict) and pl["p"][0].get("dc") and isinstance(pl["p"][1], dict) \
                            and pl["p"][1].get("f") == 0 and pl["l"] in known:
                        return ("payload", pl["l"], pl["p"][0]["dc"])    # `(x as V).0`
            elif d[0] == "call" and d[2].fn == "core::ops::try_trait::FromResidual::from_residual":
                return ("tag", "Err")
            elif d[0] == "call" and d[2].fn == "core::ops::try_trait::Try::branch" and d[2].args:
                pl = d[2].args[0].get("move") or d[2].args[0].get("copy")
                if pl is not None and not pl["p"] and pl["l"] in known:
                    return ("branch", pl["l"])
            return None
        # fixpoint: candidate = every definition is interpretable (given the current candidate set); seeds stay candidates anyway
        cand = set(l for l, ds in defs.items() if l != 0 and ds and len(ds) <= 12)
        for l in list(cand):
            if any(fw[2]["l"] == l for fw in self.field_writes):
                cand.discard(l)
        # a local that is ever borrowed mutably can change behind our back (`opt.take()`, `&mut flag` handed to a callee)
        cand -= self.mut_borrowed()
        seeds -= self.mut_borrowed()
        # a bool computed once (`let expired = is_expired(..)`) and tested more than once: its value is learned at the first test
        self._cv_learn = set()
        for l, ds in defs.items():
            if l != 0 and len(ds) == 1 and l in cand and kind(ds[0], cand) is None and self.local_tystr(l) == "bool":
                self._cv_learn.add(l)
        seeds |= self._cv_learn
        changed = True
        while changed:
            changed = False
            for l in list(cand):
                if l in seeds:
                    continue
                if any(kind(d, cand) is None for d in defs.get(l, [])):
                    cand.discard(l)
                    changed = True
        # only keep variables with at least two distinct outcomes somewhere up their copy chain, or seeds
        self._cv = cand | seeds
        self._cv_kind = kind
        return self._cv

    def _raw_ref_var(self, operand, cv):
        """The correlated local behind `&x` / a copy of `x` (single-definition temporaries only)."""
        pl = operand.get("copy") or operand.get("move")
        if pl is None or pl["p"]:
            return None
        l = pl["l"]
        for _ in range(5):
            if l in cv:
                return l
            ds = self.defs().get(l, [])
            if len(ds) != 1 or ds[0][0] != "assign":
                return None
            rv = ds[0][3]
            if "ref" in rv and not rv["ref"]["p"]:
                l = rv["ref"]["l"]
            elif "use" in rv and (rv["use"].get("copy") or rv["use"].get("move")) and not (rv["use"].get("copy") or rv["use"].get("move"))["p"]:
                l = (rv["use"].get("copy") or rv["use"].get("move"))["l"]
            else:
                return None
        return None

    def _raw_bool_var(self, operand, cv):
        """(var, negated?) when the switch operand is - through single-definition copies and `!` - the correlated local `var`."""
        pl = operand.get("copy") or operand.get("move")
        if pl is None or pl["p"]:
            return None
        l, parity = pl["l"], False
        best = None
        for _ in range(6):
            if l in cv:
                best = (l, parity)      # keep going: the variable the copies come from is the one to know about
            ds = self.defs().get(l, [])
            if len(ds) != 1 or ds[0][0] != "assign":
                return best
            rv = ds[0][3]
            if "use" in rv:
                q_ = rv["use"].get("copy") or rv["use"].get("move")
            elif rv.get("un") == "Not":
                q_ = rv["x"].get("copy") or rv["x"].get("move")
                parity = not parity
            else:
                return best
            if q_ is None or q_["p"]:
                return best
            l = q_["l"]
        return best

    def _corr_tables(self):
        """(block -> [(var, ('tag', name) | ('copy', var) | None)], switch block -> (var, {edge label: set of admissible tags}))"""
        if self._corr is not None:
            return self._corr
        if getattr(self, "_corr_busy", False):
            return ({}, {})       # asked again while being built (expression resolution wants live blocks): no correlation yet
        self._corr_busy = True
        try:
            return self._corr_tables_build()
        finally:
            self._corr_busy = False

    def _corr_tables_build(self):
        cv = self._corr_vars()
        kind = self._cv_kind
        defs_tag, sw_tag = {}, {}
        for l in cv:
            for d in self.defs().get(l, []):
                defs_tag.setdefault(d[1], []).append((d[2] if d[0] == "assign" else 10 ** 6, l, kind(d, cv)))
        for bb in list(defs_tag):
            defs_tag[bb] = [(l, k) for (_, l, k) in sorted(defs_tag[bb], key=lambda x: x[0])]

        def var_of(x):
            n = 0
            while x[0] in ("ref", "deref") and n < 6:
                x = x[1]
                n += 1
            n2 = 0
            while x[0] == "phi" and x[1] not in cv and len(x) > 3 and len(x[3]) == 1 and n2 < 4:
                x = x[3][0]
                n2 += 1
            if x[0] in ("local", "phi") and x[1] in cv:
                return x[1]
            return None
        for bb in self.normal_blocks():
            if self.blocks[bb]["term"]["k"] != "switch":
                continue
            si = self.switch_info(bb)
            if not si:
                continue
            cond = si["cond"]
            if si["kind"] == "bool":
                if cond[0] == "call" and len(cond[2]) == 2 and cond[1].fn.split("::")[-1] in ("eq", "ne") and "PartialEq" in cond[1].fn:
                    # `outcome == Outcome::Conflict` on an enum-valued local whose variant is known from its definitions
                    done_ = False
                    raw_args = cond[1].args if len(cond[1].args) == 2 else [None, None]
                    for (a_, k_, ra_) in ((cond[2][0], cond[2][1], raw_args[0]), (cond[2][1], cond[2][0], raw_args[1])):
                        v = var_of(a_)
                        if v is None and ra_ is not None:
                            v = self._raw_ref_var(ra_, cv)
                        kk = k_
                        n_ = 0
                        while kk[0] in ("ref", "deref") and n_ < 6:
                            kk = kk[1]
                            n_ += 1
                        if v is None or kk[0] != "agg" or kk[1].get("agg") != "adt" or not kk[1].get("variant") or kk[2]:
                            continue
                        adt_ = self.crate.adts.get(kk[1].get("adt")) if hasattr(self.crate, "adts") else None
                        fam = {vv["name"] for vv in adt_["variants"]} if adt_ else None
                        if not fam or any(vv["fields"] for vv in adt_["variants"]):
                            continue      # only plain (field-less) enums: equality is equality of variants
                        yes = {kk[1]["variant"]}
                        pos_ = cond[1].fn.split("::")[-1] == "eq"
                        sw_tag[bb] = (v, {lab: (yes if (mean == pos_) else fam - yes) for (t, lab, mean) in si["edges"] if isinstance(mean, bool)})
                        done_ = True
                        break
                    if done_:
                        continue
                is_fn = cond[0] == "call" and cond[2] and cond[1].fn.split("::")[-1] in self._IS_FNS and var_of(cond[2][0]) is not None
                rv_ = self._raw_bool_var(self.blocks[bb]["term"]["d"], cv) if not is_fn and var_of(cond) is None else None
                arms = self.blocks[bb]["term"]["arms"]
                if rv_ is not None and len(arms) == 1 and arms[0][0] in ("0", "1"):
                    (v, parity) = rv_
                    lab_val = {arms[0][0]: arms[0][0] == "1", "otherwise": arms[0][0] == "0"}
                    sw_tag[bb] = (v, {lab: {"true" if (val != parity) else "false"} for lab, val in lab_val.items()})
                    continue
                v = var_of(cond)
                if v is not None:
                    sw_tag[bb] = (v, {lab: {"true" if mean else "false"} for (t, lab, mean) in si["edges"] if isinstance(mean, bool)})
                    continue
                if cond[0] == "call" and cond[2]:
                    name = cond[1].fn.split("::")[-1]
                    if name in self._IS_FNS:
                        v = var_of(cond[2][0])
                        if v is not None:
                            yes = set(self._IS_FNS[name])
                            fam = {"is_ok": {"Ok", "Err"}, "is_err": {"Ok", "Err"}, "is_some": {"Some", "None"}, "is_none": {"Some", "None"},
                                   "is_break": {"Break", "Continue"}, "is_continue": {"Break", "Continue"}}[name]
                            sw_tag[bb] = (v, {lab: (yes if mean else fam - yes) for (t, lab, mean) in si["edges"] if isinstance(mean, bool)})
                continue
            if si["kind"] != "variant":
                continue
            x = cond
            via_try = False
            n = 0
            while x[0] in ("ref", "deref", "call") and n < 6:
                n += 1
                if x[0] == "call":
                    if x[1].fn != "core::ops::try_trait::Try::branch" or not x[2]:
                        break
                    via_try = True
                    x = x[2][0]
                else:
                    x = x[1]
            v = var_of(x)
            if v is None:
                continue
            m = {}
            for (t, lab, mean) in si["edges"]:
                ms = set(mean) if isinstance(mean, tuple) else {mean}
                ms.discard(None)
                if not ms:
                    continue
                if via_try:
                    adm = set()
                    if "Continue" in ms:
                        adm |= {"Ok", "Some", "Continue"}
                    if "Break" in ms:
                        adm |= {"Err", "None", "Break"}
                    m[lab] = adm
                else:
                    m[lab] = ms
            sw_tag[bb] = (v, m)
        # a learned bool is worth tracking only when it is looked at again: tested by two switches, or tested and copied on
        learn = getattr(self, "_cv_learn", set())
        if learn:
            uses = {}
            for bb, (v, m) in sw_tag.items():
                if v in learn:
                    uses[v] = uses.get(v, 0) + 1
            for bb, ups in defs_tag.items():
                for (l, k) in ups:
                    if k is not None and k[0] == "copy" and k[1] in learn:
                        uses[k[1]] = uses.get(k[1], 0) + 1
            drop = {v for v in learn if uses.get(v, 0) < 2}
            if drop:
                sw_tag = {bb: vm for bb, vm in sw_tag.items() if vm[0] not in drop}
                self._cv_learn = learn - drop
        # only variables that are tested somewhere (and the variables their value is copied from) are worth tracking
        need = {v for (v, m) in sw_tag.values()}
        grew = True
        while grew:
            grew = False
            for bb, ups in defs_tag.items():
                for (l, k) in ups:
                    src_ = None
                    if k is not None and k[0] in ("copy", "branch", "payload"):
                        src_ = k[1]
                    elif k is not None and k[0] == "wrap":
                        src_ = k[2]
                    if l in need and src_ is not None and src_ not in need:
                        need.add(src_)
                        grew = True
        defs_tag = {bb: [(l, k) for (l, k) in ups if l in need] for bb, ups in defs_tag.items()}
        defs_tag = {bb: ups for bb, ups in defs_tag.items() if ups}
        self._corr = (defs_tag, sw_tag)
        return self._corr

    def reachable_blocks(self, start=0, removed_blocks=(), removed_edges=()):
        """Blocks reachable from `start` (a block or iterable of blocks) on normal paths."""
        removed_blocks = set(removed_blocks)
        removed_edges = set(removed_edges)
        starts = [start] if isinstance(start, int) else list(start)
        if self._has_corr():
            return self._reachable_corr(starts, removed_blocks, removed_edges)
        seen = set()
        dq = deque(s for s in starts if s not in removed_blocks)
        seen.update(dq)
        while dq:
            b = dq.popleft()
            for (t, lab) in self.succ(b):
                if t in removed_blocks or (b, t) in removed_edges or (b, t, lab) in removed_edges:
                    continue
                if t not in seen:
                    seen.add(t)
                    dq.append(t)
        return seen

    MAX_CORR_VARS = 6

    @staticmethod
    def _corr_update(state, updates):
        """state: tuple of (var, tag) pairs, most recent last; updates: [(var, ('tag', name) | ('copy', var) | None)] in statement order."""
        st = state
        for (var, k) in updates:
            known = dict(st)
            st = tuple(x for x in st if x[0] != var)
            tag = None
            if k is not None and k[0] == "tag":
                tag = k[1]
            elif k is not None and k[0] == "copy":
                tag = known.get(k[1])
            elif k is not None and k[0] == "wrap":
                inner = known.get(k[2])
                tag = k[1] + ((":" + inner) if inner else "")
            elif k is not None and k[0] == "branch":
                t0 = known.get(k[1])
                if t0:
                    head, _, rest = t0.partition(":")
                    if head in Body._POS:
                        tag = "Continue" + ((":" + rest) if rest else "")
                    elif head in Body._NEG:
                        tag = "Break"
            elif k is not None and k[0] == "payload":
                t0 = known.get(k[1])
                if t0:
                    head, _, rest = t0.partition(":")
                    if head == k[2] and rest:
                        tag = rest
            if tag is not None:
                st = st + ((var, tag),)
        return st[-Body.MAX_CORR_VARS:]

    @staticmethod
    def _corr_canon(st):
        """States that know the same things are one state, in whatever order the knowledge was gathered."""
        return tuple(sorted(st))

    def _corr_walk(self, start_states, removed_blocks, removed_edges):
        defs_tag, sw_tag = self._corr_tables()
        seen = set(start_states)
        dq = deque(start_states)
        while dq:
            b, state = dq.popleft()
            if b in defs_tag:
                state = self._corr_update(state, defs_tag[b])
            known = dict(state)
            for (t, lab) in self.succ(b):
                if t in removed_blocks or (b, t) in removed_edges or (b, t, lab) in removed_edges:
                    continue
                nstate = state
                if b in sw_tag and sw_tag[b][0] in known:
                    want = sw_tag[b][1].get(lab)
                    if want is not None and known[sw_tag[b][0]].split(":")[0] not in want:
                        continue
                elif b in sw_tag and sw_tag[b][0] in self._cv_learn:
                    want = sw_tag[b][1].get(lab)
                    if want is not None and len(want) == 1:
                        nstate = (state + ((sw_tag[b][0], next(iter(want))),))[-Body.MAX_CORR_VARS:]
                st = (t, self._corr_canon(nstate))
                if st not in seen:
                    seen.add(st)
                    dq.append(st)
        return {b for (b, state) in seen}

    def _reachable_corr(self, starts, removed_blocks, removed_edges):
        """Reachability over (block, known constructors / flag values of correlated locals): infeasible combinations of a
        definition (`Ok(..)`, `Err(..)`, `true`, `false`) and a later test of that local are pruned."""
        return self._corr_walk([(s, self._edge_state(s)) for s in starts if s not in removed_blocks], removed_blocks, removed_edges)

    def _edge_state(self, s):
        """What is known on entry to block s because s can only be entered over ONE edge of a switch on a correlated local
        (rules start their walks at the target of the edge they selected: `reachable_blocks([t for (_, t, _) in true_edges])`)."""
        if getattr(self, "_preds", None) is None:
            preds = {}
            for b in self.normal_blocks():
                for (t, lab) in self.succ(b):
                    preds.setdefault(t, []).append((b, lab))
            self._preds = preds
        ps = self._preds.get(s, [])
        if len(ps) != 1 or s == 0:
            return ()
        (pb, lab) = ps[0]
        sw_tag = self._corr_tables()[1]
        if pb in sw_tag:
            want = sw_tag[pb][1].get(lab)
            if want is not None and len(want) == 1:
                return ((sw_tag[pb][0], next(iter(want))),)
        return ()

    def reach_after(self, bb, removed_blocks=(), removed_edges=()):
        """Blocks reachable strictly after leaving `bb` (bb itself only if on a cycle)."""
        removed_blocks = set(removed_blocks)
        removed_edges = set(removed_edges)
        starts = []
        for (t, lab) in self.succ(bb):
            if t in removed_blocks or (bb, t) in removed_edges or (bb, t, lab) in removed_edges:
                continue
            starts.append(t)
        if not starts:
            return set()
        if self._has_corr() and bb in self._corr_tables()[0]:
            # keep the constructor knowledge established in bb itself
            state = self._corr_update((), self._corr_tables()[0][bb])
            return self._corr_walk([(s, state) for s in starts], removed_blocks, removed_edges)
        return self.reachable_blocks(starts, removed_blocks, removed_edges)

    def return_blocks(self):
        return [i for i in self.normal_blocks() if self.blocks[i]["term"]["k"] == "return"]

    def _live_or_none(self):
        """live_blocks(), or None while it is being computed (no recursion through expression resolution)."""
        if getattr(self, "_live", None) is not None:
            return self._live
        if getattr(self, "_live_busy", False) or getattr(self, "_corr_busy", False):
            return None
        self._live_busy = True
        try:
            return self.live_blocks()
        finally:
            self._live_busy = False

    def live_blocks(self):
        """Blocks reachable from entry on normal paths."""
        if getattr(self, "_live", None) is None:
            self._live = self.reachable_blocks(0)
        return self._live

    # ---- definitions
    def defs(self):
        """local -> list of ('assign', bb, idx, rvalue) | ('call', bb, CallSite) | ('yield', bb) full definitions;
        partial writes go to self.field_writes."""
        if self._defs is not None:
            return self._defs
        defs = defaultdict(list)
        fw = []
        for bi, b in enumerate(self.blocks):
            if b["cleanup"]:
                continue
            for si, s in enumerate(b["stmts"]):
                if s["k"] == "assign":
                    lhs = s["lhs"]
                    if not lhs["p"]:
                        defs[lhs["l"]].append(("assign", bi, si, s["rv"]))
                    else:
                        fw.append((bi, si, lhs, s["rv"], s["sp"]))
                elif s["k"] == "setdiscr":
                    fw.append((bi, si, s["lhs"], {"setdiscr": s["v"]}, s["sp"]))
            t = b["term"]
            if t["k"] == "call":
                cs = CallSite(self, bi, t)
                d = t["dest"]
                if not d["p"]:
                    defs[d["l"]].append(("call", bi, cs))
                else:
                    fw.append((bi, len(b["stmts"]), d, {"call": cs}, t["sp"]))
            elif t["k"] == "yield":
                d = t["resume_arg"]
                if not d["p"]:
                    defs[d["l"]].append(("yield", bi))
        self._defs = defs
        self.field_writes = fw
        return defs

    def calls(self):
        if self._calls is None:
            out = []
            for bi, b in enumerate(self.blocks):
                if b["cleanup"]:
                    continue
                t = b["term"]
                if t["k"] == "call":
                    out.append(CallSite(self, bi, t))
            self._calls = out
        return self._calls

    def calls_to(self, *names, prefix=None):
        r = []
        for c in self.calls():
            if c.fn in names or (c.res and c.res in names):
                r.append(c)
            elif prefix and (c.fn.startswith(prefix) or (c.res or "").startswith(prefix)):
                r.append(c)
        return r

    # ---- expression resolution
    def place_expr(self, p, _seen=None, _depth=0):
        base = self.local_expr(p["l"], _seen, _depth)
        for e in p["p"]:
            if e == "*":
                base = ("deref", base)
            elif isinstance(e, dict):
                if "f" in e:
                    b0 = base
                    while b0[0] in ("ref", "deref"):
                        b0 = b0[1]
                    if e.get("n") is None and b0[0] == "agg" and b0[1].get("agg") == "tuple" and e["f"] < len(b0[2]):
                        base = b0[2][e["f"]]   # (a, b).0 == a
                    elif (base[0] == "downcast" and base[1][0] == "agg" and base[1][1].get("agg") == "adt" and base[1][1].get("variant")
                          and base[1][1].get("variant") == base[2] and isinstance(e["f"], int) and e["f"] < len(base[1][2])
                          and len(base[1][1].get("fields") or []) == len(base[1][2])):
                        base = base[1][2][e["f"]]   # (V(a, b) as V).0 == a
                    else:
                        base = ("field", base, e["n"] if e.get("n") is not None else e["f"])
                elif "dc" in e:
                    name = e["dc"] if e["dc"] is not None else e["v"]
                    b0 = base
                    n0 = 0
                    while b0[0] == "phi" and len(b0) > 3 and n0 < 4:
                        # `(x as V)` is only evaluated when x IS a V: alternatives built as another variant are not what is read here
                        alts = [a for a in b0[3] if not (a[0] == "agg" and a[1].get("agg") == "adt" and a[1].get("variant") and a[1].get("variant") != name)]
                        if len(alts) == len(b0[3]) or not alts:
                            break
                        b0 = alts[0] if len(alts) == 1 else ("phi", b0[1], b0[2], alts)
                        n0 += 1
                    base = ("downcast", b0, name)
                elif "idx" in e:
                    base = ("index", base)
                elif "cidx" in e:
                    base = ("index", base)
                elif "sub" in e:
                    base = ("index", base)
            # opaque casts: ignore
        return base

    def local_expr(self, l, _seen=None, _depth=0):
        if 1 <= l <= self.argc:
            # closure/coroutine self argument = the capture environment
            if l == 1 and self.kind == "Closure":
                return ("env",)
            return ("arg", l, self.lname(l))
        if _seen is None:
            _seen = frozenset()
        if l in _seen or _depth > 60:
            return ("local", l, self.lname(l))
        ds = self.defs().get(l, [])
        if len(ds) > 1:
            # definitions in blocks no feasible path reaches (arms of a match on a value built on the spot, `if false`) define nothing
            live = self._live_or_none()
            if live is not None:
                ds = [d for d in ds if d[1] in live] or ds
        if not ds:
            return ("local", l, self.lname(l))
        seen2 = _seen | {l}
        if len(ds) == 1 and l in self._closure_mutated():
            # a `let mut x` that a closure captured by `&mut`: its value afterwards is not (only) its initial definition
            return ("phi", l, self.lname(l), [self._def_expr(ds[0], seen2, _depth + 1), ("opaque", "written through a closure's &mut capture")])
        if len(ds) == 1:
            return self._def_expr(ds[0], seen2, _depth + 1)
        if len(ds) <= 6:
            return ("phi", l, self.lname(l), [self._def_expr(d, seen2, _depth + 1) for d in ds])
        return ("local", l, self.lname(l))

    def mut_borrowed(self):
        """Locals of which a `&mut` (of the whole local or a part) is taken somewhere in this body."""
        if getattr(self, "_mb", None) is None:
            out = set()
            for b in self.blocks:
                if b["cleanup"]:
                    continue
                for st in b["stmts"]:
                    if st["k"] == "assign" and "ref" in st["rv"] and st["rv"].get("mut") and "*" not in st["rv"]["ref"]["p"][:1]:
                        out.add(st["rv"]["ref"]["l"])
            self._mb = out
        return self._mb

    def _closure_mutated(self):
        """User variables whose `&mut` is captured by a closure / coroutine built in this body (the closure may assign them)."""
        if getattr(self, "_cm", None) is None:
            refs = {}    # temp local -> borrowed root local (mutable borrows of a whole local)
            for bi, b in enumerate(self.blocks):
                if b["cleanup"]:
                    continue
                for st in b["stmts"]:
                    if st["k"] == "assign" and not st["lhs"]["p"] and "ref" in st["rv"] and st["rv"].get("mut") and not st["rv"]["ref"]["p"]:
                        refs[st["lhs"]["l"]] = st["rv"]["ref"]["l"]
            out = set()
            for bi, b in enumerate(self.blocks):
                if b["cleanup"]:
                    continue
                for st in b["stmts"]:
                    if st["k"] == "assign" and st["rv"].get("agg") in ("closure", "coroutine"):
                        for op in st["rv"].get("ops", []):
                            pl = op.get("move") or op.get("copy")
                            if pl is not None and not pl["p"] and pl["l"] in refs and self.locals[refs[pl["l"]]].get("user"):
                                out.add(refs[pl["l"]])
            # a scalar `let mut n` / `let mut flag` handed to a call as `&mut n` may be rewritten by the callee
            scalars = ("u8", "u16", "u32", "u64", "u128", "usize", "i8", "i16", "i32", "i64", "i128", "isize", "bool")
            for bi, b in enumerate(self.blocks):
                if b["cleanup"] or b["term"]["k"] != "call":
                    continue
                for op in b["term"]["args"]:
                    pl = op.get("move") or op.get("copy")
                    if pl is not None and not pl["p"] and pl["l"] in refs:
                        root = refs[pl["l"]]
                        if self.locals[root].get("user") and self.types.s(self.locals[root]["ty"]) in scalars:
                            out.add(root)
            self._cm = out
        return self._cm

    def _def_expr(self, d, seen, depth):
        if d[0] == "assign":
            return self.rvalue_expr(d[3], seen, depth)
        if d[0] == "call":
            cs = d[2]
            return ("call", cs, [self.operand_expr(a, seen, depth) for a in cs.args])
        return ("yield",)

    def operand_expr(self, o, _seen=None, _depth=0):
        if "copy" in o:
            return self.place_expr(o["copy"], _seen, _depth)
        if "move" in o:
            return self.place_expr(o["move"], _seen, _depth)
        if "const" in o:
            c = o["const"]
            if "uneval" in c and not any(k in c for k in ("str", "int", "bool", "bytes")):
                v = self.crate.named_const(c["uneval"])
                if v:
                    c = dict(c)
                    for k in ("str", "int", "bool", "bytes", "mem"):
                        if k in v:
                            c[k] = v[k]
            return ("const", c)
        return ("other", str(o))

    def rvalue_expr(self, rv, _seen=None, _depth=0):
        if "use" in rv:
            return self.operand_expr(rv["use"], _seen, _depth)
        if "ref" in rv:
            return ("ref", self.place_expr(rv["ref"], _seen, _depth))
        if "rawptr" in rv:
            return ("ref", self.place_expr(rv["rawptr"], _seen, _depth))
        if "cast" in rv:
            return ("cast", self.operand_expr(rv["cast"], _seen, _depth), rv.get("kind"), rv.get("ty"))
        if "bin" in rv:
            return ("bin", rv["bin"], self.operand_expr(rv["l"], _seen, _depth), self.operand_expr(rv["r"], _seen, _depth))
        if "un" in rv:
            return ("un", rv["un"], self.operand_expr(rv["x"], _seen, _depth))
        if "discr" in rv:
            return ("discr", self.place_expr(rv["discr"], _seen, _depth), rv.get("variants", []), rv.get("adt"))
        if "agg" in rv:
            return ("agg", rv, [self.operand_expr(o, _seen, _depth) for o in rv["ops"]])
        if "repeat" in rv:
            return ("agg", {"agg": "repeat"}, [self.operand_expr(rv["repeat"], _seen, _depth)])
        return ("other", str(rv.get("other", rv))[:120])

    # ---- switch interpretation
    def switch_info(self, bb):
        """For a SwitchInt terminator return dict(kind='bool'|'variant'|'int', cond=expr, edges=[(target,label,meaning)])
        bool: meaning True/False for the *underlying* condition after stripping `Not`;
        variant: meaning = variant name or None (otherwise)."""
        t = self.blocks[bb]["term"]
        if t["k"] != "switch":
            return None
        e = self.operand_expr(t["d"])
        neg = False
        while e[0] == "un" and e[1] == "Not":
            neg = not neg
            e = e[2]
        if e[0] == "discr":
            variants = e[2]
            edges = []
            named = set()
            for v, tb in t["arms"]:
                vi = int(v)
                name = variants[vi] if vi < len(variants) else str(vi)
                named.add(name)
                edges.append((tb, v, name))
            rest = [x for x in variants if x not in named]
            edges.append((t["otherwise"], "otherwise", tuple(rest)))
            return {"kind": "variant", "cond": e[1], "adt": e[3], "edges": edges, "variants": variants}
        # bool-like: arms [0 -> false target], otherwise -> true
        arms = t["arms"]
        if len(arms) == 1 and arms[0][0] == "0":
            f_t = arms[0][1]
            t_t = t["otherwise"]
            edges = [(f_t, "0", (False != neg)), (t_t, "otherwise", (True != neg))]
            return {"kind": "bool", "cond": e, "edges": edges}
        if len(arms) == 1 and arms[0][0] == "1":
            edges = [(arms[0][1], "1", (True != neg)), (t["otherwise"], "otherwise", (False != neg))]
            return {"kind": "bool", "cond": e, "edges": edges}
        edges = [(tb, v, v) for v, tb in arms] + [(t["otherwise"], "otherwise", None)]
        return {"kind": "int", "cond": e, "edges": edges}

    def switches(self):
        for bi in self.normal_blocks():
            if self.blocks[bi]["term"]["k"] == "switch":
                yield bi, self.switch_info(bi)

    # ---- misc
    def stmt_points(self):
        for bi in self.normal_blocks():
            for si, s in enumerate(self.blocks[bi]["stmts"]):
                yield bi, si, s

    def __repr__(self):
        return "<Body %s>" % self.def_


# ----------------------------------------------------------------------------- expr helpers

def is_call(e, *names):
    if e[0] != "call":
        return False
    if not names:
        return True
    c = e[1]
    return c.fn in names or (c.res in names if c.res else False)


def walk(e, _depth=0):
    """Yield every sub-expression (pre-order)."""
    yield e
    if _depth > 80:
        return
    tag = e[0]
    if tag in ("field", "deref", "downcast", "index", "ref", "cast", "discr", "await"):
        yield from walk(e[1], _depth + 1)
    elif tag == "un":
        yield from walk(e[2], _depth + 1)
    elif tag == "bin":
        yield from walk(e[2], _depth + 1)
        yield from walk(e[3], _depth + 1)
    elif tag == "call":
        for a in e[2]:
            yield from walk(a, _depth + 1)
    elif tag == "agg":
        for a in e[2]:
            yield from walk(a, _depth + 1)
    elif tag == "phi":
        for a in e[3]:
            yield from walk(a, _depth + 1)


def calls_in(e):
    return [x[1] for x in walk(e) if x[0] == "call"]


def consts_in(e):
    return [x[1] for x in walk(e) if x[0] == "const"]


def const_strs(e):
    return [c["str"] for c in consts_in(e) if "str" in c]


def strip(e, fns=PASS_THROUGH_FNS):
    """Peel refs/derefs/casts/pass-through calls/await plumbing off an expression."""
    n = 0
    while n < 100:
        n += 1
        tag = e[0]
        if tag in ("ref", "deref"):
            e = e[1]
        elif tag == "cast":
            e = e[1]
        elif tag == "call" and (e[1].fn in fns or (e[1].res in fns if e[1].res else False)) and e[2]:
            e = e[2][0]
        else:
            return e
    return e


def place_path(e):
    """('field',('field',('arg',1,'frame'),'meta'),'x') -> ['frame','meta','x'] ; None if not a plain place."""
    parts = []
    n = 0
    while n < 100:
        n += 1
        tag = e[0]
        if tag == "field":
            parts.append(str(e[2]))
            e = e[1]
        elif tag in ("deref", "ref"):
            e = e[1]
        elif tag == "downcast":
            parts.append("as " + str(e[2]))
            e = e[1]
        elif tag == "index":
            parts.append("[]")
            e = e[1]
        elif tag in ("arg", "local"):
            parts.append(e[2] if e[2] else "_%d" % e[1])
            return list(reversed(parts))
        elif tag == "phi":
            parts.append(e[2] if e[2] else "_%d" % e[1])
            return list(reversed(parts))
        elif tag == "env":
            parts.append("<env>")
            return list(reversed(parts))
        else:
            return None
    return None


def fmt(e, depth=0):
    if depth > 12:
        return "…"
    tag = e[0]
    if tag in ("arg", "local"):
        return e[2] if e[2] else "_%d" % e[1]
    if tag == "env":
        return "<env>"
    if tag == "field":
        return "%s.%s" % (fmt(e[1], depth + 1), e[2])
    if tag == "deref":
        return "*%s" % fmt(e[1], depth + 1)
    if tag == "downcast":
        return "(%s as %s)" % (fmt(e[1], depth + 1), e[2])
    if tag == "index":
        return "%s[..]" % fmt(e[1], depth + 1)
    if tag == "ref":
        return "&%s" % fmt(e[1], depth + 1)
    if tag == "const":
        c = e[1]
        if "str" in c:
            return json.dumps(c["str"])
        if "int" in c:
            return c["int"]
        if "bool" in c:
            return str(c["bool"]).lower()
        if "fn" in c:
            return c["fn"]
        if "uneval" in c:
            return c["uneval"]
        return c.get("s", "const")
    if tag == "call":
        name = e[1].callee()
        short = "::".join(name.split("::")[-2:])
        return "%s(%s)" % (short, ", ".join(fmt(a, depth + 1) for a in e[2]))
    if tag == "agg":
        info = e[1]
        k = info["agg"]
        if k == "adt":
            nm = info["adt"].split("::")[-1] + "::" + info["variant"]
            return "%s{%s}" % (nm, ", ".join(fmt(a, depth + 1) for a in e[2]))
        if k in ("closure", "coroutine"):
            return "%s[%s](%s)" % (k, info["def"], ", ".join(fmt(a, depth + 1) for a in e[2]))
        return "%s(%s)" % (k, ", ".join(fmt(a, depth + 1) for a in e[2]))
    if tag == "bin":
        return "%s(%s, %s)" % (e[1], fmt(e[2], depth + 1), fmt(e[3], depth + 1))
    if tag == "un":
        return "%s(%s)" % (e[1], fmt(e[2], depth + 1))
    if tag == "cast":
        return "cast(%s)" % fmt(e[1], depth + 1)
    if tag == "discr":
        return "discriminant(%s)" % fmt(e[1], depth + 1)
    if tag == "phi":
        return "phi[%s](%s)" % (e[2] or "_%d" % e[1], " | ".join(fmt(a, depth + 1) for a in e[3]))
    if tag == "yield":
        return "<resume>"
    return str(e)[:60]


def agg_is(e, adt_suffix, variant=None):
    if e[0] != "agg" or e[1].get("agg") != "adt":
        return False
    if not (e[1]["adt"] == adt_suffix or e[1]["adt"].endswith("::" + adt_suffix)):
        return False
    return variant is None or e[1]["variant"] == variant


# ----------------------------------------------------------------------------- crate / facts

# anchor bodies into which single-caller private helpers are spliced (wrapper tolerance)
INLINE_ANCHOR_PREFIXES = (
    "xs::store::Store::append", "xs::store::Store::insert_frame", "xs::store::Store::remove", "xs::store::Store::new", "xs::store::Store::read",
    "xs::store::Store::read_sync", "xs::store::Store::head", "xs::store::Store::iter_frames", "xs::store::Store::get", "xs::store::ttl::parse_ttl",
    "xs::store::ttl::TTL::to_query", "xs::store::ttl::TTL::from_query", "<xs::store::ttl::TTL as serde::ser::Serialize>::serialize", "xs::store::ReadOptions::to_query_string",
    "xs::store::idx_topic_key_from_frame", "xs::store::idx_context_key_from_frame", "xs::store::idx_topic_key_prefix", "xs::store::idx_topic_frame_id_from_key",
    "xs::store::idx_context_key_range_end", "xs::store::spawn_gc_worker", "xs::api::handle", "xs::api::match_route", "xs::handlers::handler::Handler::", "xs::handlers::serve::",
    "xs::generators::serve::", "xs::commands::serve::", "xs::nu::util::write_pipeline_to_cas", "<xs::nu::commands::")
# crate-local functions the rules identify by their call sites (never inlined even when they have a single caller)
ROLE_FNS = ("xs::commands::serve::run_command", "xs::handlers::handler::EngineWorker::new", "xs::store::spawn_gc_worker", "xs::store::is_expired",
            "xs::store::idx_topic_key_prefix", "xs::store::idx_context_key_from_frame", "xs::store::idx_topic_frame_id_from_key", "xs::store::deserialize_frame")


class _AnchorSet:
    """Membership by prefix: a body is an anchor if its def path starts with one of the prefixes, or if it is a closure of a
    helper that was itself spliced into an anchor (adopted)."""
    def __init__(self):
        self.adopted = []

    def adopt(self, helper_def):
        self.adopted.append(helper_def + "::{")

    def __contains__(self, d):
        return isinstance(d, str) and (d.startswith(INLINE_ANCHOR_PREFIXES) or (bool(self.adopted) and d.startswith(tuple(self.adopted))))


INLINE_ANCHORS = _AnchorSet()
# names the repository's own tests pin (never inlined: rules anchor on them)
PINNED_NAMES = ROLE_FNS + ("xs::store::Store::new", "xs::store::Store::append", "xs::store::Store::read", "xs::store::Store::read_sync", "xs::store::Store::get",
                "xs::store::Store::head", "xs::store::Store::remove", "xs::store::Store::insert_frame", "xs::store::Store::iter_frames",
                "xs::store::idx_topic_key_from_frame", "xs::store::idx_context_key_range_end", "xs::store::ttl::parse_ttl")


_INHERENT_IMPL_ELSEWHERE = re.compile(r"(?:[A-Za-z_][A-Za-z0-9_]*::)+<impl ((?:[A-Za-z_][A-Za-z0-9_]*::)*[A-Za-z_][A-Za-z0-9_]*)>::")


class Crate:
    def __init__(self, path, local_prefix, renames=None, field_renames=None, shapes=None):
        with open(path) as fh:
            text = fh.read()
        text = text.replace("crate::", local_prefix + "::")
        # an inherent method defined in an `impl Type` block that lives in another module than the type is printed
        # `that::module::<impl the::Type>::method` by rustc: it is the method `the::Type::method`
        # (local types only: `core::str::<impl str>::len` and the like are how rules name std methods)
        text = _INHERENT_IMPL_ELSEWHERE.sub(
            lambda m: (m.group(1) + "::") if m.group(0).startswith(local_prefix + "::")
            and m.group(1).startswith(local_prefix + "::") else m.group(0), text)
        # an ordered map is a map: rules ask what is inserted, removed and looked up under which key, never for the iteration order
        # (where an order matters - restart in id order - they ask for the sort)
        text = text.replace("alloc::collections::btree::map::BTreeMap::<K, V, A>::", "std::collections::hash::map::HashMap::<K, V, S, A>::")
        text = text.replace("alloc::collections::btree::map::BTreeMap<", "std::collections::hash::map::HashMap<")
        if renames:
            # an item the rules know by its path was moved to another module (`mod gc;` split out of store/mod.rs) or, being private,
            # renamed (xsvlib/baseline.py): it is given its old name back everywhere (definitions, call sites, closures below it), so
            # that every rule reads the tree as before.  One pass, longest path first, whole path segments only.
            table = dict(renames)
            rx = re.compile("(" + "|".join(re.escape(a) for a in sorted(table, key=lambda x: -len(x))) + r")(?![A-Za-z0-9_])")
            text = rx.sub(lambda m: table[m.group(1)], text)
        for (adt, actual, expected) in (field_renames or []):
            # a private field the rules know by name was renamed: it is given its old name back (projections, struct literals, the
            # type's own definition below)
            text = text.replace('"n":"%s","adt":"%s"' % (actual, adt), '"n":"%s","adt":"%s"' % (expected, adt))
            text = re.sub(r'"adt":"%s","variant":"[^"]*","vidx":\d+,"fields":\[[^\]]*\]' % re.escape(adt),
                          lambda m: m.group(0).replace('"%s"' % actual, '"%s"' % expected), text)
        j = json.loads(text)
        if shapes:
            from . import baseline
            baseline.apply_shapes(j, shapes)
        for (adt, actual, expected) in (field_renames or []):
            for a in j["adts"]:
                if a["def"] == adt:
                    for v in a["variants"]:
                        for fl in v["fields"]:
                            if fl["name"] == actual:
                                fl["name"] = expected
        self.name = local_prefix
        self.j = j
        self.types = Types(j["types"])
        self.bodies = {}
        self.body_list = []
        for bj in j["bodies"]:
            b = Body(self, bj)
            self.bodies[b.def_] = b
            self.body_list.append(b)
        self.adts = {a["def"]: a for a in j["adts"]}
        self.impls = j["impls"]
        self.fns = {f["def"]: f for f in j["fns"]}
        self.consts = {c["def"]: c for c in j["consts"]}
        self.siblings = [self]

    def named_const(self, def_path):
        for cr in self.siblings:
            if def_path in cr.consts:
                return cr.consts[def_path]
        return None


class Facts:
    def __init__(self, d, splice=True):
        self.dir = d
        self.lib = Crate(os.path.join(d, "xs-lib.json"), "xs")
        self.bin = Crate(os.path.join(d, "xs-bin.json"), "xsbin")
        self.crates = [self.lib, self.bin]
        self.inlined = []
        self.renames = self._moved_items()
        self.field_renames = self._renamed_fields()
        # private items the rules name that were renamed (not merely moved): matched against the frozen baseline by shape / signature
        from . import baseline
        base = baseline.load()
        moved_to = {e for (a, e) in self.renames}
        adt_paths, self.shapes = baseline.match_adts(self, base)
        adt_paths = [(a, e) for (a, e) in adt_paths if e not in moved_to and not any(a == x for (x, _) in self.renames)]
        fn_paths = baseline.match_fns(self, {"fns": {n: i for n, i in base["fns"].items() if n not in moved_to}, "adts": base["adts"]},
                                      adt_paths + list(self.renames))
        fn_paths = [(a, e) for (a, e) in fn_paths if not any(a == x or a.startswith(x + "::") for (x, _) in self.renames)]
        self.renamed_private = adt_paths + fn_paths
        self.renames = list(self.renames) + self.renamed_private
        if self.renames or self.field_renames or self.shapes:
            self.lib = Crate(os.path.join(d, "xs-lib.json"), "xs", self.renames, self.field_renames, self.shapes)
            self.bin = Crate(os.path.join(d, "xs-bin.json"), "xsbin", self.renames, self.field_renames, self.shapes)
            self.crates = [self.lib, self.bin]
        self.lib.siblings = self.crates
        self.bin.siblings = self.crates
        from . import inline
        self.inlined = []
        if splice:
            self.inlined = inline.apply(self, _AnchorSet(), PINNED_NAMES)

    # private fields the rules name, and what identifies each of them apart from its name
    PARTITION_FIELDS = {"stream": "frame_partition", "idx_topic": "idx_topic", "idx_context": "idx_context"}     # on-disk partition name -> field
    TYPED_FIELDS = [("xs::handlers::handler::Handler", "output", "Vec<xs::store::Frame"),
                    ("xs::store::Store", "contexts", "Set<scru128::id::Scru128Id")]

    def _renamed_fields(self):
        """[(adt, actual field name, name the rules use)] for private fields that were renamed: the store's partition handles are
        recognised by the on-disk name they are opened under in `Store::new`, the handler's output buffer and the context registry
        by being the only field of their type."""
        out = []
        adt = "xs::store::Store"
        a = self.lib.adts.get(adt)
        nb = self.lib.bodies.get("xs::store::Store::new")
        if a is not None and nb is not None:
            have = [fl["name"] for fl in a["variants"][0]["fields"]]
            live = nb.live_blocks()
            for bb in sorted(live):
                for st in nb.blocks[bb]["stmts"]:
                    if st["k"] == "assign" and st["rv"].get("agg") == "adt" and st["rv"].get("adt") == adt and len(st["rv"]["ops"]) == len(have):
                        for name, op in zip(st["rv"].get("fields") or have, st["rv"]["ops"]):
                            try:
                                e = nb.operand_expr(op)
                            except FactError:
                                continue
                            opened = [y for y in walk(e) if y[0] == "call" and y[1].fn == "fjall::keyspace::Keyspace::open_partition"]
                            if len(opened) != 1:
                                continue
                            disk = const_strs(opened[0][2][1]) if len(opened[0][2]) > 1 else []
                            want = self.PARTITION_FIELDS.get(disk[0]) if len(disk) == 1 else None
                            if want and want != name and want not in have and not any(x[1] == name for x in out):
                                out.append((adt, name, want))
        for (adt, want, tyfrag) in self.TYPED_FIELDS:
            for c in self.crates:
                a = c.adts.get(adt)
                if a is None or not a["variants"]:
                    continue
                fields = a["variants"][0]["fields"]
                if any(fl["name"] == want for fl in fields):
                    continue
                cands = [fl for fl in fields if tyfrag in c.types.s(fl["ty"]) and not str(fl.get("vis")).startswith("Public")]
                if len(cands) == 1:
                    out.append((adt, cands[0]["name"], want))
        return out

    def _moved_items(self):
        """[(actual path, path the rules use)] for free functions and types the rules name that are not where they used to be, when
        exactly one item of that name exists elsewhere in the same crate (a module split or merge).  Methods keep their type's path
        wherever the impl block lives, so only free functions and the types themselves can move."""
        from . import inline
        import re
        out = []
        have_fn, have_adt = {}, {}
        for c in self.crates:
            for b in c.body_list:
                if b.kind == "Fn":
                    have_fn.setdefault(b.def_.split("::")[-1], []).append(b.def_)
            for a in c.adts:
                have_adt.setdefault(a.split("::")[-1], []).append(a)
        known_fn = {b.def_ for c in self.crates for b in c.body_list}        # every body, methods and closures included
        known_adt = {d for ds in have_adt.values() for d in ds}
        methods_owner = set()
        for c in self.crates:
            for b in c.body_list:
                if b.kind == "AssocFn":
                    methods_owner.add(b.def_.rsplit("::", 1)[0])
        for n in sorted(inline._names_used_by_rules() | set(PINNED_NAMES) | set(ROLE_FNS)):
            if not re.fullmatch(r"xs(?:bin)?(::[A-Za-z_][A-Za-z0-9_]*)+", n):
                continue
            if n in known_fn or n in known_adt or n in methods_owner:
                continue
            if any(d.startswith(n + "::") for d in known_fn) or any(d.startswith(n + "::") for d in known_adt):
                continue            # a module path
            parent = n.rsplit("::", 1)[0]
            if parent in known_adt or parent in methods_owner:
                continue            # a method of a type that is where it was (it keeps the type's path wherever its impl block lives)
            if parent.split("::")[-1][:1].isupper():
                # a method of a type that is not where it was: the type moved, and its methods with it
                tl, troot = parent.split("::")[-1], parent.split("::")[0]
                tc = [d for d in have_adt.get(tl, []) if d.split("::")[0] == troot]
                if len(tc) == 1 and tc[0] != parent and not any(a == tc[0] for (a, e) in out):
                    out.append((tc[0], parent))
                continue
            last = n.split("::")[-1]
            root = n.split("::")[0]
            cands = [d for d in have_fn.get(last, []) + have_adt.get(last, []) if d.split("::")[0] == root]
            if len(cands) == 1 and cands[0] != n and not any(a == cands[0] for (a, e) in out):
                out.append((cands[0], n))
        # the other items of a module some named item was moved out into travel with it (rules also look items up by prefix,
        # e.g. every `xs::api::handle_*`): `xs::api::handlers::handle_version` -> `xs::api::handle_version`, unless that name is taken
        mods = {}
        for (a, e) in out:
            mods.setdefault(a.rsplit("::", 1)[0], set()).add(e.rsplit("::", 1)[0])
        for ma, mes in mods.items():
            if len(mes) != 1:
                continue
            me = next(iter(mes))
            for d in sorted(known_fn | known_adt):
                if d.rsplit("::", 1)[0] == ma and "{" not in d and not any(a == d for (a, e) in out):
                    tgt = me + "::" + d.split("::")[-1]
                    if tgt not in known_fn and tgt not in known_adt:
                        out.append((d, tgt))
        # longest first, so that `a::b::f` is not rewritten through a rename of `a::b`
        out.sort(key=lambda x: -len(x[0]))
        return out

    def all_bodies(self):
        for c in self.crates:
            for b in c.body_list:
                if not b.hidden:
                    yield b

    def body(self, def_):
        for c in self.crates:
            if def_ in c.bodies:
                return c.bodies[def_]
        return None

    def _roots(self, prefix):
        """`prefix` plus the helpers spliced into it (or into a closure below it): their closures now belong to it."""
        roots = [prefix]
        grew = True
        while grew:
            grew = False
            for (a, h) in self.inlined:
                if h not in roots and any(a == r or a.startswith(r + "::") for r in roots):
                    roots.append(h)
                    grew = True
        return roots

    def bodies_under(self, prefix):
        """The body `prefix` and every closure / coroutine / nested item body below it (closures of spliced helpers included)."""
        out = []
        roots = self._roots(prefix)
        for b in self.all_bodies():
            if any(b.def_ == r or b.def_.startswith(r + "::") for r in roots):
                out.append(b)
        return out

    def closures_under(self, prefix):
        roots = self._roots(prefix)
        return [b for b in self.all_bodies() if any(b.def_.startswith(r + "::{") for r in roots)]

    def all_calls(self):
        for b in self.all_bodies():
            for c in b.calls():
                yield c

    def calls_to(self, *names, prefix=None):
        out = []
        for b in self.all_bodies():
            out.extend(b.calls_to(*names, prefix=prefix))
        return out

    def adt(self, name):
        for c in self.crates:
            if name in c.adts:
                return c.adts[name]
        return None

    def const(self, name):
        for c in self.crates:
            if name in c.consts:
                return c.consts[name]
        return None

    def enclosing_fn(self, body):
        """Strip closure segments: xs::a::b::{closure#0}::{closure#1} -> xs::a::b"""
        d = body.def_
        i = d.find("::{closure")
        return d[:i] if i >= 0 else d
