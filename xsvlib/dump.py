"""Readable dump of a body's facts: calls with resolved argument expressions, switches with
their condition, field writes.  Debug aid for writing rules."""
from .facts import fmt


def dump_body(b, out):
    out.write("== %s  [%s%s] %s argc=%d blocks=%d\n" % (b.def_, b.kind, " coroutine" if b.is_coroutine else "", b.sp, b.argc, len(b.blocks)))
    if b.captures:
        out.write("   captures: %s\n" % ", ".join("%s%s" % ("&" if c["by_ref"] else "", c["name"]) for c in b.captures))
    b.defs()
    live = b.live_blocks()
    for bi in sorted(live):
        blk = b.blocks[bi]
        t = blk["term"]
        succ = ",".join("%s:%d" % (lab, tb) for tb, lab in b.succ(bi))
        for si, s in enumerate(blk["stmts"]):
            if s["k"] == "assign" and s["lhs"]["p"]:
                out.write("  bb%d.%d  WRITE %s = %s   @%s\n" % (bi, si, fmt(b.place_expr(s["lhs"])), fmt(b.rvalue_expr(s["rv"])), s["sp"]))
            elif s["k"] == "assign" and b.lname(s["lhs"]["l"]):
                out.write("  bb%d.%d  LET %s = %s   @%s\n" % (bi, si, b.lname(s["lhs"]["l"]), fmt(b.rvalue_expr(s["rv"])), s["sp"]))
        k = t["k"]
        if k == "call":
            from .facts import CallSite
            cs = CallSite(b, bi, t)
            dest = fmt(b.place_expr(t["dest"])) if (t["dest"]["p"] or b.lname(t["dest"]["l"])) else "_%d" % t["dest"]["l"]
            out.write("  bb%d  CALL %s = %s(%s) -> [%s]  @%s %s\n" % (bi, dest, cs.resx or cs.fnx, ", ".join(fmt(a) for a in cs.arg_exprs()), succ, t["sp"], t.get("exp") or ""))
        elif k == "switch":
            si = b.switch_info(bi)
            out.write("  bb%d  SWITCH[%s] %s -> %s  @%s\n" % (bi, si["kind"], fmt(si["cond"]), ", ".join("%s=>bb%d" % (m, tb) for tb, lab, m in si["edges"]), t["sp"]))
        elif k == "return":
            out.write("  bb%d  RETURN  @%s\n" % (bi, t["sp"]))
        elif k in ("yield",):
            out.write("  bb%d  YIELD -> [%s]\n" % (bi, succ))
        elif k == "drop":
            out.write("  bb%d  DROP %s -> [%s]\n" % (bi, fmt(b.place_expr(t["place"])), succ))
        elif k == "goto":
            out.write("  bb%d  GOTO -> [%s]\n" % (bi, succ))
        else:
            out.write("  bb%d  %s -> [%s]\n" % (bi, k.upper(), succ))
