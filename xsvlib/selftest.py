"""Checker self-validation: apply one edit (or patch) to a scratch copy of /repo, re-extract, run the rules and
require that breaking edits fire the named rule and benign edits stay silent."""
import concurrent.futures
import json
import os
import sys
import time

from . import extract, variant

CORPUS = os.path.join(extract.VERIF, "selftest", "edits.json")


def load():
    with open(CORPUS) as fh:
        return json.load(fh)["edits"]


def run_one(entry, worker):
    d = variant.make_scratch(worker)
    try:
        ok, msg = True, ""
        if "patch" in entry:
            ok, msg = variant.apply_patch(d, os.path.join(extract.VERIF, entry["patch"]), entry.get("reverse", False))
        if ok:
            for ed in entry.get("edits", []):
                ok, msg = variant.apply_edit(d, ed["file"], ed["old"], ed["new"])
                if not ok:
                    break
        if not ok:
            return {"id": entry["id"], "status": "skipped", "why": "edit no longer applies: " + msg[:200]}
        props = [p for p in entry["properties"] if os.path.exists(os.path.join(extract.VERIF, "rules", p + ".py"))]
        try:
            res = variant.check_variant(d, props, worker)
        except extract.CheckerError as e:
            return {"id": entry["id"], "status": "error", "why": "variant does not build: " + str(e)[-600:]}
        fired = []
        for p in props:
            fired += [v["key"] for v in res[p]["violations"]]
        if entry["kind"] == "breaking":
            want = entry.get("expect", [])
            missing = [w for w in want if not any(k.startswith(w) for k in fired)]
            ok = bool(fired) and not missing
            stray = []
            if "only" in entry:
                for p in props:
                    if p not in entry["only"]:
                        stray += [v["key"] for v in res[p]["violations"]]
                ok = ok and not stray
            return {"id": entry["id"], "status": "ok" if ok else "FAILED", "fired": fired, "missing": missing + (["STRAY:" + k for k in stray])}
        else:
            return {"id": entry["id"], "status": "ok" if not fired else "FAILED", "fired": fired}
    finally:
        variant.cleanup(worker)


def _work(args):
    w, bucket = args
    return [run_one(e, w + 1) for e in bucket]


def run(ids=None, props=None, jobs=6, verbose=True):
    entries = load()
    if ids:
        entries = [e for e in entries if e["id"] in ids or any(e["id"].startswith(i) for i in ids)]
    if props:
        entries = [e for e in entries if set(e["properties"]) & set(props)]
    results = []
    t0 = time.time()
    # each worker owns a scratch dir + hard-linked target dir
    buckets = [[] for _ in range(jobs)]
    for i, e in enumerate(entries):
        buckets[i % jobs].append(e)

    # processes, not threads: rule evaluation is CPU-bound Python
    with concurrent.futures.ProcessPoolExecutor(max_workers=jobs) as ex:
        for out in ex.map(_work, [(w, buckets[w]) for w in range(jobs)]):
            results.extend(out)
    for w in range(jobs):
        variant.cleanup(w + 1, target_too=True)
    results.sort(key=lambda r: r["id"])
    if verbose:
        for r in results:
            print("%-8s %s %s" % (r["status"], r["id"], ("fired=%s" % r.get("fired")) if r["status"] != "skipped" else r.get("why")))
            if r.get("missing"):
                print("         missing expected: %s" % r["missing"])
            if r["status"] == "error":
                print("         %s" % r["why"])
        print("selftest: %d entries, %d ok, %d failed, %d skipped, %d error  [%.1fs]" % (
            len(results), sum(r["status"] == "ok" for r in results), sum(r["status"] == "FAILED" for r in results),
            sum(r["status"] == "skipped" for r in results), sum(r["status"] == "error" for r in results), time.time() - t0))
    return results


def main(argv):
    jobs = 6
    if "-j" in argv:
        i = argv.index("-j")
        jobs = int(argv[i + 1])
        argv = argv[:i] + argv[i + 2:]
    res = run(ids=argv or None, jobs=jobs)
    bad = [r for r in res if r["status"] in ("FAILED", "error")]
    return 1 if bad else 0
