"""Rule engine: runs the rules of one property over the facts of /repo's current tree,
prints KNOWN-FINDING / VIOLATION lines, writes evidence/<id>.json and violation replay files."""
import hashlib
import importlib
import json
import os
import re
import sys
import time
import traceback

from . import extract
from .facts import Facts, FactError

VERIF = extract.VERIF
EVIDENCE_DIR = os.path.join(VERIF, "evidence")
KNOWN_FILE = os.path.join(VERIF, "known_findings.json")

TRUSTED_BASE = [
    "rustc 1.97-nightly type checker + MIR builder (mir_built) as the semantics of the source",
    "fjall 2.4.4: Batch::commit atomic across partitions, Keyspace::persist(SyncAll) = fsync, range/prefix iteration in key order",
    "cacache 13 / ssri 9: content addressing, Writer::commit returns only after content is in place",
    "scru128 3: process-wide monotonic id generator",
    "tokio 1.42: broadcast/mpsc/oneshot per-receiver FIFO, Lagged semantics, WeakSender does not keep a channel open",
    "bon 2.3: builder typestate (Set/Unset generic args) reflects which setters were called",
    "serde / serde_json derive symmetry; Nushell evaluation semantics",
]


class Obligation:
    __slots__ = ("rule", "key", "ok", "where", "what", "detail", "reason")

    def __init__(self, rule, key, ok, where, what, detail=None, reason=None):
        self.rule = rule
        self.key = key
        self.ok = ok
        self.where = where
        self.what = what
        self.detail = detail
        self.reason = reason

    def to_json(self):
        d = {"rule": self.rule, "key": self.key, "ok": self.ok, "where": self.where, "what": self.what}
        if self.detail is not None:
            d["detail"] = self.detail
        if self.reason:
            d["reason"] = self.reason
        return d


class Run:
    """Collects obligations for one property."""

    def __init__(self, prop, tier, facts):
        self.prop = prop
        self.tier = tier
        self.facts = facts
        self.obs = []
        self.notes = []
        self.rule_meta = {}
        self.cur_rule = None
        self.analysed_bodies = set()

    # --- obligation API used by rules
    def ob(self, construct, ok, where, what, detail=None, reason=None, rule=None):
        """Record one obligation of the current rule. `construct` must identify the code construct
        without line numbers (def-path + role); `where` is file:line for the reader."""
        rule = rule or self.cur_rule
        key = re.sub(r"\{closure#\d+\}", "{closure}", "%s|%s" % (rule, construct))
        o = Obligation(rule, key, bool(ok), where, what, detail, reason if not ok else None)
        self.obs.append(o)
        return bool(ok)

    def missing(self, construct, what, where="<crate>", detail=None):
        """Fail closed: the mechanism / anchor the rule is about was not found."""
        return self.ob(construct, False, where, what, detail, reason="mechanism-not-found")

    def unrecognised(self, construct, what, where, detail=None):
        return self.ob(construct, False, where, what, detail, reason="unrecognised-idiom")

    def note(self, text):
        self.notes.append({"rule": self.cur_rule, "note": text})

    def touch(self, body):
        if body is not None:
            self.analysed_bodies.add(body.def_)

    def floor(self, what, count, floor, where="<crate>"):
        """Instance-count floor: a rule matching fewer sites than confirmed by hand fails closed."""
        return self.ob("floor:%s" % what, count >= floor, where,
                       "%s: %d instance(s) found, floor %d" % (what, count, floor),
                       reason="instance-count-below-floor")

    def exact(self, what, count, expected, where="<crate>", detail=None):
        return self.ob("count:%s" % what, count == expected, where,
                       "%s: %d instance(s) found, expected exactly %d" % (what, count, expected), detail,
                       reason="instance-count-mismatch")


def load_known():
    if not os.path.exists(KNOWN_FILE):
        return []
    with open(KNOWN_FILE) as fh:
        return json.load(fh).get("findings", [])


def sanitize(key):
    s = re.sub(r"[^A-Za-z0-9_.-]+", "_", key)
    if len(s) > 150:
        s = s[:110] + "_" + hashlib.sha1(key.encode()).hexdigest()[:12]
    return s


def load_property_module(prop):
    return importlib.import_module("rules.%s" % prop)


def run_property(prop, tier="quick", facts=None, quiet=False, write=True, seed=0):
    t0 = time.time()
    sys.path.insert(0, VERIF)
    mod = load_property_module(prop)
    if facts is None:
        facts = Facts(extract.facts_dir())
    run = Run(prop, tier, facts)
    rules = mod.RULES
    for (rid, clause, fn) in rules:
        run.cur_rule = rid
        run.rule_meta[rid] = {"id": rid, "clause": clause}
        n_before = len(run.obs)
        try:
            fn(run)
        except FactError as e:
            run.ob("interpret", False, "<rule>", "rule could not interpret the facts: %s" % e, reason="unrecognised-idiom")
        except Exception as e:  # fail closed, but make it diagnosable
            tb = traceback.format_exc(limit=6)
            run.ob("interpret", False, "<rule>", "rule crashed on the facts (%s: %s)" % (type(e).__name__, e), detail=tb,
                   reason="unrecognised-idiom")
        if len(run.obs) == n_before:
            run.ob("vacuous", False, "<rule>", "rule produced no obligation (matched nothing)", reason="mechanism-not-found")
    run.cur_rule = None

    known = {k["key"]: k for k in load_known() if k.get("property") == prop and k.get("status") == "known"}
    failed = [o for o in run.obs if not o.ok]
    violations = []
    known_hits = []
    seen = set()
    for o in failed:
        if o.key in seen:
            continue
        seen.add(o.key)
        if o.key in known:
            known_hits.append(o)
        else:
            violations.append(o)

    viol_dir = os.path.join(EVIDENCE_DIR, "violations", prop)
    out_lines = []
    for o in known_hits:
        out_lines.append("KNOWN-FINDING: property=%s %s: %s (%s)" % (prop, o.key, o.what, o.where))
    if write:
        if os.path.isdir(viol_dir):
            for f in os.listdir(viol_dir):
                os.remove(os.path.join(viol_dir, f))
    for o in violations:
        path = os.path.join(viol_dir, sanitize(o.key) + ".json")
        if write:
            os.makedirs(viol_dir, exist_ok=True)
            with open(path, "w") as fh:
                json.dump({"property": prop, "finding": o.to_json(), "clause": run.rule_meta.get(o.rule, {}).get("clause"),
                           "tree": extract.tree_hash()}, fh, indent=1)
        out_lines.append("VIOLATION property=%s replay=%s" % (prop, path))
        out_lines.append("  rule=%s reason=%s at %s" % (o.rule, o.reason, o.where))
        out_lines.append("  construct=%s" % o.key)
        out_lines.append("  %s" % o.what)
        if o.detail and not quiet:
            d = o.detail if isinstance(o.detail, str) else json.dumps(o.detail)
            out_lines.append("  detail: %s" % d[:1500])

    # evidence
    per_rule = []
    for (rid, clause, fn) in rules:
        obs = [o for o in run.obs if o.rule == rid]
        per_rule.append({
            "id": rid, "clause": clause,
            "obligations": len(obs), "discharged": sum(1 for o in obs if o.ok),
            "failed": [o.key for o in obs if not o.ok],
        })
    distinct = len({o.key for o in run.obs})
    samples = []
    for (rid, clause, fn) in rules:
        obs = [o for o in run.obs if o.rule == rid]
        for o in obs[:3]:
            samples.append(o.to_json())
    n_ob = len(run.obs)
    n_ok = sum(1 for o in run.obs if o.ok)
    ev = {
        "property_id": prop,
        "tier": tier,
        "seed": seed,
        "level": "other",
        "coverage": {
            "explanation": getattr(mod, "EXPLANATION", "") + " A pass means every decided clause holds on every normal CFG path / "
                           "call site of the analysed bodies; the behaviour as a whole is NOT decided (see not_decided).",
            "obligations": n_ob,
            "discharged": n_ok,
            "evaluations": n_ob,
            "distinct_nontrivial": distinct,
            "rule": "one obligation per (rule, code construct) whose premise matched in the MIR facts of /repo's current tree; "
                    "distinct = distinct (rule|def-path|construct) keys; a rule that matches nothing fails (vacuous)",
            "samples": samples[:60],
            "rules": per_rule,
            "not_decided": getattr(mod, "NOT_DECIDED", []),
            "observations": run.notes,
            "bodies_analysed": sorted(run.analysed_bodies),
            "facts": {"lib_bodies": len(facts.lib.body_list), "bin_bodies": len(facts.bin.body_list),
                      "tree_hash": extract.tree_hash(), "mir_stage": "mir_built (after_expansion), normal paths only"},
            # how the tree was read before any rule ran: items given their rule name back (moved: 8.8b, renamed private items matched
            # against xsvlib/baseline.json: 8.8d, renamed private fields: 8.8c) and helper bodies looked through
            "normalisation": {"paths": [list(x) for x in getattr(facts, "renames", [])][:80],
                              "renamed_private_items": [list(x) for x in getattr(facts, "renamed_private", [])][:80],
                              "fields": [list(x) for x in getattr(facts, "field_renames", [])],
                              "type_shapes": sorted(getattr(facts, "shapes", {}) or {}),
                              "spliced": len(getattr(facts, "inlined", []))},
            "coverage_gaps": ["#[cfg(not(unix))] code in main.rs is not analysed (no non-unix target installed)",
                              "cfg(test) code is out of scope"],
            "known_findings_hit": [o.key for o in known_hits],
            "checker_cmd": "./xsv check %s --tier %s" % (prop, tier),
            "trusted_base": TRUSTED_BASE,
            "exhaustive": True,
        },
        "assumptions": TRUSTED_BASE + ["path feasibility is over-approximated: every normal CFG path is considered"],
        "wall_s": round(time.time() - t0, 3),
        "violations": len(violations),
    }
    return run, ev, violations, known_hits, out_lines


def main_check(argv):
    if not argv:
        print("usage: xsv check <Cxx> [--tier quick|thorough]")
        return 2
    prop = argv[0]
    tier = os.environ.get("VERIF_TIER", "quick")
    if "--tier" in argv:
        tier = argv[argv.index("--tier") + 1]
    seed = int(os.environ.get("VERIF_SEED", "0") or 0)
    t0 = time.time()
    evpath = os.path.join(EVIDENCE_DIR, "%s.json" % prop)
    try:
        facts = Facts(extract.facts_dir())
        extract_floor_check(facts)
        run, ev, violations, known_hits, lines = run_property(prop, tier, facts, seed=seed, write=not os.environ.get("XSV_NO_EVIDENCE"))
        extra_rc = 0
        if tier == "thorough":
            from . import thorough
            extra_rc, extra = thorough.run(prop, facts, run)
            ev["coverage"]["thorough"] = extra
    except extract.CheckerError as e:
        print("CHECKER-ERROR property=%s: %s" % (prop, e))
        return 2
    ev["wall_s"] = round(time.time() - t0, 3)
    if not os.environ.get("XSV_NO_EVIDENCE"):
        os.makedirs(EVIDENCE_DIR, exist_ok=True)
        with open(evpath, "w") as fh:
            json.dump(ev, fh, indent=1)
    for l in lines:
        print(l)
    c = ev["coverage"]
    print("%s %s: %d obligations over %d rules, %d discharged, %d violation(s), %d known finding(s)  [%.1fs]" % (
        prop, tier, c["obligations"], len(c["rules"]), c["discharged"], len(violations), len(known_hits), ev["wall_s"]))
    if violations:
        return 1
    if extra_rc:
        return extra_rc
    return 0


def extract_floor_check(facts):
    nl, nb = len(facts.lib.body_list), len(facts.bin.body_list)
    lost = list(facts.lib.j.get("skipped") or []) + list(facts.bin.j.get("skipped") or [])
    if lost:
        raise extract.CheckerError("the extractor could not read %d function bodies (stolen before extraction): %s" % (len(lost), lost[:6]))
    if nl < extract.LIB_BODY_FLOOR or nb < extract.BIN_BODY_FLOOR:
        raise extract.CheckerError("fact files too small: %d lib / %d bin bodies (floors %d / %d)" % (
            nl, nb, extract.LIB_BODY_FLOOR, extract.BIN_BODY_FLOOR))


def main_explain(argv):
    if not argv:
        print("usage: xsv explain <violation.json>")
        return 2
    with open(argv[0]) as fh:
        v = json.load(fh)
    prop = v["property"]
    key = v["finding"]["key"]
    facts = Facts(extract.facts_dir())
    run, ev, violations, known_hits, lines = run_property(prop, "quick", facts, write=False)
    hit = [o for o in run.obs if o.key == key and not o.ok]
    if not hit:
        print("finding %s does not reproduce on the current tree" % key)
        return 0
    for o in hit:
        print("VIOLATION property=%s replay=%s" % (prop, argv[0]))
        print(json.dumps(o.to_json(), indent=1))
    return 1
