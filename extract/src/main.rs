// xsv-extract: rustc_private driver used as RUSTC_WORKSPACE_WRAPPER.
// Serialises the type-checked, callee-resolved `mir_built` of every body of the
// `xs` lib and bin crates (plus ADT / impl tables) as JSON facts for the rule engine.
// It never runs the analysed program.
#![feature(rustc_private)]
#![allow(clippy::all)]

extern crate rustc_abi;
extern crate rustc_data_structures;
extern crate rustc_driver;
extern crate rustc_hir;
extern crate rustc_interface;
extern crate rustc_middle;
extern crate rustc_session;
extern crate rustc_span;

mod json;
use json::J;

use std::collections::HashMap;

use rustc_driver::Compilation;
use rustc_hir::def::DefKind;
use rustc_hir::def_id::{DefId, LocalDefId};
use rustc_interface::interface::Compiler;
use rustc_middle::mir::{
    self, AggregateKind, BasicBlockData, Body, Const, ConstValue, Operand, Place,
    ProjectionElem, Rvalue, StatementKind, TerminatorKind, VarDebugInfoContents,
};
use rustc_middle::ty::print::{with_crate_prefix, with_no_trimmed_paths as wntp, with_no_visible_paths};

macro_rules! with_no_trimmed_paths {
    ($e:expr) => {
        with_no_visible_paths!(with_crate_prefix!(wntp!($e)))
    };
}
use rustc_middle::ty::{self, GenericArgKind, GenericArgsRef, Instance, Ty, TyCtxt, TypeVisitableExt, TypingEnv};
use rustc_span::{ExpnKind, Span};

struct Cb {
    stage2: bool,
}

// Every body is captured the moment `mir_built` produces it: type-checking one function can force later MIR passes of another
// (`tokio::spawn(async_fn(..))` needs the coroutine witnesses of `async_fn`, which steals its `mir_built`), so a body that is only
// asked for afterwards may already be gone.  The provider override keeps a clone of each body for the extraction pass.
type MirBuiltFn = for<'tcx> fn(TyCtxt<'tcx>, rustc_span::def_id::LocalDefId) -> &'tcx rustc_data_structures::steal::Steal<mir::Body<'tcx>>;
static ORIG_MIR_BUILT: std::sync::OnceLock<MirBuiltFn> = std::sync::OnceLock::new();
static SAVED_BODIES: std::sync::Mutex<Vec<(u32, usize)>> = std::sync::Mutex::new(Vec::new());

fn saving_mir_built<'tcx>(tcx: TyCtxt<'tcx>, def: rustc_span::def_id::LocalDefId) -> &'tcx rustc_data_structures::steal::Steal<mir::Body<'tcx>> {
    let orig = ORIG_MIR_BUILT.get().expect("original mir_built provider");
    let steal = orig(tcx, def);
    let copy: mir::Body<'tcx> = steal.borrow().clone();
    let leaked: &'static mir::Body<'static> = unsafe { std::mem::transmute::<&mir::Body<'tcx>, &'static mir::Body<'static>>(Box::leak(Box::new(copy))) };
    SAVED_BODIES.lock().unwrap().push((def.local_def_index.as_u32(), leaked as *const _ as usize));
    steal
}

fn saved_body<'tcx>(def: rustc_span::def_id::LocalDefId) -> Option<&'tcx mir::Body<'tcx>> {
    let g = SAVED_BODIES.lock().unwrap();
    let idx = def.local_def_index.as_u32();
    g.iter().rev().find(|(i, _)| *i == idx).map(|(_, p)| unsafe { std::mem::transmute::<&'static mir::Body<'static>, &'tcx mir::Body<'tcx>>(&*(*p as *const mir::Body<'static>)) })
}

impl rustc_driver::Callbacks for Cb {
    fn config(&mut self, config: &mut rustc_interface::interface::Config) {
        if !self.stage2 {
            config.override_queries = Some(|_sess, providers| {
                let _ = ORIG_MIR_BUILT.set(providers.queries.mir_built);
                providers.queries.mir_built = saving_mir_built;
            });
        }
    }
    fn after_expansion<'tcx>(&mut self, _c: &Compiler, tcx: TyCtxt<'tcx>) -> Compilation {
        if !self.stage2 {
            extract(tcx, false);
        }
        Compilation::Continue
    }
    fn after_analysis<'tcx>(&mut self, _c: &Compiler, tcx: TyCtxt<'tcx>) -> Compilation {
        if self.stage2 {
            extract(tcx, true);
        }
        Compilation::Continue
    }
}

fn main() {
    let mut args: Vec<String> = std::env::args().collect();
    // RUSTC_WORKSPACE_WRAPPER protocol: argv[1] is the real rustc path.
    if args.len() > 1 && (args[1].ends_with("rustc") || args[1].contains("/rustc")) {
        args.remove(1);
    }
    let stage2 = std::env::var("XSV_STAGE").map(|s| s == "2").unwrap_or(false);
    let mut cb = Cb { stage2 };
    rustc_driver::run_compiler(&args, &mut cb);
}

struct Cx<'tcx> {
    tcx: TyCtxt<'tcx>,
    types: Vec<J>,
    type_ids: HashMap<Ty<'tcx>, usize>,
    uneval: Vec<(DefId, String)>,
}

fn dps(tcx: TyCtxt<'_>, d: DefId) -> String {
    with_no_trimmed_paths!(tcx.def_path_str(d))
}

fn span_json(tcx: TyCtxt<'_>, sp: Span) -> (String, J) {
    let sm = tcx.sess.source_map();
    let outer = sp.source_callsite();
    let loc = sm.lookup_char_pos(outer.lo());
    let file = match &loc.file.name {
        rustc_span::FileName::Real(r) => match r.local_path() {
            Some(p) => p.display().to_string(),
            None => format!("{:?}", r),
        },
        other => format!("{:?}", other),
    };
    let s = format!("{}:{}:{}", file, loc.line, loc.col.0 + 1);
    let exp = if sp.from_expansion() {
        let mut names: Vec<String> = Vec::new();
        for ed in sp.macro_backtrace() {
            let n = match ed.kind {
                ExpnKind::Macro(k, name) => format!("{}:{}", k.descr(), name),
                ExpnKind::Desugaring(k) => format!("desugar:{:?}", k),
                ExpnKind::AstPass(k) => format!("astpass:{:?}", k),
                ExpnKind::Root => "root".to_string(),
            };
            names.push(n);
        }
        // innermost first; also record the desugaring of the span's own ctxt
        let own = sp.ctxt().outer_expn_data();
        if let ExpnKind::Desugaring(k) = own.kind {
            let n = format!("desugar:{:?}", k);
            if !names.contains(&n) {
                names.insert(0, n);
            }
        }
        J::Arr(names.into_iter().map(J::Str).collect())
    } else {
        J::Null
    };
    (s, exp)
}

impl<'tcx> Cx<'tcx> {
    fn ty(&mut self, t: Ty<'tcx>) -> usize {
        if let Some(&i) = self.type_ids.get(&t) {
            return i;
        }
        let i = self.types.len();
        self.types.push(J::Null);
        self.type_ids.insert(t, i);
        let j = self.ty_json(t);
        self.types[i] = j;
        i
    }

    fn gargs(&mut self, args: GenericArgsRef<'tcx>) -> J {
        let mut v = Vec::new();
        for a in args.iter() {
            match a.kind() {
                GenericArgKind::Type(t) => v.push(J::Num(self.ty(t) as i128)),
                GenericArgKind::Const(c) => {
                    v.push(J::obj(vec![("c", J::Str(with_no_trimmed_paths!(format!("{}", c))))]))
                }
                GenericArgKind::Lifetime(_) => {}
            }
        }
        J::Arr(v)
    }

    fn ty_json(&mut self, t: Ty<'tcx>) -> J {
        let tcx = self.tcx;
        match t.kind() {
            ty::Adt(def, args) => J::obj(vec![
                ("k", J::s("adt")),
                ("n", J::Str(dps(tcx, def.did()))),
                ("a", self.gargs(args)),
            ]),
            ty::Ref(_, inner, m) => J::obj(vec![
                ("k", J::s("ref")),
                ("m", J::Bool(m.is_mut())),
                ("t", J::Num(self.ty(*inner) as i128)),
            ]),
            ty::RawPtr(inner, m) => J::obj(vec![
                ("k", J::s("ptr")),
                ("m", J::Bool(m.is_mut())),
                ("t", J::Num(self.ty(*inner) as i128)),
            ]),
            ty::Tuple(tys) => {
                let v: Vec<J> = tys.iter().map(|x| J::Num(self.ty(x) as i128)).collect();
                J::obj(vec![("k", J::s("tuple")), ("a", J::Arr(v))])
            }
            ty::Slice(inner) => J::obj(vec![
                ("k", J::s("slice")),
                ("t", J::Num(self.ty(*inner) as i128)),
            ]),
            ty::Array(inner, n) => J::obj(vec![
                ("k", J::s("array")),
                ("t", J::Num(self.ty(*inner) as i128)),
                ("len", J::Str(format!("{}", n))),
            ]),
            ty::Closure(d, _) => J::obj(vec![("k", J::s("closure")), ("d", J::Str(dps(tcx, *d)))]),
            ty::CoroutineClosure(d, _) => {
                J::obj(vec![("k", J::s("closure")), ("d", J::Str(dps(tcx, *d)))])
            }
            ty::Coroutine(d, _) => {
                J::obj(vec![("k", J::s("coroutine")), ("d", J::Str(dps(tcx, *d)))])
            }
            ty::FnDef(d, args) => J::obj(vec![
                ("k", J::s("fndef")),
                ("d", J::Str(dps(tcx, *d))),
                ("a", self.gargs(args)),
            ]),
            ty::Bool | ty::Char | ty::Int(_) | ty::Uint(_) | ty::Float(_) | ty::Str | ty::Never => {
                J::obj(vec![("k", J::s("prim")), ("n", J::Str(format!("{}", t)))])
            }
            ty::Param(p) => J::obj(vec![("k", J::s("param")), ("n", J::Str(p.name.to_string()))]),
            ty::Alias(_) => J::obj(vec![
                ("k", J::s("alias")),
                ("s", J::Str(with_no_trimmed_paths!(format!("{}", t)))),
            ]),
            ty::Dynamic(..) => J::obj(vec![
                ("k", J::s("dyn")),
                ("s", J::Str(with_no_trimmed_paths!(format!("{}", t)))),
            ]),
            _ => J::obj(vec![
                ("k", J::s("other")),
                ("s", J::Str(with_no_trimmed_paths!(format!("{}", t)))),
            ]),
        }
    }

    fn place(&mut self, body: &Body<'tcx>, p: &Place<'tcx>) -> J {
        let tcx = self.tcx;
        let mut proj = Vec::new();
        for (i, e) in p.projection.iter().enumerate() {
            let base_ty = Place::ty_from(p.local, &p.projection[..i], &body.local_decls, tcx);
            proj.push(match e {
                ProjectionElem::Deref => J::s("*"),
                ProjectionElem::Field(f, _) => {
                    let mut name = J::Null;
                    let mut adtn = J::Null;
                    match base_ty.ty.kind() {
                        ty::Adt(def, _) => {
                            let vi = base_ty.variant_index.unwrap_or(rustc_abi::FIRST_VARIANT);
                            if def.is_enum() || def.is_struct() || def.is_union() {
                                let var = def.variant(vi);
                                if f.as_usize() < var.fields.len() {
                                    name = J::Str(var.fields[f].name.to_string());
                                }
                                adtn = J::Str(dps(tcx, def.did()));
                            }
                        }
                        ty::Closure(d, _) | ty::Coroutine(d, _) | ty::CoroutineClosure(d, _) => {
                            if let Some(ld) = d.as_local() {
                                let caps = tcx.closure_captures(ld);
                                if f.as_usize() < caps.len() {
                                    name = J::Str(caps[f.as_usize()].to_symbol().to_string());
                                }
                                adtn = J::Str(format!("closure:{}", dps(tcx, *d)));
                            }
                        }
                        _ => {}
                    }
                    J::obj(vec![("f", J::Num(f.as_usize() as i128)), ("n", name), ("adt", adtn)])
                }
                ProjectionElem::Index(l) => J::obj(vec![("idx", J::Num(l.as_usize() as i128))]),
                ProjectionElem::ConstantIndex { offset, from_end, .. } => J::obj(vec![
                    ("cidx", J::Num(offset as i128)),
                    ("from_end", J::Bool(from_end)),
                ]),
                ProjectionElem::Subslice { from, to, from_end } => J::obj(vec![
                    ("sub", J::Arr(vec![J::Num(from as i128), J::Num(to as i128)])),
                    ("from_end", J::Bool(from_end)),
                ]),
                ProjectionElem::Downcast(name, v) => J::obj(vec![
                    ("dc", match name {
                        Some(s) => J::Str(s.to_string()),
                        None => J::Null,
                    }),
                    ("v", J::Num(v.as_usize() as i128)),
                ]),
                ProjectionElem::OpaqueCast(_) => J::s("opaque"),
                ProjectionElem::UnwrapUnsafeBinder(_) => J::s("unwrap_binder"),
            });
        }
        J::obj(vec![("l", J::Num(p.local.as_usize() as i128)), ("p", J::Arr(proj))])
    }

    fn alloc_bytes(&self, alloc_id: mir::interpret::AllocId, start: usize, len: Option<usize>) -> Option<Vec<u8>> {
        let ga = self.tcx.try_get_global_alloc(alloc_id)?;
        match ga {
            mir::interpret::GlobalAlloc::Memory(m) => {
                let a = m.inner();
                let total = a.len();
                let end = match len {
                    Some(l) => start + l,
                    None => total,
                };
                if end > total {
                    return None;
                }
                Some(a.inspect_with_uninit_and_ptr_outside_interpreter(start..end).to_vec())
            }
            _ => None,
        }
    }

    fn const_value(&mut self, v: ConstValue, t: Ty<'tcx>) -> Vec<(&'static str, J)> {
        let tcx = self.tcx;
        let mut out: Vec<(&'static str, J)> = Vec::new();
        match v {
            ConstValue::Scalar(s) => match s {
                mir::interpret::Scalar::Int(i) => {
                    let bits = i.to_bits_unchecked();
                    if t.is_bool() {
                        out.push(("bool", J::Bool(bits != 0)));
                    } else if let ty::Int(_) = t.kind() {
                        let size = i.size();
                        let sv = size.sign_extend(bits);
                        out.push(("int", J::Str(format!("{}", sv))));
                    } else {
                        out.push(("int", J::Str(format!("{}", bits))));
                    }
                }
                mir::interpret::Scalar::Ptr(p, _) => {
                    let (prov, off) = p.into_raw_parts();
                    let aid = prov.alloc_id();
                    if let Some(b) = self.alloc_bytes(aid, off.bytes() as usize, None) {
                        out.push(("bytes", J::Str(hex(&b))));
                    }
                }
            },
            ConstValue::ZeroSized => {
                if let ty::FnDef(d, args) = t.kind() {
                    out.push(("fn", J::Str(dps(tcx, *d))));
                    out.push(("fnx", J::Str(with_no_trimmed_paths!(tcx.def_path_str_with_args(*d, args)))));
                } else {
                    out.push(("zst", J::Bool(true)));
                }
            }
            ConstValue::Slice { alloc_id, meta } => {
                if let Some(b) = self.alloc_bytes(alloc_id, 0, Some(meta as usize)) {
                    let is_str = matches!(t.kind(), ty::Ref(_, inner, _) if inner.is_str());
                    if is_str {
                        out.push(("str", J::Str(String::from_utf8_lossy(&b).to_string())));
                    } else {
                        out.push(("bytes", J::Str(hex(&b))));
                    }
                }
            }
            ConstValue::Indirect { alloc_id, offset } => {
                if let Some(b) = self.alloc_bytes(alloc_id, offset.bytes() as usize, None) {
                    if b.len() <= 256 {
                        out.push(("mem", J::Str(hex(&b))));
                    }
                }
            }
        }
        out
    }

    fn operand(&mut self, body: &Body<'tcx>, o: &Operand<'tcx>) -> J {
        match o {
            Operand::Copy(p) => J::obj(vec![("copy", self.place(body, p))]),
            Operand::Move(p) => J::obj(vec![("move", self.place(body, p))]),
            Operand::Constant(c) => {
                let t = c.const_.ty();
                let mut f: Vec<(&'static str, J)> = Vec::new();
                f.push(("ty", J::Num(self.ty(t) as i128)));
                f.push(("s", J::Str(with_no_trimmed_paths!(format!("{}", c.const_)))));
                match c.const_ {
                    Const::Val(v, t) => {
                        let more = self.const_value(v, t);
                        f.extend(more);
                    }
                    Const::Unevaluated(uv, _) => {
                        let p = dps(self.tcx, uv.def);
                        f.push(("uneval", J::Str(p.clone())));
                        if uv.promoted.is_none() {
                            if !self.uneval.iter().any(|(d, _)| *d == uv.def) {
                                self.uneval.push((uv.def, p));
                            }
                        }
                    }
                    Const::Ty(t, ct) => {
                        f.push(("tyconst", J::Str(format!("{}", ct))));
                        if let Some(cv) = ct.try_to_value() {
                            if let Some(bytes) = cv.try_to_raw_bytes(self.tcx) {
                                let is_str = matches!(t.kind(), ty::Ref(_, inner, _) if inner.is_str());
                                if is_str {
                                    f.push(("str", J::Str(String::from_utf8_lossy(bytes).to_string())));
                                } else {
                                    f.push(("bytes", J::Str(hex(bytes))));
                                }
                            } else if let Some(leaf) = cv.try_to_leaf() {
                                if t.is_bool() {
                                    f.push(("bool", J::Bool(leaf.to_bits_unchecked() != 0)));
                                } else if t.is_integral() || t.is_char() {
                                    f.push(("int", J::Str(format!("{}", leaf.to_bits_unchecked()))));
                                }
                            }
                        }
                    }
                }
                J::obj(vec![("const", J::obj(f))])
            }
            _ => J::obj(vec![("other", J::Str(format!("{:?}", o)))]),
        }
    }

    fn rvalue(&mut self, body: &Body<'tcx>, r: &Rvalue<'tcx>) -> J {
        let tcx = self.tcx;
        match r {
            Rvalue::Use(o, _) => J::obj(vec![("use", self.operand(body, o))]),
            Rvalue::Ref(_, bk, p) => J::obj(vec![
                ("ref", self.place(body, p)),
                ("mut", J::Bool(matches!(bk, mir::BorrowKind::Mut { .. }))),
            ]),
            Rvalue::RawPtr(_, p) => J::obj(vec![("rawptr", self.place(body, p))]),
            Rvalue::CopyForDeref(p) => J::obj(vec![("use", J::obj(vec![("copy", self.place(body, p))]))]),
            Rvalue::Cast(k, o, t) => J::obj(vec![
                ("cast", self.operand(body, o)),
                ("kind", J::Str(format!("{:?}", k))),
                ("ty", J::Num(self.ty(*t) as i128)),
            ]),
            Rvalue::BinaryOp(op, b) => J::obj(vec![
                ("bin", J::Str(format!("{:?}", op))),
                ("l", self.operand(body, &b.0)),
                ("r", self.operand(body, &b.1)),
            ]),
            Rvalue::UnaryOp(op, o) => {
                J::obj(vec![("un", J::Str(format!("{:?}", op))), ("x", self.operand(body, o))])
            }
            Rvalue::Discriminant(p) => {
                let pt = p.ty(&body.local_decls, tcx).ty;
                let mut vars = Vec::new();
                let mut adtn = J::Null;
                if let ty::Adt(def, _) = pt.kind() {
                    adtn = J::Str(dps(tcx, def.did()));
                    for v in def.variants().iter() {
                        vars.push(J::Str(v.name.to_string()));
                    }
                }
                J::obj(vec![("discr", self.place(body, p)), ("adt", adtn), ("variants", J::Arr(vars))])
            }
            Rvalue::Repeat(o, n) => {
                J::obj(vec![("repeat", self.operand(body, o)), ("n", J::Str(format!("{}", n)))])
            }
            Rvalue::Aggregate(k, ops) => {
                let opsj: Vec<J> = ops.iter().map(|o| self.operand(body, o)).collect();
                let mut f: Vec<(&'static str, J)> = Vec::new();
                match &**k {
                    AggregateKind::Array(_) => f.push(("agg", J::s("array"))),
                    AggregateKind::Tuple => f.push(("agg", J::s("tuple"))),
                    AggregateKind::Adt(did, vi, args, _, active) => {
                        f.push(("agg", J::s("adt")));
                        f.push(("adt", J::Str(dps(tcx, *did))));
                        let adt = tcx.adt_def(*did);
                        let var = adt.variant(*vi);
                        f.push(("variant", J::Str(var.name.to_string())));
                        f.push(("vidx", J::Num(vi.as_usize() as i128)));
                        let names: Vec<J> = match active {
                            Some(fi) => vec![J::Str(var.fields[*fi].name.to_string())],
                            None => var.fields.iter().map(|fd| J::Str(fd.name.to_string())).collect(),
                        };
                        f.push(("fields", J::Arr(names)));
                        f.push(("ga", self.gargs(args)));
                    }
                    AggregateKind::Closure(did, _) => {
                        f.push(("agg", J::s("closure")));
                        f.push(("def", J::Str(dps(tcx, *did))));
                    }
                    AggregateKind::Coroutine(did, _) => {
                        f.push(("agg", J::s("coroutine")));
                        f.push(("def", J::Str(dps(tcx, *did))));
                    }
                    AggregateKind::CoroutineClosure(did, _) => {
                        f.push(("agg", J::s("closure")));
                        f.push(("def", J::Str(dps(tcx, *did))));
                    }
                    AggregateKind::RawPtr(..) => f.push(("agg", J::s("rawptr"))),
                }
                f.push(("ops", J::Arr(opsj)));
                J::obj(f)
            }
            other => J::obj(vec![("other", J::Str(format!("{:?}", other)))]),
        }
    }

    fn block(&mut self, owner: LocalDefId, body: &Body<'tcx>, bb: &BasicBlockData<'tcx>) -> J {
        let tcx = self.tcx;
        let mut stmts = Vec::new();
        for st in bb.statements.iter() {
            let (sp, exp) = span_json(tcx, st.source_info.span);
            match &st.kind {
                StatementKind::Assign(b) => {
                    let (p, r) = &**b;
                    let pj = self.place(body, p);
                    let rj = self.rvalue(body, r);
                    stmts.push(J::obj(vec![("k", J::s("assign")), ("lhs", pj), ("rv", rj), ("sp", J::Str(sp)), ("exp", exp)]));
                }
                StatementKind::SetDiscriminant { place, variant_index } => {
                    let pj = self.place(body, place);
                    stmts.push(J::obj(vec![
                        ("k", J::s("setdiscr")),
                        ("lhs", pj),
                        ("v", J::Num(variant_index.as_usize() as i128)),
                        ("sp", J::Str(sp)),
                        ("exp", exp),
                    ]));
                }
                StatementKind::StorageDead(l) => {
                    stmts.push(J::obj(vec![("k", J::s("dead")), ("l", J::Num(l.as_usize() as i128))]));
                }
                _ => {}
            }
        }
        let term = bb.terminator();
        let (sp, exp) = span_json(tcx, term.source_info.span);
        let mut f: Vec<(&'static str, J)> = Vec::new();
        let bbn = |b: mir::BasicBlock| J::Num(b.as_usize() as i128);
        match &term.kind {
            TerminatorKind::Goto { target } => {
                f.push(("k", J::s("goto")));
                f.push(("t", bbn(*target)));
            }
            TerminatorKind::SwitchInt { discr, targets } => {
                f.push(("k", J::s("switch")));
                f.push(("d", self.operand(body, discr)));
                let mut arms = Vec::new();
                for (v, t) in targets.iter() {
                    arms.push(J::Arr(vec![J::Str(format!("{}", v)), bbn(t)]));
                }
                f.push(("arms", J::Arr(arms)));
                f.push(("otherwise", bbn(targets.otherwise())));
            }
            TerminatorKind::Return => f.push(("k", J::s("return"))),
            TerminatorKind::Unreachable => f.push(("k", J::s("unreachable"))),
            TerminatorKind::UnwindResume => f.push(("k", J::s("resume"))),
            TerminatorKind::UnwindTerminate(_) => f.push(("k", J::s("terminate"))),
            TerminatorKind::CoroutineDrop => f.push(("k", J::s("cordrop"))),
            TerminatorKind::Drop { place, target, .. } => {
                f.push(("k", J::s("drop")));
                f.push(("place", self.place(body, place)));
                f.push(("t", bbn(*target)));
            }
            TerminatorKind::Call { func, args, destination, target, fn_span, .. } => {
                f.push(("k", J::s("call")));
                let fty = func.ty(&body.local_decls, tcx);
                self.callee(owner, fty, &mut f);
                if !matches!(func, Operand::Constant(_)) {
                    f.push(("fn_op", self.operand(body, func)));
                }
                let a: Vec<J> = args.iter().map(|a| self.operand(body, &a.node)).collect();
                f.push(("args", J::Arr(a)));
                f.push(("dest", self.place(body, destination)));
                f.push(("t", match target {
                    Some(t) => bbn(*t),
                    None => J::Null,
                }));
                let (fsp, _) = span_json(tcx, *fn_span);
                f.push(("fn_sp", J::Str(fsp)));
            }
            TerminatorKind::TailCall { .. } => f.push(("k", J::s("tailcall"))),
            TerminatorKind::Assert { cond, expected, target, msg, .. } => {
                f.push(("k", J::s("assert")));
                f.push(("cond", self.operand(body, cond)));
                f.push(("expected", J::Bool(*expected)));
                f.push(("msg", J::Str(format!("{:?}", msg).chars().take(80).collect())));
                f.push(("t", bbn(*target)));
            }
            TerminatorKind::Yield { value, resume, resume_arg, .. } => {
                f.push(("k", J::s("yield")));
                f.push(("value", self.operand(body, value)));
                f.push(("t", bbn(*resume)));
                f.push(("resume_arg", self.place(body, resume_arg)));
            }
            TerminatorKind::FalseEdge { real_target, .. } => {
                f.push(("k", J::s("goto")));
                f.push(("false_edge", J::Bool(true)));
                f.push(("t", bbn(*real_target)));
            }
            TerminatorKind::FalseUnwind { real_target, .. } => {
                f.push(("k", J::s("goto")));
                f.push(("false_unwind", J::Bool(true)));
                f.push(("t", bbn(*real_target)));
            }
            TerminatorKind::InlineAsm { .. } => f.push(("k", J::s("asm"))),
        }
        f.push(("sp", J::Str(sp)));
        f.push(("exp", exp));
        J::obj(vec![
            ("cleanup", J::Bool(bb.is_cleanup)),
            ("stmts", J::Arr(stmts)),
            ("term", J::obj(f)),
        ])
    }

    fn callee(&mut self, owner: LocalDefId, fty: Ty<'tcx>, f: &mut Vec<(&'static str, J)>) {
        let tcx = self.tcx;
        match fty.kind() {
            ty::FnDef(d, args) => {
                f.push(("fn", J::Str(dps(tcx, *d))));
                f.push(("fnx", J::Str(with_no_trimmed_paths!(tcx.def_path_str_with_args(*d, args)))));
                f.push(("ga", self.gargs(args)));
                f.push(("local", J::Bool(d.is_local())));
                // resolve trait method calls to the implementing instance when possible
                let env = TypingEnv::post_analysis(tcx, owner.to_def_id());
                let has_param = args.iter().any(|a| match a.kind() {
                    GenericArgKind::Type(t) => t.has_non_region_param() || t.has_aliases(),
                    GenericArgKind::Const(c) => c.has_non_region_param(),
                    _ => false,
                });
                if !has_param && tcx.trait_of_assoc(*d).is_some() {
                    if let Ok(Some(inst)) = Instance::try_resolve(tcx, env, *d, args) {
                        let rd = inst.def_id();
                        f.push(("res", J::Str(dps(tcx, rd))));
                        f.push(("resx", J::Str(with_no_trimmed_paths!(tcx.def_path_str_with_args(rd, inst.args)))));
                        f.push(("res_local", J::Bool(rd.is_local())));
                    }
                }
            }
            _ => {
                f.push(("fn", J::s("<indirect>")));
                f.push(("fnty", J::Num(self.ty(fty) as i128)));
            }
        }
    }

    fn body(&mut self, def: LocalDefId, body: &Body<'tcx>, stage: u8) -> J {
        let tcx = self.tcx;
        let did = def.to_def_id();
        let kind = tcx.def_kind(did);
        let mut f: Vec<(&'static str, J)> = Vec::new();
        f.push(("def", J::Str(dps(tcx, did))));
        f.push(("kind", J::Str(format!("{:?}", kind))));
        f.push(("stage", J::Num(stage as i128)));
        let is_coroutine = body.coroutine.is_some();
        f.push(("coroutine", J::Bool(is_coroutine)));
        let parent = tcx.opt_parent(did).map(|p| dps(tcx, p));
        f.push(("parent", match parent {
            Some(p) => J::Str(p),
            None => J::Null,
        }));
        let (sp, _) = span_json(tcx, body.span);
        f.push(("sp", J::Str(sp)));
        let sm = tcx.sess.source_map();
        let hi = sm.lookup_char_pos(body.span.source_callsite().hi());
        f.push(("end_line", J::Num(hi.line as i128)));
        f.push(("argc", J::Num(body.arg_count as i128)));
        if matches!(kind, DefKind::Fn | DefKind::AssocFn) {
            f.push(("vis", J::Str(format!("{:?}", tcx.visibility(did)))));
            // the function's own generic parameters, in the order call sites list their generic arguments
            let ident = ty::GenericArgs::identity_for_item(tcx, did);
            f.push(("gp", self.gargs(ident)));
        }
        let mut locals = Vec::new();
        for (_l, d) in body.local_decls.iter_enumerated() {
            locals.push(J::obj(vec![
                ("ty", J::Num(self.ty(d.ty) as i128)),
                ("mut", J::Bool(d.mutability.is_mut())),
                ("user", J::Bool(d.is_user_variable())),
            ]));
        }
        f.push(("locals", J::Arr(locals)));
        let mut dbg = Vec::new();
        for v in body.var_debug_info.iter() {
            let val = match &v.value {
                VarDebugInfoContents::Place(p) => self.place(body, p),
                VarDebugInfoContents::Const(c) => J::obj(vec![("const", J::Str(format!("{}", c.const_)))]),
            };
            dbg.push(J::obj(vec![
                ("name", J::Str(v.name.to_string())),
                ("v", val),
                ("arg", match v.argument_index {
                    Some(i) => J::Num(i as i128),
                    None => J::Null,
                }),
            ]));
        }
        f.push(("debug", J::Arr(dbg)));
        if matches!(kind, DefKind::Closure) {
            let mut caps = Vec::new();
            for c in tcx.closure_captures(def).iter() {
                let by_ref = matches!(c.info.capture_kind, ty::UpvarCapture::ByRef(_));
                caps.push(J::obj(vec![
                    ("name", J::Str(c.to_symbol().to_string())),
                    ("var", J::Str(c.var_ident.to_string())),
                    ("by_ref", J::Bool(by_ref)),
                    ("ty", J::Num(self.ty(c.place.ty()) as i128)),
                ]));
            }
            f.push(("captures", J::Arr(caps)));
        }
        let mut blocks = Vec::new();
        for (_b, bb) in body.basic_blocks.iter_enumerated() {
            blocks.push(self.block(def, body, bb));
        }
        f.push(("blocks", J::Arr(blocks)));
        J::obj(f)
    }
}

fn hex(b: &[u8]) -> String {
    let mut s = String::with_capacity(b.len() * 2);
    for x in b {
        s.push_str(&format!("{:02x}", x));
    }
    s
}

fn extract(tcx: TyCtxt<'_>, stage2: bool) {
    let out_dir = match std::env::var("XSV_OUT") {
        Ok(d) => d,
        Err(_) => return,
    };
    let cname = tcx.crate_name(rustc_hir::def_id::LOCAL_CRATE).to_string();
    let want = std::env::var("XSV_CRATE").unwrap_or_else(|_| "xs".to_string());
    if cname != want {
        return;
    }
    if tcx.sess.is_test_crate() {
        return;
    }
    let is_bin = tcx
        .crate_types()
        .iter()
        .any(|t| matches!(t, rustc_session::config::CrateType::Executable));
    let mut cx = Cx { tcx, types: Vec::new(), type_ids: HashMap::new(), uneval: Vec::new() };
    let mut bodies = Vec::new();
    let mut skipped = Vec::new();
    let owners: Vec<LocalDefId> = tcx.hir_body_owners().collect();
    for def in owners.iter().copied() {
        if !stage2 {
            // make sure the body was built (our provider then holds a copy), then read the copy: it cannot be stolen
            let _ = tcx.mir_built(def);
            match saved_body(def) {
                Some(body) => {
                    let j = cx.body(def, body, 1);
                    bodies.push(j);
                }
                None => {
                    skipped.push(J::Str(dps(tcx, def.to_def_id())));
                    continue;
                }
            }
        } else {
            let kind = tcx.def_kind(def.to_def_id());
            if !matches!(kind, DefKind::Fn | DefKind::AssocFn | DefKind::Closure) {
                continue;
            }
            let steal = tcx.mir_drops_elaborated_and_const_checked(def);
            if steal.is_stolen() {
                skipped.push(J::Str(dps(tcx, def.to_def_id())));
                continue;
            }
            let body = steal.borrow();
            let j = cx.body2(def, &body);
            bodies.push(j);
        }
    }

    // evaluate named constants referenced by bodies (after all bodies were read)
    let mut consts = Vec::new();
    if !stage2 {
        let uneval = std::mem::take(&mut cx.uneval);
        for (d, p) in uneval {
            let generics = tcx.generics_of(d);
            if generics.count() != 0 {
                continue;
            }
            if !matches!(tcx.def_kind(d), DefKind::Const { .. } | DefKind::AssocConst { .. } | DefKind::AnonConst | DefKind::InlineConst | DefKind::Static { .. }) {
                continue;
            }
            if let Ok(v) = tcx.const_eval_poly(d) {
                let t = tcx.type_of(d).instantiate_identity().skip_norm_wip();
                let mut f = cx.const_value(v, t);
                f.push(("def", J::Str(p)));
                f.push(("ty", J::Num(cx.ty(t) as i128)));
                consts.push(J::obj(f));
            }
        }
    }

    // ADTs, impls, fns
    let mut adts = Vec::new();
    let mut impls = Vec::new();
    let mut items = Vec::new();
    if !stage2 {
        for ld in tcx.hir_crate_items(()).definitions() {
            let d = ld.to_def_id();
            match tcx.def_kind(d) {
                DefKind::Struct | DefKind::Enum | DefKind::Union => {
                    let adt = tcx.adt_def(d);
                    let mut vars = Vec::new();
                    for v in adt.variants().iter() {
                        let mut fields = Vec::new();
                        for fd in v.fields.iter() {
                            let t = tcx.type_of(fd.did).instantiate_identity().skip_norm_wip();
                            fields.push(J::obj(vec![
                                ("name", J::Str(fd.name.to_string())),
                                ("ty", J::Num(cx.ty(t) as i128)),
                                ("vis", J::Str(format!("{:?}", fd.vis))),
                            ]));
                        }
                        vars.push(J::obj(vec![("name", J::Str(v.name.to_string())), ("fields", J::Arr(fields))]));
                    }
                    adts.push(J::obj(vec![
                        ("def", J::Str(dps(tcx, d))),
                        ("kind", J::Str(format!("{:?}", tcx.def_kind(d)))),
                        ("vis", J::Str(format!("{:?}", tcx.visibility(d)))),
                        ("variants", J::Arr(vars)),
                    ]));
                }
                DefKind::Impl { of_trait } => {
                    let self_ty = tcx.type_of(d).instantiate_identity().skip_norm_wip();
                    let tr = if of_trait {
                        let tr = tcx.impl_trait_ref(d).instantiate_identity().skip_norm_wip();
                        J::Str(dps(tcx, tr.def_id))
                    } else {
                        J::Null
                    };
                    let mut methods = Vec::new();
                    for it in tcx.associated_items(d).in_definition_order() {
                        methods.push(J::Str(dps(tcx, it.def_id)));
                    }
                    impls.push(J::obj(vec![
                        ("def", J::Str(dps(tcx, d))),
                        ("trait", tr),
                        ("self", J::Num(cx.ty(self_ty) as i128)),
                        ("self_s", J::Str(with_no_trimmed_paths!(format!("{}", self_ty)))),
                        ("derived", J::Bool(tcx.is_automatically_derived(d))),
                        ("items", J::Arr(methods)),
                    ]));
                }
                DefKind::Fn | DefKind::AssocFn => {
                    items.push(J::obj(vec![
                        ("def", J::Str(dps(tcx, d))),
                        ("vis", J::Str(format!("{:?}", tcx.visibility(d)))),
                        ("async", J::Bool(tcx.asyncness(d).is_async())),
                    ]));
                }
                _ => {}
            }
        }
    }

    let root = J::obj(vec![
        ("crate", J::Str(cname.clone())),
        ("is_bin", J::Bool(is_bin)),
        ("stage", J::Num(if stage2 { 2 } else { 1 })),
        ("rustc", J::Str(option_env!("CFG_VERSION").unwrap_or("nightly").to_string())),
        ("n_owners", J::Num(owners.len() as i128)),
        ("skipped", J::Arr(skipped)),
        ("types", J::Arr(std::mem::take(&mut cx.types))),
        ("consts", J::Arr(consts)),
        ("adts", J::Arr(adts)),
        ("impls", J::Arr(impls)),
        ("fns", J::Arr(items)),
        ("bodies", J::Arr(bodies)),
    ]);
    let name = format!(
        "{}/{}-{}{}.json",
        out_dir,
        cname,
        if is_bin { "bin" } else { "lib" },
        if stage2 { "-s2" } else { "" }
    );
    let mut s = String::new();
    root.write(&mut s);
    let tmp = format!("{}.tmp.{}", name, std::process::id());
    std::fs::write(&tmp, s).expect("write facts");
    std::fs::rename(&tmp, &name).expect("rename facts");
}

impl<'tcx> Cx<'tcx> {
    // stage-2 bodies: only the call-site multiset and block structure are needed for the cross-check
    fn body2(&mut self, def: LocalDefId, body: &Body<'tcx>) -> J {
        let tcx = self.tcx;
        let did = def.to_def_id();
        let mut calls = Vec::new();
        for (_b, bb) in body.basic_blocks.iter_enumerated() {
            if bb.is_cleanup {
                continue;
            }
            if let TerminatorKind::Call { func, fn_span, .. } = &bb.terminator().kind {
                let fty = func.ty(&body.local_decls, tcx);
                if let ty::FnDef(d, args) = fty.kind() {
                    let (sp, exp) = span_json(tcx, *fn_span);
                    calls.push(J::obj(vec![
                        ("fn", J::Str(dps(tcx, *d))),
                        ("fnx", J::Str(with_no_trimmed_paths!(tcx.def_path_str_with_args(*d, args)))),
                        ("sp", J::Str(sp)),
                        ("exp", exp),
                    ]));
                }
            }
        }
        J::obj(vec![
            ("def", J::Str(dps(tcx, did))),
            ("stage", J::Num(2)),
            ("calls", J::Arr(calls)),
        ])
    }
}
